// Minimal reproducer: a photon thread whose wait_for_fd() starts with an already expired Timeout yields
// (thread_usleep(expired) -> thread_yield) with its interest registered. If the event is fired while it is
// READY, thread_interrupt() stores EOK in error_number and thread_yield() returns it WITHOUT clearing it.
// The stale EOK is then reported by the next sleep of that thread that ends by timeout: wait_for_fd()
// returns 0 ("event arrived") at the timeout without removing its interest. With the epoll-ng engine the
// registration keeps a pointer to the dead stack object `waiter`, dereferenced when the event fires later.
#include <photon/photon.h>
#include <photon/thread/thread11.h>
#include <photon/io/fd-events.h>
#include <photon/common/alog.h>
#include <sys/socket.h>
#include <poll.h>
#include <fcntl.h>
#include <unistd.h>
#include <cstdio>
#include <cstdlib>
using namespace photon;
static int sp[2], idle[2], idle2[2];
static bool stop = false;
static void spinner(int fd) {    // keeps calling the engine: wait_for_fd with an expired timeout on an idle fd
    while (!stop) wait_for_fd_readable(fd, Timeout(0));
}
int main(int argc, char** argv) {
    set_log_output_level(ALOG_FATAL + 1);
    uint64_t engine = (argc > 1 && argv[1][0] == 'n') ? INIT_EVENT_EPOLL_NG : INIT_EVENT_EPOLL;
    photon::init(engine, INIT_IO_NONE);
    socketpair(AF_UNIX, SOCK_STREAM | SOCK_NONBLOCK, 0, sp);
    socketpair(AF_UNIX, SOCK_STREAM | SOCK_NONBLOCK, 0, idle);
    socketpair(AF_UNIX, SOCK_STREAM | SOCK_NONBLOCK, 0, idle2);
    auto t1 = thread_enable_join(thread_create11(spinner, idle[0]));
    auto t2 = thread_enable_join(thread_create11(spinner, idle2[0]));
    int bogus = 0;
    for (int i = 0; i < 300 && !bogus; ++i) {
        char c = 'x';
        if (write(sp[1], &c, 1) != 1) abort();                       // sp[0] is readable
        int r = wait_for_fd_readable(sp[0], Timeout(0));        // expired at entry: yields with the interest armed
        (void)r;
        if (read(sp[0], &c, 1) != 1) abort();                        // drained: nothing to wait for any more
        struct pollfd p = {sp[0], POLLIN, 0};
        r = wait_for_fd_readable(sp[0], Timeout(3000));         // must time out: -1 / ETIMEDOUT
        int e = errno;
        if (r == 0 && poll(&p, 1, 0) == 0) {
            fprintf(stderr, "iteration %d: wait_for_fd_readable(fd, 3ms) returned 0 (event arrived) but the fd is not readable\n", i);
            bogus = 1;
        } else if (r == 0 || e != ETIMEDOUT) fprintf(stderr, "iteration %d: r=%d errno=%d\n", i, r, e);
    }
    if (bogus) {
        char c = 'y';
        if (write(sp[1], &c, 1) != 1) abort();          // the event of the abandoned registration fires now
        thread_usleep(2000);
    }
    stop = true;
    thread_join(t1); thread_join(t2);
    fprintf(stderr, bogus ? "DEFECT reproduced\n" : "not reproduced\n");
    photon::fini();
    return bogus;
}
