// Minimal stand-alone reproducer for the two C11 findings (real photon::rpc::Stub, no harness).
//   case 1: a follower's deadline expires while the leader is reading the follower's response body
//   case 2: the response arrives before the request's send has returned (writev that returns late, zero-copy style)
// In both cases the call returns -1 and releases its buffers / stack while the leader is still inside do_collect for it.
// Build (ASan flavor of the library):
//   g++ -std=c++17 -O1 -g -fsanitize=address -DPHOTON_VERIF=1 -I/repo/include -I/repo repro_c11.cpp \
//       -L/verif/build/asan/lib/output -lphoton -Wl,-rpath,/verif/build/asan/lib/output -lpthread -ldl -o repro_c11
//   ./repro_c11 1   |   ./repro_c11 2
#include <photon/photon.h>
#include <photon/thread/thread.h>
#include <photon/rpc/rpc.h>
#include <photon/common/iovector.h>
#include <photon/common/alog.h>
#include <string>
#include <cstdio>
#include <cstdlib>
#include <cstring>
using namespace photon;

struct Wire { std::string q; condition_variable cv; };
struct End : public IStream {       // blocking in-memory duplex end; writev may return late
    Wire *in, *out;
    uint64_t late_us = 0;
    int close() override { return 0; }
    ssize_t read(void* b, size_t n) override { struct iovec v{b, n}; return readv(&v, 1); }
    ssize_t readv(const struct iovec* iov, int cnt) override {
        ssize_t done = 0;
        for (int i = 0; i < cnt; ++i)
            for (size_t off = 0; off < iov[i].iov_len;) {
                while (in->q.empty()) in->cv.wait_no_lock();
                size_t n = std::min(in->q.size(), iov[i].iov_len - off);
                memcpy((char*)iov[i].iov_base + off, in->q.data(), n);      // <- writes into the caller's response buffer
                in->q.erase(0, n); off += n; done += n;
            }
        return done;
    }
    ssize_t write(const void* b, size_t n) override { struct iovec v{(void*)b, n}; return writev(&v, 1); }
    ssize_t writev(const struct iovec* iov, int cnt) override {
        ssize_t n = 0;
        for (int i = 0; i < cnt; ++i) { out->q.append((char*)iov[i].iov_base, iov[i].iov_len); n += iov[i].iov_len; }
        out->cv.notify_all();
        if (late_us) thread_usleep(late_us);        // the bytes are out, the call returns later
        return n;
    }
    uint64_t timeout() const override { return -1; }
    void timeout(uint64_t) override {}
};
struct StubAccess : public rpc::Stub { using rpc::Stub::do_call; };
static rpc::Stub* stub;
static const size_t RLEN = 4096;
struct CallArg { uint64_t timeout_us; const char* name; };

static void* caller(void* a_) {
    auto a = (CallArg*)a_;
    char* reqbuf = (char*)malloc(16);
    memset(reqbuf, 'q', 16);
    char* respbuf = (char*)malloc(RLEN);
    iovector* req = new_iovector(2, 1);
    new (req->get_allocator()) IOAlloc;
    req->push_back(reqbuf, 16);
    iovector* resp = new_iovector(1, 0);
    new (resp->get_allocator()) IOAlloc;
    resp->push_back(respbuf, RLEN);
    int ret = (stub->*(&StubAccess::do_call))(rpc::FunctionID(1), req, resp, Timeout(a->timeout_us));
    fprintf(stderr, "%s: do_call returned %d errno=%d -> freeing its buffers, thread exits\n", a->name, ret, errno);
    delete_iovector(resp); free(respbuf); delete_iovector(req); free(reqbuf);
    return nullptr;
}

int main(int argc, char** argv) {
    int which = argc > 1 ? atoi(argv[1]) : 1;
    set_log_output_level(ALOG_FATAL + 1);
    photon::vcpu_init();
    Wire up, down;
    End se, pe;
    se.in = &down; se.out = &up; pe.in = &up; pe.out = &down;
    if (which == 2) se.late_us = 5000;
    stub = rpc::new_rpc_stub(&se, false);
    CallArg L{(uint64_t)-1, "leader"}, F{which == 1 ? 50000ull : 30000000ull, "follower"};
    thread_create(caller, &L, 256 * 1024);
    thread_yield();                                     // L sends and becomes the leader (tag 1)
    if (which == 2) thread_usleep(10000);
    thread_create(caller, &F, 256 * 1024);              // F: tag 2
    // the peer: read F's request, answer it in two parts
    rpc::Header h;
    char payload[16];
    pe.read(&h, sizeof(h)); pe.read(payload, 16);       // L's request
    pe.read(&h, sizeof(h)); pe.read(payload, 16);       // F's request (case 2: F is still inside writev)
    rpc::Header r;
    r.size = RLEN; r.tag = h.tag; r.function = h.function;
    std::string body(RLEN, 'r');
    if (which == 1) thread_usleep(20000);
    pe.write(&r, sizeof(r));
    pe.write(body.data(), RLEN / 2);                    // the leader is now inside F's body
    thread_usleep(100000);                              // case 1: F's deadline (50 ms) passes; case 2: F's send returns (5 ms)
    fprintf(stderr, "peer: sending the rest of the body\n");
    pe.write(body.data(), RLEN / 2);                    // the leader copies it into F's freed buffer, then touches F's context/thread
    thread_usleep(100000);
    fprintf(stderr, "not reached under ASan\n");
    return 0;
}
