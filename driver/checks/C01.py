from reghelp import *

CHECK = dict(
        runs=runs3('h_mutex', (16, 8, 16), (64, 32, 96)),
        par=6,
        level='exploration',
        rule='one evaluation = one seeded execution (fresh process) of the mutex/spinlock stress with stall points, '
             'interrupters and a CPU shape; non-trivial = it saw at least one hand-off to a queued waiter and at least one '
             'timed-out or interrupted lock() (or, in the spinlock section, >=2 OS threads contending); distinct = distinct '
             'signature (configuration, lock kinds, log2-bucketed rare-path counters)',
        floors=dict(quick=dict(evaluations=20, events=50000, distinct=8, cov={'C_MUTEX_HANDOFF': 100, 'lock_timeout': 50, 'lock_interrupted': 20}),
                    thorough=dict(evaluations=150, events=1000000, distinct=40, cov={'C_MUTEX_HANDOFF': 1000, 'lock_timeout': 500, 'lock_interrupted': 200})),
        assumptions=['x86-TSO hardware; weaker orderings only through TSan', 'stall points widen windows only where hooks exist'],
        technique='runtime monitoring: occupancy/ownership/errno monitors at the API boundary + stuck detector, under ASan+UBSan, TSan (fiber-annotated) and plain builds with OS-level stall points and CPU shapes',
        level_text='Held on the seeded executions actually run: every lock/try_lock/timed lock result of every thread is checked against an '
                   'occupancy monitor (conservative intervals), the mutex owner field, the deadline and the interrupt ledger, a plain payload is '
                   'checked for lost updates, and TSan/ASan watch the same runs. Reach comes from 1-6 vCPUs, interrupters from photon and OS threads, '
                   'stall points inside the hand-off/interrupt/resume windows and 1/2/16-core CPU shapes. Not a proof over all schedules.',
        level_note='Trusts the harness monitors (relaxed atomics, updated after acquire / before release), gcc sanitizer runtimes, and that OS-level stalls only widen real windows. '
                   'Only x86-TSO interleavings are observable; stall points exist only where hooks were placed.',
    )
