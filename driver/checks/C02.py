from reghelp import *

CHECK = dict(
    runs=runs3('h_sem', (16, 8, 16), (64, 32, 96)),
    par=6,
    level='exploration',
    rule='one evaluation = one seeded execution of the semaphore stress (ledger mode: demand-driven signallers incl. a plain OS thread, '
         'waiters with wait/wait(timeout)/wait_interruptible and interrupters; destroy mode: waiter deletes the semaphore right after wait(); script mode: a head waiter with a large demand is interrupted or times out while smaller waiters, already covered by count(), are queued behind it); '
         'non-trivial = successful waits AND failed (timed-out or interrupted) waits AND signals were all observed (destroy mode: >=1 round); '
         'distinct = distinct signature (configuration, resume mode, log2-bucketed rare-path counters)',
    floors=dict(quick=dict(evaluations=20, events=20000, distinct=8, cov={'wait_timeout': 50, 'wait_interrupted': 10, 'signals_from_os_thread': 10, 'destroy_after_wait_rounds': 500, 'script_head_interrupted': 200}),
                thorough=dict(evaluations=150, events=400000, distinct=40, cov={'wait_timeout': 500, 'wait_interrupted': 100, 'signals_from_os_thread': 100, 'destroy_after_wait_rounds': 5000, 'C_SEM_OOO_NONHEAD': 10, 'script_head_interrupted': 2000})),
    assumptions=['x86-TSO hardware; weaker orderings only through TSan', 'lost wake-ups are decided in bounded-progress form: no progress for 5 s while the ledger shows count() >= demand of a blocked waiter'],
    technique='runtime monitoring: token ledger (online upper bound + exact conservation at quiescence), demand-driven signalling with a ledger-gated stuck detector, errno/deadline oracle, heap-lifetime check under ASan/TSan for destroy-after-wait, OS-level stall points and CPU shapes',
    level_text='Held on the seeded executions actually run: tokens taken by successful waits never exceed tokens supplied, the ledger balances exactly at quiescence '
               '(so failed waits took nothing), ETIMEDOUT never precedes the deadline, no waiter stays blocked once supply covers all started demand, and a semaphore '
               'deleted immediately after wait() returned is never touched again by signal() (ASan/TSan). Not a proof over all schedules.',
    level_note='Trusts the harness ledger (relaxed atomics; signalled counted before the call, taken counted after the return), the sanitizer runtimes, and the 5 s silence window of the stuck detector.',
)
