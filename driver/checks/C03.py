from reghelp import *

CHECK = dict(
    runs=runs3('h_cvar', (16, 8, 16), (64, 32, 96)),
    par=6,
    level='exploration',
    rule='one evaluation = one seeded execution of the condition-variable stress (lock kind mutex or spinlock, 1-4 vCPUs, timed and untimed waiters, '
         'notifiers with and without the lock, notify_one and notify_all); non-trivial = at least one notifier-under-lock check ran while untimed waiters '
         'were registered AND both notified and timed-out waits were observed; distinct = distinct signature (lock kind, vCPUs, waiters, log2-bucketed rare paths)',
    floors=dict(quick=dict(evaluations=20, events=20000, distinct=8, cov={'gap_checks_with_waiters': 2000, 'wait_timed_out': 200, 'notify_all_woken': 200, 'timed_waiter_notified': 20}),
                thorough=dict(evaluations=150, events=400000, distinct=40, cov={'gap_checks_with_waiters': 40000, 'wait_timed_out': 4000, 'notify_all_woken': 4000, 'timed_waiter_notified': 400, 'C_DEFER_TO_NEW_THREAD': 0})),
    assumptions=['x86-TSO hardware; weaker orderings only through TSan', 'nobody interrupts the waiters in this harness, so ETIMEDOUT is the only legal error'],
    technique='runtime monitoring: ledger written only under the waiters\' own lock decides atomic release-and-wait exactly (no timing), notification/wake-up accounting at quiescence, lock-held and deadline oracles, stuck detector, under ASan+UBSan / TSan / plain with stall points and CPU shapes; plus an ASan probe in which waiters return as soon as they are woken while two vCPUs notify without a common lock (named by the harness in __asan_on_error)',
    level_text='Held on the seeded executions actually run: every notifier that held the lock while untimed waiters were registered found them in the queue '
               '(notify_one non-null, notify_all >= registered), every wait() returned with the lock held, 0 only when a notification accounts for it and -1/ETIMEDOUT '
               'only after its deadline and never after notify_one() had reported that thread as woken, and notifications and wake-ups balance at quiescence. '
               'Not a proof over all schedules.',
    level_note='Trusts the harness ledger (relaxed atomics written only under the lock under test; exclusion of that lock is C01\'s business but is also monitored here), sanitizer runtimes, OS-level stalls.',
)
