from reghelp import *

CHECK = dict(
    runs=runs3('h_sleep', (18, 9, 18), (64, 32, 96)),
    par=6,
    level='exploration',
    rule='one evaluation = one seeded execution: 4-200 sleepers per vCPU on 1-4 vCPUs with zero / tied / random / infinite deadlines and yields, interrupters on the same vCPU, '
         'other vCPUs and a plain OS thread (unique errno per interrupt), then targeted rounds (interrupt of a created-but-not-started thread, thread_shutdown); '
         'non-trivial = completed AND interrupted sleeps were observed and the sleep-heap walker ran; distinct = distinct signature (vCPUs, population, log2-bucketed rare paths)',
    floors=dict(quick=dict(evaluations=20, events=100000, distinct=8, cov={'sleep_interrupted': 500, 'yield_interrupted': 5, 'C_SLEEPQ_WALK': 10000, 'C_SLEEPQ_POP_MIDDLE': 1000, 'tie_deadline_sleeps': 1000, 'shutdown_sleeps': 20, 'not_started_rounds': 50}),
                thorough=dict(evaluations=150, events=2000000, distinct=40, cov={'sleep_interrupted': 10000, 'yield_interrupted': 50, 'C_SLEEPQ_WALK': 200000, 'C_SLEEPQ_POP_MIDDLE': 20000, 'C_RESUME_FOUND_STANDBY': 1, 'shutdown_sleeps': 200})),
    assumptions=['x86-TSO hardware', 'the "first scheduling round after the deadline" clause is decided on logical time by the in-library heap walker, and only in single-vCPU executions for the expired-sleeper part (several vCPUs write the coarse clock)',
                 'lost sleepers are decided in bounded-progress form (deadline passed > 2 s ago, nothing progresses for 5 s)'],
    technique='runtime monitoring: sequence-stamped history of sleep/yield/interrupt calls checked online (at-most-once, not-to-a-later-call, never-early on CLOCK_BOOTTIME), guarded invariant walker over the sleep heap inside the scheduler, stuck detector, under ASan+UBSan / TSan / plain with stall points and CPU shapes; plus a shutdown section in which a marked thread goes through every kind of blocking call (sleep, semaphore / mutex / condition waits, descriptor wait, pause-work-stealing scope) before its final sleeps',
    level_text='Held on the seeded executions actually run: no sleep returned 0 before its deadline, every -1/non-zero result carried the unique code of an interrupt sent to that thread, reported once, '
               'and never one whose send had returned before the call was made; after every mutation of the sleep heap all back-indices and the heap order were intact, and (single vCPU) no expired '
               'sleeper was left behind by a resume pass; all finite sleeps returned; shut-down threads failed with EPERM within the bound. Not a proof over all schedules.',
    level_note='Trusts the harness history (one relaxed global sequence counter; on x86 its order is real-time order), the guarded walker compiled into thread.cpp, sanitizer runtimes.',
)
