from reghelp import *

CHECK = dict(
    runs=runs3('h_life', (16, 8, 16), (64, 32, 96)),
    par=6,
    level='exploration',
    rule='one evaluation = one seeded execution: trees of threads created through thread_create / thread_create11 / go / a thread pool on 1-6 vCPUs with seeded work-stealing flags and a '
         'recording stack allocator (default, pooled or global pooled underneath); bodies yield, sleep, self-migrate, spawn, migrate READY children, interrupt and join; '
         'non-trivial = more than 10 threads, joins observed and (on several vCPUs) at least one migration or steal; distinct = distinct signature (vCPUs, allocator, flags, log2-bucketed rare paths)',
    floors=dict(quick=dict(evaluations=20, events=20000, distinct=8, cov={'joins': 500, 'self_migrations': 100, 'other_migrations': 5, 'stack_frees': 500, 'slices_on_another_vcpu_than_creator': 100}),
                thorough=dict(evaluations=150, events=400000, distinct=40, cov={'joins': 10000, 'self_migrations': 2000, 'C_STEAL_RUNQ': 1, 'pool_tasks': 100, 'joins_from_another_vcpu': 100})),
    assumptions=['x86-TSO hardware; weaker orderings only through TSan', 'thread pools are used from the vCPU that owns them'],
    technique='runtime monitoring: per-thread run/active/done/join ledger kept by the entry functions, recording StackAllocator installed through the public API, thread-count and stuck-detector checks, under ASan+UBSan / TSan / plain with stall points in steal/migrate/die/join and CPU shapes; plus a steal-during-switch probe (suspension points that know their sequence number, stall point between run-queue unlock and context save), the in-library sleep-heap walker (a registered thread belongs to the heap\'s vCPU) and a small pooled-stack trim threshold',
    level_text='Held on the seeded executions actually run: every created thread entered its entry function exactly once and finished, no thread resumed while another vCPU was executing it or inside a '
               'pause-work-stealing section on another vCPU, every join returned once, after the entry function returned, with its value, every stack was released exactly once and not before the thread '
               'finished (joinable: not before join was called), and each vCPU\'s thread count returned to its initial value. Not a proof over all schedules.',
    level_note='Trusts the harness ledger (relaxed atomics in the entry functions), the recording allocator wrapper, sanitizer runtimes, OS-level stalls.',
)
