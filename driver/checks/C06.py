from reghelp import *

CHECK = dict(
    runs=runs3('h_rwlock', (16, 8, 16), (64, 32, 96)),
    par=6,
    level='exploration',
    rule='one evaluation = one seeded execution: readers and writers on 1-4 vCPUs using lock / timed lock / try_lock (qrwlock) on rwlock and qrwlock objects, holding with yields and sleeps, '
         'with interrupters; non-trivial = at least two readers were inside together AND writers got in AND failed (timed-out or interrupted) locks were observed; '
         'distinct = distinct signature (lock kinds, vCPUs, workers, log2-bucketed rare paths)',
    floors=dict(quick=dict(evaluations=20, events=30000, distinct=8, cov={'reader_entered_while_other_readers_inside': 500, 'write_locked': 1000, 'lock_timeout': 200, 'lock_interrupted': 10, 'C_QRW_SLOWPATH': 50, 'C_RWLOCK_WAIT': 50}),
                thorough=dict(evaluations=150, events=600000, distinct=40, cov={'reader_entered_while_other_readers_inside': 10000, 'write_locked': 20000, 'lock_timeout': 4000, 'lock_interrupted': 200, 'C_QRW_SLOWPATH': 1000, 'C_RWLOCK_WAIT': 1000})),
    assumptions=['x86-TSO hardware; weaker orderings only through TSan', 'admission after the last unlock is decided in bounded-progress form (nobody inside, a locker blocked, no progress for 5 s)'],
    technique='runtime monitoring: reader/writer occupancy monitor at the API boundary (conservative intervals), plain payload under TSan/ASan, deadline/errno oracle, free-lock probe at quiescence, stuck detector, with stall points in the unlock/wake windows and CPU shapes; plus scripted single-vCPU admission rounds judged in logical steps (all waiting readers inside after the last holder unlocked, also when a queued writer gave up)',
    level_text='Held on the seeded executions actually run: no writer was ever inside together with anyone else, readers were observed inside together, every failed lock left no trace '
               '(a zero-timeout write lock and read lock succeed at quiescence, nobody stays blocked with the lock free), ETIMEDOUT never preceded the deadline. Not a proof over all schedules.',
    level_note='Trusts the occupancy monitor (relaxed atomics, marked after lock returned / unmarked before unlock), sanitizer runtimes, OS-level stalls.',
)
