from reghelp import *

CHECK = dict(
    runs=runs3('h_ring', (14, 8, 14), (70, 35, 100), timeout=(300, 900)) +
         runs3('h_ringchan', (14, 8, 14), (60, 30, 80), timeout=(300, 1200)),
    par=12,
    level='exploration',
    rule='one evaluation = one seeded execution (fresh process). h_ring: P producers x C consumers (OS threads) over one ring queue '
         '(MPMC with 64/8-bit marks, batch MPMC, SPSC; fixed/Flex; capacity 2..64) with push/pop/send/recv/batch operations and stall '
         'points between claim and publish; h_ringchan: one RingChannel/FlexRingChannel with photon consumers on 1-4 vCPUs, photon and '
         'OS-thread producers, demand-driven bursts, idle gaps and full-queue phases, periodic re-check stretched to 3 s. '
         'non-trivial = the ring wrapped >= 3 turns and (h_ring) push-on-full and pop-on-empty were both observed / (h_ringchan) a consumer '
         'really slept on the semaphore and was woken by a signal; distinct = distinct signature (queue kind, capacity, thread shape, '
         'yield parameters, log2-bucketed rare-path counters)',
    floors=dict(
        quick=dict(evaluations=50, events=300000, distinct=30,
                   cov={'executions_with_3_or_more_turns': 20, 'C_RING_PUSH_FULL': 1000, 'C_RING_POP_EMPTY': 1000, 'C_RING_BATCH_WRAP': 100,
                        'C_RINGCHAN_CONSUMER_SLEPT': 1000, 'C_RINGCHAN_CONSUMER_SIGNALLED': 1000, 'C_RINGCHAN_SENDER_BACKOFF': 100,
                        'full_phases_in_which_a_sender_slept': 50, 'idle_gaps_in_which_consumers_slept': 50,
                        'stall_P_RING_PUSH_CLAIMED': 20, 'stall_P_RING_POP_CLAIMED': 20, 'push_returned_false': 1000,
                        'pop_returned_false': 1000, 'capacity_samples': 10000}),
        thorough=dict(evaluations=300, events=5000000, distinct=150,
                      cov={'executions_with_3_or_more_turns': 150, 'C_RING_PUSH_FULL': 20000, 'C_RING_POP_EMPTY': 20000, 'C_RING_BATCH_WRAP': 2000,
                           'C_RINGCHAN_CONSUMER_SLEPT': 20000, 'C_RINGCHAN_CONSUMER_SIGNALLED': 20000, 'C_RINGCHAN_SENDER_BACKOFF': 2000,
                           'full_phases_in_which_a_sender_slept': 1000, 'idle_gaps_in_which_consumers_slept': 1000,
                           'stall_P_RING_PUSH_CLAIMED': 500, 'stall_P_RING_POP_CLAIMED': 500, 'push_returned_false': 20000,
                           'pop_returned_false': 20000, 'capacity_samples': 200000})),
    assumptions=['x86-TSO hardware; weaker orderings only through TSan, whose gcc runtime does not model atomic_thread_fence: the '
                 "channel's Dekker-style handshake is judged by the behavioural notification oracle, not by TSan",
                 'head/tail counters never approach 2^64 (index overflow out of reach)',
                 'a missed notification is decided in bounded form: the periodic re-check is stretched to 3 s (hook tunable) and a rescue by '
                 'that re-check counts only if the send had returned more than 1 s before the expired deadline',
                 'an OS-thread (ThreadPause/CPUPause) sender has no notification mechanism by design (it polls); the sender clause is '
                 'checked for send<PhotonPause> only'],
    technique='runtime monitoring: per-item exactly-once ledger compared at quiescence, per (producer, consumer) order monitor, conservative '
              'capacity bound from three monotone counters, rescue events emitted by the channel (hook) matched against per-item send-return '
              'times and a started/received ledger, ledger-gated stuck detector; under ASan+UBSan, TSan and plain builds with OS-level stall '
              'points between claim and publish / push and idler check / failed pop and idler registration, and 1/2/16-core CPU shapes',
    level_text='Held on the seeded executions actually run: every value whose push/send succeeded was returned exactly once and no other value '
               '(two-word payload with check word), per-producer order held at every consumer, the sampled lower bound of the content never '
               'exceeded capacity(), no consumer or photon sender was left to its periodic re-check while an element / room had been available '
               'for more than 1 s, nothing got stuck, and ASan/UBSan/TSan stayed silent on the slot payloads. Not a proof over all schedules.',
    level_note='Trusts the harness ledgers (relaxed atomics, counted before the call / after the return), the sanitizer runtimes and the '
               'verification hooks in common/lockfree_queue.h (the 3 s re-check runs a guarded copy of the wait statement). Only x86-TSO '
               'interleavings are observable, so a missing seq_cst fence in RingChannel::send cannot be seen; stall points exist only where '
               'hooks were placed.',
)
