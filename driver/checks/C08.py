from reghelp import *

CHECK = dict(
    runs=runs3('h_workpool', (16, 8, 16), (64, 32, 96)),
    par=8,
    level='exploration',
    rule='one evaluation = one seeded execution (fresh process): several WorkPools in a row (vcpu_num 1/2/4, thread mode -1 / 0 / pooled, '
         'ring size 1/2/4/64, event engine none/epoll/epoll-ng), each loaded by photon-thread submitters on their own vCPUs and/or plain OS threads with '
         'bursts of async_call larger than the ring and call<Photon|Std|AutoContext>() with nop / yielding / sleeping bodies, then destroyed (from a photon '
         'or an OS thread) right after a final burst so that the last accepted tasks are still queued or running; non-trivial = at least 40 tasks, every '
         'pool destroyed, and at least one of: sender found the ring full, task still running / still queued at destructor entry, task started while an '
         'earlier one on the same vCPU was unfinished, pooled thread reused; distinct = distinct signature (configuration + log2-bucketed rare-path counters)',
    floors=dict(quick=dict(evaluations=30, events=30000, distinct=10,
                           cov={'C_WORKPOOL_RING_FULL': 500, 'C_WORKPOOL_NEW_THREAD': 3000, 'tasks_running_at_destructor_entry': 100,
                                'tasks_started_after_destructor_entry': 50, 'task_started_while_previous_on_same_vcpu_unfinished': 500,
                                'pooled_thread_reused': 300, 'tasks_from_os_threads': 5000, 'tasks_from_photon_threads': 5000,
                                'pools_destroyed_from_photon_thread': 10, 'pools_destroyed_from_os_thread': 10, 'bursts_larger_than_ring': 200}),
                thorough=dict(evaluations=150, events=300000, distinct=60,
                              cov={'C_WORKPOOL_RING_FULL': 5000, 'C_WORKPOOL_NEW_THREAD': 50000, 'tasks_running_at_destructor_entry': 1500,
                                   'tasks_started_after_destructor_entry': 800, 'task_started_while_previous_on_same_vcpu_unfinished': 5000,
                                   'pooled_thread_reused': 3000, 'tasks_from_os_threads': 50000, 'tasks_from_photon_threads': 50000,
                                   'pools_destroyed_from_photon_thread': 150, 'pools_destroyed_from_os_thread': 150, 'bursts_larger_than_ring': 2000})),
    assumptions=['x86-TSO hardware; weaker orderings only through TSan (which does not model the fences of the ring channel)',
                 'a pool is never destroyed concurrently with a submission and nobody joins it with join_current_vcpu_into_workpool (outside the property)',
                 'stall points widen windows only where hooks exist (workerpool.cpp hand-off, semaphore signal/wait, cross-vCPU resume)'],
    technique='runtime monitoring: per-task ledger (exec / finished / deleted counters, plain payload, by-value state in heap functors freed at the earliest '
              'legal moment), executing-vCPU monitor and stuck detector, under ASan+UBSan, TSan (fiber-annotated) and plain builds with OS-level stall '
              'points and CPU shapes; pools are also served by vCPUs that join from outside (join_current_vcpu_into_workpool), including pools without workers of their own',
    level_text='Held on the seeded executions actually run: every task accepted through call()/async_call() from photon threads and plain OS threads '
               'entered its body exactly once, on a vCPU that is not a submitter\'s, with at most vcpu_num distinct executing vCPUs per pool; every call() '
               'returned only after its task\'s last statement; every async task object was deleted exactly once and only after it ran; after ~WorkPool '
               'returned every accepted task had run and finished (pools destroyed with tasks still queued and running), in thread modes -1, 0 and pooled, '
               'with rings smaller than the bursts. ASan/UBSan and TSan watched the same runs. Not a proof over all schedules.',
    level_note='Trusts the harness ledger (relaxed atomics in the task bodies and functor destructors), sanitizer runtimes, and that OS-level stalls only widen real '
               'windows. The dispatcher\'s stack-resident task record is on an OS-thread stack, so its misuse is observed through the ledger (task lost / run '
               'twice / object deleted twice), not directly by ASan. A hang without a ledger-proved cause is reported as hang only if it repeats.',
)
