from reghelp import *

# five shapes against eight execution classes (exec % 8): every class meets every CPU shape
_SHAPES = [None, 'two', None, 'one', None]

CHECK = dict(
    runs=runs3('h_chan', (24, 12, 24), (96, 48, 128), timeout=(240, 900), shapes=_SHAPES),
    par=8,
    level='exploration',
    rule='one evaluation = one seeded execution (fresh process): one channel of capacity 0/1/2/8, 1-4 senders and 1-4 receivers on 1-3 vCPUs, '
         'send/recv untimed, timed and try_*, free-running or with a coordinator that scripts the arrival order, close() mid-stream or after the '
         'senders finished, values with or without heap state; non-trivial = values were received AND some call had to wait inside the channel AND '
         '(a call failed by time-out/close OR close() found buffered items OR two senders were inside send() of an unbuffered channel); '
         'distinct = distinct signature (class, capacity, senders/receivers/vCPUs, mode bits, log2-bucketed rare-path counters)',
    floors=dict(quick=dict(evaluations=40, events=60000, distinct=20,
                           cov={'C_CHAN_SEND_WAIT': 5000, 'C_CHAN_RECV_WAIT': 5000, 'send_timeout': 500, 'recv_timeout': 1500,
                                'unbuf_two_senders_inside_send': 500, 'unbuf_send_timeout_with_receiver_inside_recv': 100,
                                'close_with_buffered_items': 1, 'try_send_then_close_values_accepted': 200,
                                'send_true_called_on_full_buffer': 1500, 'recv_true_called_on_empty_channel': 5000,
                                'executions_of_clean_classes': 16, 'script_steps': 5000}),
                thorough=dict(evaluations=200, events=600000, distinct=80,
                              cov={'C_CHAN_SEND_WAIT': 50000, 'C_CHAN_RECV_WAIT': 50000, 'send_timeout': 5000, 'recv_timeout': 15000,
                                   'unbuf_two_senders_inside_send': 5000, 'unbuf_send_timeout_with_receiver_inside_recv': 1000,
                                   'close_with_buffered_items': 5, 'values_received_by_calls_made_after_close': 3, 'try_send_then_close_values_accepted': 800,
                                   'send_true_called_on_full_buffer': 15000, 'recv_true_called_on_empty_channel': 50000,
                                   'executions_of_clean_classes': 90, 'script_steps': 50000})),
    assumptions=['x86-TSO hardware; weaker orderings only through TSan',
                 'one channel may be shared by photon threads of different vCPUs (go.h builds on photon::mutex/condition_variable/semaphore, std::atomic and the MPMC ring, all cross-vCPU primitives)',
                 'release clauses are decided in bounded-progress form: no successful send/recv for 5 s while the ledger shows a blocked untimed call whose wake condition holds',
                 'a send that returned false is kept open (it may still be delivered, at most once); try_send/try_recv returning false need no cause'],
    technique='runtime monitoring: per-value ledger (attempted / returned true / received by whom, with global call and return stamps) checked online and at quiescence '
              '(exactly once, per-sender order, cause of every false, drained-before-closed), demand-driven workload with a ledger-gated stuck detector, '
              'seeded arrival-order scripts, heap-owning values under ASan+UBSan, TSan for cross-vCPU sharing, OS-level stall points between a failed push/pop and the waiter registration, CPU shapes; plus scripted rounds: fan-out (one value per blocked receiver) and close() right after a successful try_send()',
    level_text='Held on the seeded executions actually run, for the execution classes that the recorded defects cannot reach (one sender on an unbuffered channel; buffered channels used from one '
               'vCPU): every value whose send/try_send returned true was received exactly once, per sender in order, nothing was received that was not sent, every false send/recv '
               'had a cause (close requested, or the deadline had passed on the runtime clock), no recv reported closed before the values sent before close() were handed out, '
               'and no untimed call stayed blocked while its wake condition held. Executions with two senders on an unbuffered channel (or send() right after try_send()) and buffered '
               'channels shared across vCPUs reproduce the recorded defects (KNOWN-FINDING); all other oracles stay armed there. Not a proof over all schedules.',
    level_note='Trusts the harness ledger (relaxed atomics, stamps from one global counter taken before a call and after its return), the sanitizer runtimes, and the 5 s silence window '
               'of the stuck detector. The slot-overwrite hook only attributes a lost value; the verdict comes from the ledger.',
)
