import os
from reghelp import *

_SHAPES_ASAN = [None, None, None, 'two']
_SHAPES_PLAIN = [None, None, 'two', None, None, 'one']

CHECK = dict(
        runs=[
            dict(harness='h_sock', flavor='asan', execs=dict(quick=30, thorough=140),
                 timeout=dict(quick=240, thorough=900), shapes=_SHAPES_ASAN, cfg={}),
            dict(harness='h_sock', flavor='plain', execs=dict(quick=48, thorough=280),
                 timeout=dict(quick=240, thorough=900), shapes=_SHAPES_PLAIN, cfg={}),
            # client and server vCPUs are different OS threads in this run (cfg vcpus=2): TSan watches the
            # process-wide state of the engines / socket layer and the harness ledger
            dict(harness='h_sock', flavor='tsan', execs=dict(quick=6, thorough=16),
                 timeout=dict(quick=300, thorough=900), shapes=[None], cfg={'vcpus': 2}),
        ],
        par=14,
        level='exploration',
        rule='one evaluation = one seeded execution (fresh process): a configuration (master engine epoll / epoll-ng per vCPU, '
             'level- or edge-triggered streams per side, TCP loopback or Unix-domain sockets, 1 or 2 vCPUs, 1-40 connections, '
             'syscall shim injecting short counts / EINTR / spurious EAGAIN or only counting, accept() loop or start_loop handler) in '
             'which every read/recv/readv/write/send/writev call of every connection is checked; non-trivial = the kernel really '
             'returned EAGAIN on the reader side and on the writer side of test sockets (so the register-interest -> sleep -> event '
             '-> retry path ran in both directions); distinct = distinct signature (configuration + log2 buckets of: full 16-event '
             'batches, stale events, EAGAINs per side, writev resumed inside an element, both directions of one fd waited for at '
             'once, timeouts, timeouts with data in flight, EOF inside a full read)',
        floors=dict(
            quick=dict(evaluations=70, events=100000, distinct=40,
                       cov={'shim_hits': 80000, 'eagain_reader_side': 5000, 'eagain_writer_side': 500,
                            'writev_resumed_inside_element': 500, 'both_directions_waiting_on_one_fd': 100,
                            'C_EPOLL_BATCH_FULL': 8, 'timeout_with_data_in_flight': 100, 'eof_inside_full_read': 100,
                            'timeouts_reader': 200, 'timeouts_writer': 100, 'iovec_empty_elements': 10000,
                            'shim_short_counts': 5000, 'shim_eintr': 1000, 'shim_spurious_eagain': 500,
                            'C_EPOLL_WAIT_FD': 10000}),
            thorough=dict(evaluations=390, events=1400000, distinct=220,
                          cov={'shim_hits': 1000000, 'eagain_reader_side': 50000, 'eagain_writer_side': 5000,
                               'writev_resumed_inside_element': 5000, 'both_directions_waiting_on_one_fd': 1000,
                               'C_EPOLL_BATCH_FULL': 80, 'timeout_with_data_in_flight': 1000, 'eof_inside_full_read': 700,
                               'timeouts_reader': 2000, 'timeouts_writer': 1000, 'iovec_empty_elements': 100000,
                               'shim_short_counts': 50000, 'shim_eintr': 10000, 'shim_spurious_eagain': 5000,
                               'C_EPOLL_WAIT_FD': 100000})),
        assumptions=['Linux loopback TCP and AF_UNIX stream sockets deliver bytes reliably and in order (the kernel is trusted)',
                     'the shim injects only behaviours a kernel may show: short counts >= 1, EINTR, spurious EAGAIN on level-triggered streams only',
                     'io_uring is not built in this tree: epoll, epoll-ng and the edge-triggered poller only',
                     'stream timeouts are checked "not earlier than" (photon::now at call + timeout - 5 ms against CLOCK_BOOTTIME); lateness only by the 5 s stuck detector'],
        technique='runtime monitoring: position-keyed byte streams (byte at offset o = prng(conn, dir, o)) over real TCP-loopback / Unix-domain '
                  'photon socket streams, per-call count / errno / deadline / EOF monitors, a kernel-level ledger kept by an interposed syscall shim '
                  '(recv/send/recvmsg/sendmsg/read defined in the harness executable) that also injects legal short counts, EINTR and spurious EAGAIN, '
                  'a stuck detector gated by the ledger and by poll()/SIOCOUTQ/FIONREAD, under ASan+UBSan (exact-size heap iovecs), plain and TSan builds; plus a burst probe: 17-48 readers of one vCPU blocked, one pass of raw writes without photon scheduling, then silence',
        level_text='Held on the seeded executions actually run: every byte returned by every read-side call is compared with the byte written at that stream '
                   'offset, every call\'s return value / errno is checked against the count contracts (full count, bytes so far at EOF, 1..n, ETIMEDOUT only for a '
                   'timed call and not before its deadline), EOF must come exactly at the written length, and a blocked call is reported only when the ledger and '
                   'the kernel agree that it had to be woken. Reach comes from 1-40 connections per engine, both engines, LT and ET streams, TCP and UDS, tiny '
                   'socket buffers, slow / stalling / tick-synchronised peers, stream timeouts shorter than peer stalls, closes at arbitrary offsets, iovec '
                   'splits with empty elements and more than 8 elements, and syscall-level short counts / EINTR / spurious EAGAIN. Not a proof over all schedules.',
        level_note='Trusts the kernel\'s stream sockets, the harness ledger and shim, and the gcc sanitizer runtimes. Timeout lateness is only bounded by the 5 s '
                   'stuck detector. C_EPOLL_BOTH_DIR of the repo hook counts every re-arm, so "both directions armed" is measured by the harness instead '
                   '(EAGAIN seen by the shim while the other direction of the same fd stays suspended in its call).',
    )
# mutation trials in a scratch worktree may restrict the flavors to be built (VERIF_FLAVORS=asan,plain)
if os.environ.get('VERIF_FLAVORS'):
    CHECK['runs'] = [r for r in CHECK['runs'] if r['flavor'] in os.environ['VERIF_FLAVORS'].split(',')]
