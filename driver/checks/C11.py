from reghelp import *

_T = dict(quick=240, thorough=600)

CHECK = dict(
        # a stub stays on one vCPU (API requirement), peers run on the same vCPU: nothing for TSan to see -> asan (main) + plain (volume)
        runs=[dict(harness='h_rpc', flavor='asan', execs=dict(quick=16, thorough=64), timeout=_T, shapes=[None], cfg={}),
              dict(harness='h_rpc', flavor='plain', execs=dict(quick=8, thorough=32), timeout=_T, shapes=[None], cfg={})],
        par=14,
        level='exploration',
        rule='one evaluation = one seeded execution (fresh process): 10 (quick) / 30 (thorough) rounds, each a fresh real Stub on an in-memory '
             'socket-like stream with 2-32 concurrent caller threads against the real Skeleton or a scripted adversary peer (permuted, '
             'fragmented, delayed-relative-to-deadline responses, close at byte k, unknown/duplicate/late tags); executions 3,11,.. aim a '
             'follower deadline into the header/body window, 7,15,.. let a response overtake the return of the send; non-trivial = a leader '
             'collected another caller\'s body, at least one call succeeded, and a follower timed out / an unknown tag was seen / the stream '
             'failed around a body; distinct = distinct signature (sub-workload, configuration mask, log2 buckets of the rare-path counters)',
        floors=dict(quick=dict(evaluations=20, events=8000, distinct=10,
                               cov={'C_OOO_LEADER_COLLECT_OTHER': 5000, 'C_OOO_FOLLOWER_TIMEOUT': 150, 'C_OOO_UNKNOWN_TAG': 25,
                                    'park_timeout_calls': 100, 'follower_timeout_inside_body': 1, 'overtaken_call_returned_inside_body': 1,
                                    'stream_error_mid_body': 4, 'close_mid_body': 3, 'duplicate_tag_sent': 4, 'calls_ok': 7000,
                                    'caller_thread_exited_after_call': 1500}),
                    thorough=dict(evaluations=80, events=120000, distinct=40,
                                  cov={'C_OOO_LEADER_COLLECT_OTHER': 70000, 'C_OOO_FOLLOWER_TIMEOUT': 2000, 'C_OOO_UNKNOWN_TAG': 300,
                                       'park_timeout_calls': 1500, 'follower_timeout_inside_body': 8, 'overtaken_call_returned_inside_body': 6,
                                       'stream_error_mid_body': 60, 'close_mid_body': 40, 'duplicate_tag_sent': 50, 'calls_ok': 100000,
                                       'caller_thread_exited_after_call': 20000})),
        assumptions=['the stub and all its callers live on one vCPU (API requirement), so interleavings are those of photon yields inside the stream methods',
                     'the in-memory stream is socket-like: read/readv block up to the stream timeout (per operation or per wait, seeded), writev may yield',
                     'expected response = deterministic expansion of the request; both peers produce exactly that'],
        technique='runtime monitoring: per-call ledger at the do_call boundary (bytes of every successful response, errno of every failure), library event '
                  'hooks (collect / body intervals vs. the "call returned" mark, target iovector identity), queue count at quiescence, stuck detector; '
                  'per-call heap objects of exact size freed at return under ASan+UBSan; scripted protocol adversary and the real Skeleton as peers',
        level_text='Held on the seeded executions actually run, except for two reproduced defects reported as known findings: every call of every caller is '
                   'checked (success => exactly its own response; failure => negative return with errno), every collect/body interval of the leader is '
                   'compared with the return mark of the call it works for, the response/request objects are freed at return so ASan sees any later access, '
                   'and every round ends with get_queue_count()==0. Reach comes from 2-32 callers, two peers, response permutation and fragmentation, pauses '
                   'placed around individual deadlines, close/reset at chosen bytes, unknown/duplicate/late tags, callers whose thread exits after the call. '
                   'Not a proof over all schedules.',
        level_note='Trusts the harness ledger and stream model, the hook events placed in rpc.cpp/out-of-order-execution.cpp, gcc sanitizer runtimes. A run that hits one of '
                   'the two known defects ends that execution at the return mark (continuing would corrupt memory), so later behaviour of such an execution is not observed; '
                   'benign executions are arranged so that neither window can open.',
    )
