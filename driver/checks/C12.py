from reghelp import *

CHECK = dict(
        mode='inputs',
        runs=[dict(harness='h_ser', flavor='asan', execs=dict(quick=16, thorough=32), timeout=dict(quick=240, thorough=900), shapes=[None],
                   cfg={}, cfg_quick={'inputs': 1400}, cfg_thorough={'inputs': 16000}),
              # the shipped flags without sanitizers: volume for the explicit oracles, and the only flavor in which the optimiser is free to
              # show what it does with iovector.h's zero-length-array layout (stack probe in h_ser.cpp)
              dict(harness='h_ser', flavor='plain', execs=dict(quick=2, thorough=16), timeout=dict(quick=240, thorough=900), shapes=[None],
                   cfg={'salt': 7}, cfg_quick={'inputs': 1400}, cfg_thorough={'inputs': 32000})],
        par=16,
        level='exploration',
        rule='one evaluation = one checked (de)serialization: a seeded instance of one of 16 message types (plain fields, buffer, aligned_buffer, '
             'fixed_buffer<T>, array<T>, array<Message>, string incl. length 0 and 1, iovec_array, aligned_iovec_array, nested messages, one or two '
             'sorted_maps, CheckedMessage) is serialized, flattened and cut into 1..24 exact-size heap fragments; variant 0 deserializes it unchanged '
             '(round trip), variants 1-3 after one seeded hostile edit (a length/offset/slice/pointer word set to 0, 1, len+-1, remaining+-1, 2^31, 2^63 ..., '
             'truncation, extension, bit flips, fully random or length-shaped random strings). Non-trivial: a round-trip input is non-trivial iff a '
             'variable-length field or the body straddles two fragments (copy path) or the message holds a sorted_map with >= 2 entries; a hostile input iff '
             'the edit really changed the bytes and the input is at least as long as the message body. distinct = distinct hash of (type, field contents, '
             'edit, cut points)',
        floors=dict(quick=dict(evaluations=17000, events=34000, distinct=9000,
                               cov={'roundtrip_ok': 3000, 'field_straddles_fragments': 3000, 'body_straddles_fragments': 2000, 'zero_length_field': 3000,
                                    'string_length_1': 300, 'map_ge2_entries': 500, 'checksum_mismatch_rejected': 800, 'checked_roundtrip_ok': 400,
                                    'hostile_accepted': 2000, 'hostile_rejected': 3000, 'allocator_copies': 5000, 'iovec_array_multi_fragment': 300,
                                    'zero_length_fragment': 300, 'map_find_calls': 2000, 'fields_walked': 10000, 'wire_lengths_exceed_input': 2000}),
                    thorough=dict(evaluations=850000, events=1700000, distinct=500000,
                                  cov={'roundtrip_ok': 200000, 'field_straddles_fragments': 200000, 'body_straddles_fragments': 100000,
                                       'zero_length_field': 200000, 'string_length_1': 20000, 'map_ge2_entries': 30000, 'checksum_mismatch_rejected': 50000,
                                       'checked_roundtrip_ok': 25000, 'hostile_accepted': 120000, 'hostile_rejected': 200000, 'allocator_copies': 300000,
                                       'iovec_array_multi_fragment': 20000, 'zero_length_fragment': 20000, 'map_find_calls': 120000,
                                       'fields_walked': 600000, 'wire_lengths_exceed_input': 120000})),
        assumptions=['the reference walk of the wire format in the harness ([aligned fields][other fields][body], lengths taken from the body) is the intended format; '
                     'it is cross-checked against the serializer on every valid instance',
                     'reference binding to / arithmetic on a null pointer that is never accessed (serialize.h failure paths) is not a read or write outside the input: '
                     'UBSan null and pointer-overflow sub-checks are off for the harness translation unit; ASan still reports real null accesses',
                     'fixed_buffer<T>::get(), string::c_str()/sv() and array<T>::front() trust the wire length; only the extent [ptr, ptr+len) is judged',
                     'an altered CheckedMessage that is accepted is called a violation only when no 32-bit CRC can miss the alteration (<= 3 bits or a burst <= 32 bits) '
                     'or when the checksum carried does not match the library\'s own algorithm'],
        technique='runtime monitoring, input-driven: differential oracle against an independent reference walk of the wire format, explicit extent table '
                  '(supplied fragments + recording IOAlloc of the receiving iovector), byte-for-byte round-trip comparison, sorted_map slice check + '
                  'iteration/find(), all under ASan+UBSan with every fragment, source buffer and copy an exact-size heap block; inputs run in forked batches so a '
                  'sanitizer death names its input and the rest is still explored',
        level_text='Held on the seeded inputs actually run (see evaluations): every round trip is compared field by field with the original, every accepted '
                   'hostile input has each field extent checked against the fragment/allocator table and its bytes against the input at the wire position, every '
                   'byte of every field is read under ASan, maps are iterated and searched. Not a proof over all byte strings or all message shapes.',
        level_note='Trusts the harness reference walk, the recording allocator and gcc\'s sanitizer runtimes. ASan cannot see an over-read that stays inside the same '
                   'fragment; the explicit extent/content oracles cover the fields, not transient reads inside the library. 16 message types stand for "every shape".',
    )
