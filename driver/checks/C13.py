from reghelp import *

CHECK = dict(
        mode='inputs',
        runs=[dict(harness='h_http', flavor='asan', execs=dict(quick=16, thorough=16), timeout=dict(quick=900, thorough=2400), shapes=[None], cfg={}),
              dict(harness='h_http', flavor='plain', execs=dict(quick=0, thorough=4), timeout=dict(quick=900, thorough=2400), shapes=[None], cfg={})],
        par=12,
        level='exploration',
        rule='one evaluation = one (byte string, fragmentation plan) pair parsed by the real Request/Response::receive_header + body read/readv '
             'on a mock stream that delivers exactly the planned pieces (each pair is parsed under 2-3 different garbage fills of the unused part of the '
             'caller buffer; these repetitions are not counted). Non-trivial: for valid and written-then-read messages the plan cuts strictly inside the '
             'header terminator CRLFCRLF, inside a chunk-size line or inside the CRLF after chunk data, or the recv() that completed the header also '
             'carried body bytes; for malformed input the bytes contain a header terminator, so that the parser proper ran (otherwise the library only '
             'waits for more bytes until end of stream). distinct = distinct hash(bytes, plan) among the non-trivial ones',
        floors=dict(quick=dict(evaluations=40000, events=100000, distinct=30000,
                               cov={'term_split': 8000, 'chunkline_split': 3000, 'datacrlf_split': 1200, 'hdr_end_with_body': 15000, 'big_chunk': 500,
                                    'after_last_chunk': 2000, 'one_byte_plans': 800, 'pair_plans': 10000, 'roundtrip_cases': 400,
                                    'malformed_inputs': 15000, 'malformed_hdr_accepted': 8000, 'malformed_hdr_rejected': 2500, 'msg_close_delimited': 30,
                                    'msg_head_response': 8, 'zero_write_cases': 8, 'probe_items': 4}),
                    thorough=dict(evaluations=600000, events=1200000, distinct=300000,
                                  cov={'term_split': 80000, 'chunkline_split': 30000, 'datacrlf_split': 12000, 'hdr_end_with_body': 150000, 'big_chunk': 5000,
                                       'after_last_chunk': 20000, 'one_byte_plans': 5000, 'pair_plans': 100000, 'roundtrip_cases': 2500,
                                       'malformed_inputs': 200000, 'malformed_hdr_accepted': 100000, 'malformed_hdr_rejected': 30000, 'msg_close_delimited': 500,
                                       'msg_head_response': 100, 'zero_write_cases': 100, 'probe_items': 8})),
        assumptions=['valid messages are kept inside the buffer budget of the library (header <= capacity - 8 KiB - index), so that acceptance cannot depend on how much body arrives with the header',
                     'the mock stream has the fully-read semantics of the real socket streams for read()/readv() and the some-bytes semantics for recv()',
                     'except in the dedicated probe items (which use a buffer without any NUL, followed by a guard page) the last byte of the caller buffer is a NUL; the strlen() over the buffer that made this necessary was repaired in 5d5322e and the probes would report it again'],
        technique='runtime monitoring by differential execution under ASan+UBSan (and a plain build with guard-page buffers): grammar-based generator of valid '
                  'HTTP/1.1 requests/responses with a model, structural/1-byte/random fragmentation plans on a mock ISocketStream, garbage-fill differential of the '
                  'caller buffer, step bound on calls into the stream, writer->reader round trips through the library body writers, mutation/truncation/random '
                  'malformed inputs; every item runs in a forked child so that a sanitizer report or crash is attributed to its input',
        level_text='Held on the (message, fragmentation) pairs actually run: for generated valid messages (Content-Length, chunked incl. multi-KiB chunks, trailers and '
                   'bytes after the last chunk, close-delimited, HEAD responses; 0-60 fields with duplicates and case variants) the status of receive_header, the '
                   'start line fields, the header multimap, the body bytes and end-of-body equal the generator\'s model and are identical across whole / every '
                   'structural split point and pairs of them / one byte at a time / random fragmentations and across different garbage fills of the buffer; bodies '
                   'written through the fixed-length and chunked writers are read back identically; mutated, truncated and random inputs end in an error or '
                   'end-of-stream with results independent of the garbage fill, within 8*len+64 calls into the stream, without sanitizer report or crash. '
                   'Not a proof over all inputs.',
        level_note='Trusts the harness generator/model, the mock stream, gcc ASan/UBSan (reads that stay inside the caller buffer are only visible through the '
                   'garbage-fill differential) and the forked-child attribution. Valid messages beyond the library\'s buffer budget are exercised only as '
                   '"malformed" (no model). Known findings are matched by exact key in known_findings.json.',
    )
