from reghelp import *

CHECK = dict(
        mode='inputs',
        runs=[
            dict(harness='h_iov', flavor='asan', execs=dict(quick=16, thorough=32), timeout=dict(quick=240, thorough=900), shapes=[None]),
            # more programs without the sanitizer (monitor-only: return / bytes / remaining / outside-buffers oracles)
            dict(harness='h_iov', flavor='plain', execs=dict(quick=0, thorough=16), timeout=dict(quick=240, thorough=900), shapes=[None],
                 cfg_thorough={'progs': 500000}),
        ],
        par=16,
        level='exploration',
        rule='one evaluation = one seeded program (vector shape: bare iovector_view / heap IOVector / new_iovector, 0..40 elements of 0..40 bytes '
             'with zero-length elements anywhere, + 1..24 operations with seeded counts from 0 to beyond the content) or one case of the fixed '
             'empty-operand matrix; non-trivial = at least one operation whose request ended exactly on an interior element boundary, or a copy '
             'straddling misaligned source/destination element boundaries, or a copy with an empty operand; distinct = distinct hash of '
             '(shape, operation sequence with arguments)',
        floors=dict(
            quick=dict(evaluations=300000, events=4000000, distinct=200000,
                       cov={'req_ends_on_element_boundary': 80000, 'req_beyond_content': 300000, 'copy_with_empty_operand': 300000,
                            'op_on_vector_with_zero_length_element': 400000, 'copy_straddles_misaligned_boundaries': 40000,
                            'dest_view_with_too_few_slots': 30000, 'matrix_cases': 2592, 'forked_probes': 800,
                            'programs_bare_view': 150000, 'programs_IOVector': 80000, 'programs_new_iovector': 50000,
                            'continuous_extract_by_copy': 50000, 'allocator_partial_grants': 25000, 'continued_on_sub_vector': 20000}),
            thorough=dict(evaluations=10000000, events=150000000, distinct=7000000,
                          cov={'req_ends_on_element_boundary': 3000000, 'req_beyond_content': 10000000, 'copy_with_empty_operand': 10000000,
                               'op_on_vector_with_zero_length_element': 15000000, 'copy_straddles_misaligned_boundaries': 1500000,
                               'dest_view_with_too_few_slots': 1000000, 'matrix_cases': 7776, 'forked_probes': 2000,
                               'programs_bare_view': 4000000, 'programs_IOVector': 2500000, 'programs_new_iovector': 1500000,
                               'continuous_extract_by_copy': 2000000, 'allocator_partial_grants': 1000000, 'continued_on_sub_vector': 700000})),
        assumptions=['operands of one operation never overlap; slice offsets are >= 0; zero-length elements carry a non-null base',
                     'destination buffers have the documented size (`size` bytes for memcpy_to/pipe_to/extract_back(n, buf), min(n, content) for extract_front(n, buf))',
                     'destination views/iovectors with fewer slots than the source has elements are explored for memory safety only (-1 or a correct prefix accepted)',
                     'new_iovector() vectors get an allocator installed by the harness (the library leaves it unconstructed)',
                     'shrink_less_than(): memory safety and prefix only; bytes added by truncate()/push_*(bytes) are unspecified'],
        technique='differential runtime monitoring: every operation of seeded programs is compared with a flat-byte-string reference model '
                  '(return value, bytes produced, remaining content, extent check of every element against the buffers handed to the library), '
                  'under ASan+UBSan with every element buffer, destination buffer and iovec array an exact-size heap block; crash-suspect '
                  'inputs (empty bare-view operands of copy operations) run in a forked child first; sub-vector extractions also get destination views with exactly the needed number of slots',
        level_text='Held on the seeded programs actually run (counts in the evidence): shapes with 0..40 elements including zero-length ones, byte counts '
                   'from 0 over every element boundary to beyond the content and SIZE_MAX, offsets inside/at/after the content, destination shapes '
                   'misaligned with the source, owning and bare variants, sub-vectors re-used as subjects. Each operation result is compared with the '
                   'flat-string model and every access is watched by ASan on exact-size blocks. Not exhaustive over shapes or sequences.',
        level_note='Trusts the harness model and registry, and the gcc ASan/UBSan runtimes. ASan cannot see an overflow that lands inside another live block; '
                   'the extent check of every resulting element against the registered buffers covers that for the vectors the harness can observe. '
                   'The plain-flavor executions have only the monitor oracles.',
    )
