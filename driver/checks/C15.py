from reghelp import *

# The bounded domain is enumerated completely by the executions of a run together: execution e takes the items
# (variant, interval | table, offset) whose running index is congruent to e modulo nexec, with every length.
# nexec must equal the number of executions of that run in that tier.
_Q, _T = 8, 16

CHECK = dict(
        mode='inputs',
        runs=[
            dict(harness='h_rsplit', flavor='asan', execs=dict(quick=_Q, thorough=_T), timeout=dict(quick=240, thorough=900),
                 shapes=[None], cfg_quick={'nexec': _Q}, cfg_thorough={'nexec': _T}),
            # more seeded volume without the sanitizer (the bounded domain is already covered by the asan run)
            dict(harness='h_rsplit', flavor='plain', execs=dict(quick=0, thorough=8), timeout=dict(quick=240, thorough=900),
                 shapes=[None], cfg_thorough={'small': 0, 'large': 400000, 'vi': 100000}),
        ],
        par=8,
        level='exploration',
        rule='one evaluation = one input (variant fixed | power2 | key-point table, offset, length, interval or table) on which all oracles '
             'were evaluated; non-trivial = length >= 1 and the range touches >= 2 blocks or begins or ends exactly on a block boundary, or '
             'length == 0 at an unaligned offset; distinct = distinct hash of (variant, offset, length, interval | table)',
        floors=dict(
            quick=dict(evaluations=800000, events=2400000, distinct=500000,
                       cov={'inputs_small_domain': 161312, 'inputs_large_values': 400000, 'inputs_random_tables': 200000,
                            'cls_empty_aligned': 1000, 'cls_empty_unaligned': 1000, 'cls_small_note': 10000,
                            'cls_one_block_preface': 1000, 'cls_one_block_postface': 1000, 'cls_one_whole_block': 1000,
                            'cls_multi_preface_postface': 10000, 'cls_multi_preface_only': 1000, 'cls_multi_postface_only': 1000,
                            'cls_multi_aligned_both': 1000, 'cls_three_or_more_blocks': 10000,
                            'cls_end_within_one_interval_of_2^64': 1000}),
            thorough=dict(evaluations=8000000, events=24000000, distinct=5000000,
                          cov={'inputs_small_domain': 840889, 'inputs_large_values': 5000000, 'inputs_random_tables': 2000000,
                               'cls_empty_aligned': 10000, 'cls_empty_unaligned': 10000, 'cls_small_note': 100000,
                               'cls_one_block_preface': 10000, 'cls_one_block_postface': 10000, 'cls_one_whole_block': 10000,
                               'cls_multi_preface_postface': 100000, 'cls_multi_preface_only': 10000, 'cls_multi_postface_only': 10000,
                               'cls_multi_aligned_both': 10000, 'cls_three_or_more_blocks': 100000,
                               'cls_end_within_one_interval_of_2^64': 10000})),
        assumptions=['offset + length + interval <= 2^64-1 (no 64-bit overflow in the rounding arithmetic)',
                     'power-of-two variant is given a power of two (its constructor only asserts it)',
                     'key-point tables are well formed (n >= 3, first 0, last UINT64_MAX, strictly ascending) and the range begins at or below '
                     'key_points[n-2] (the last block is the table\'s sentinel)',
                     'seeded large values touch at most ~70 blocks per range'],
        technique='runtime monitoring of the real headers against a direct arithmetic specification: complete enumeration of a bounded domain '
                  '(split over the executions) plus seeded large values and seeded key-point tables, every iterator loop step-bounded, '
                  'under ASan+UBSan (key-point tables are exact-size heap arrays)',
        level_text='Exhaustive for the bounded domain stated in the evidence (quick: offset, length in [0,70], interval in [1,17], power-of-two '
                   'intervals <= 64, 8 key-point tables; thorough: [0,130], [1,33], <= 128): for every such input all_parts(), the '
                   'small-note/preface/aligned/postface classification and the aligned begin/end offsets are compared with an independent '
                   '128-bit arithmetic specification. Beyond it, held on the seeded large values (up to 2^64-1) and seeded tables actually run. '
                   'Not a proof for all 64-bit values.',
        level_note='Trusts the harness specification (block index by division / linear table scan) and the gcc sanitizer runtimes. Ranges whose '
                   'offset+length+interval overflows 64 bits and ranges beginning inside the sentinel block of a key-point table are outside the checked domain.',
    )
