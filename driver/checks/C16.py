from reghelp import *

CHECK = dict(
        mode='inputs',
        runs=[dict(harness='h_fileadapt', flavor='asan', execs=dict(quick=16, thorough=32),
                   timeout=dict(quick=600, thorough=1800), shapes=[None],
                   cfg_quick=dict(sequences=500), cfg_thorough=dict(sequences=4000)),
              # volume without sanitizer overhead (behavioural oracles only)
              dict(harness='h_fileadapt', flavor='plain', execs=dict(quick=0, thorough=16),
                   timeout=dict(quick=600, thorough=1800), shapes=[None], cfg_thorough=dict(sequences=10000))],
        par=16,
        level='exploration',
        rule='one evaluation = one seeded operation sequence (20-120 positional reads/writes: pread, pwrite, preadv, pwritev, preadv2, pwritev2 and '
             'the *_mutable variants, all starting before end-of-file) against one adaptor configuration (aligned adaptor with alignment 8..64 KiB and '
             'align_memory on/off over a growable plain in-memory file; fixed-size linear file with power-of-two and other unit sizes; variable linear '
             'file; stripe file), compared operation by operation with a reference byte array. non-trivial = the sequence contains at least one '
             'designated rare operation: (aligned) a write patching a partial first AND a partial last block, or a write extending the file by a '
             'partial block; (composites) a request spanning >= 3 sub-files / stripe units or one clipped at the end of the composite. '
             'distinct = distinct hash of (configuration, every operation with offset, length and segmentation)',
        floors=dict(quick=dict(evaluations=6000, events=300000, distinct=5000,
                               cov={'aligned_rmw_first_and_last': 20000, 'aligned_extend_partial_block': 5000, 'span_ge3_subfiles': 50000,
                                    'clipped_at_end': 30000, 'vectored_crossing_boundary': 50000, 'aligned_passthrough_requests': 5000,
                                    'underlay_requests_memory_checked': 50000, 'reads_past_eof': 30000, 'final_state_checks': 6000,
                                    'seq_aligned': 1500, 'seq_linear_fixed': 1000, 'seq_linear_variable': 1000, 'seq_stripe': 1000}),
                    thorough=dict(evaluations=200000, events=12000000, distinct=150000,
                                  cov={'aligned_rmw_first_and_last': 500000, 'aligned_extend_partial_block': 120000, 'span_ge3_subfiles': 1200000,
                                       'clipped_at_end': 700000, 'vectored_crossing_boundary': 1200000, 'aligned_passthrough_requests': 120000,
                                       'underlay_requests_memory_checked': 1200000, 'reads_past_eof': 700000, 'final_state_checks': 200000,
                                       'seq_aligned': 50000, 'seq_linear_fixed': 35000, 'seq_linear_variable': 35000, 'seq_stripe': 35000})),
        assumptions=['the underlay never fails or returns short counts except at end-of-file (I/O errors are outside the statement)',
                     'sub-files of the composites are fixed-size, non-empty and pre-filled; the composition rule (concatenation / round-robin of stripe units) '
                     'defines the initial logical content',
                     '"request" of the alignment adaptor = read/write calls on the underlay (offset, total length, and every non-empty buffer address when '
                     'align_memory); ftruncate to the logical size is not a request in that sense',
                     'requests that start at or after end-of-file are never generated (outside the statement)'],
        technique='differential runtime monitoring: real adaptors over recording in-memory IFile underlays vs. a reference byte array, per-operation count/data '
                  'comparison, final size/content comparison (through the adaptor and directly on the underlays), alignment check of every underlay request, '
                  'exact-size heap buffers under ASan+UBSan; sequences run in a forked child so that a crashing input is reported and the rest still explored',
        level_text='Seeded exploration: tens of thousands (quick) to hundreds of thousands (thorough) of operation sequences over seeded adaptor configurations; '
                   'every returned count and byte, the final size and content, and every request the alignment adaptor issued to its underlay were checked. '
                   'Held means no difference on the sequences actually run (counts of the rare arithmetic cases are in the evidence); not a proof over all sequences.',
        level_note='Trusts the in-memory underlay and the reference model (a byte vector with plain-file semantics) in the harness, and gcc ASan/UBSan. '
                   'Intra-object overflows are invisible to ASan (e.g. 29-45 iovec segments copied into a 32-slot IOVector stay inside the object).',
    )
