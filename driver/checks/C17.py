from reghelp import *

_SH = [None, None, 'two', None]      # most executions unconfined (media I/O + 1-6 vCPUs); every 4th on two cores
_T = dict(quick=900, thorough=1800)  # generous: the machine is shared, verdicts never depend on time


def _run(flavor, q, t, harness='h_cache', shapes=_SH):
    return dict(harness=harness, flavor=flavor, execs=dict(quick=q, thorough=t), timeout=_T, shapes=shapes, cfg={})


CHECK = dict(
        runs=[_run('asan', 6, 36), _run('tsan', 4, 20), _run('plain', 12, 72),
              # targeted probes (h_cache.cpp built with a fixed section, so each has its own execution identity):
              _run('asan', 1, 2, 'h_cache_bigiov', [None]),       # preadv with 64 segments
              _run('plain', 2, 4, 'h_cache_trimpast', [None]),    # to-end trim at an aligned offset past EOF, then directory reuse
              _run('asan', 1, 2, 'h_cache_relrace', [None])],     # last release of a store vs. the store cache's expiry timer
        par=6,
        level='exploration',
        rule='one evaluation = one seeded execution (fresh process): the real new_full_file_cached_fs over a scratch localfs media '
             'directory and a mock source (bytes = prng(file, offset), seeded latency / failures / short reads), 2-3 pool instances on the '
             'same directory, 1-6 vCPUs x 2-6 reader threads, evictor and trimmer threads; non-trivial = at least two of the four rare '
             'paths were taken (a read served partly from cache and partly from the source; a range-lock wait; an eviction of a file '
             'with a read in flight; a read served from data left by a previous pool instance); distinct = distinct signature '
             '(vCPUs, refill unit, hole-tracking mode, capacity/floor, media wrapper, log2 buckets of the rare-path counters)',
        floors=dict(quick=dict(evaluations=18, events=15000, distinct=10,
                               cov={'read_partly_cached': 50, 'C_RANGELOCK_WAITED': 500, 'read_spanned_eviction': 100,
                                    'evict_open_file_read_in_flight': 50, 'read_served_from_reused_dir': 20,
                                    'read_failed_after_injected_fault': 20, 'range_trims': 20,
                                    'C_CACHE_FIEMAP_USED': 2, 'C_CACHE_RANGEMAP_USED': 2}),
                    thorough=dict(evaluations=100, events=250000, distinct=50,
                                  cov={'read_partly_cached': 1000, 'C_RANGELOCK_WAITED': 10000, 'read_spanned_eviction': 2000,
                                       'evict_open_file_read_in_flight': 1000, 'read_served_from_reused_dir': 500,
                                       'read_failed_after_injected_fault': 500, 'range_trims': 500,
                                       'C_CACHE_FIEMAP_USED': 20, 'C_CACHE_RANGEMAP_USED': 20})),
        assumptions=['the source does not change during a run; range trim is issued 4 KiB aligned and only while a harness-side per-file '
                     'in-flight-read counter is zero; unlink/ftruncate through the cached fs are not issued',
                     'media is ext4 (delayed allocation): forced-fiemap mode sees an extent only after the media wrapper fdatasync()ed it',
                     'TSan flavor: handles are opened and primed by one vCPU before the readers start (CachedFs::open and the '
                     'actual_size_ peek are unsynchronised same-value/monotonic stores, reported, not suppressed); ASan+UBSan flavor: '
                     'store TTL kept long (UBSan vptr check in intrusive_list::delete_all reads a deleted node)',
                     'eviction by the pool timer / by capacity cannot be attributed to a read without a hook (C_CACHE_EVICT_OPEN not placed yet); '
                     'the rare-path counter uses pool->evict(name) calls only'],
        technique='runtime monitoring: differential check of every cached pread/preadv/preadv2 (bytes, count, buffer bounds) against a '
                  'deterministic source content function, fault ledger per file for the count oracle, under ASan+UBSan, TSan and plain '
                  'builds; both hole-tracking modes forced through the T_CACHE_FIEMAP_MODE tunable; suspension-point delays in the media '
                  'and source mocks; OS-level stall points',
        level_text='Held on the seeded executions actually run: every cached read (seeded offsets/lengths/iovec splits of 1-27 segments, '
                   'refill units 4 KiB-1 MiB, file sizes page-aligned or not) is compared byte for byte and count for count with the '
                   'source, while other readers refill overlapping ranges, whole files are evicted on request / by capacity 0 / by a disk '
                   'floor, ranges are trimmed while no read is in flight, and the directory is reused by new pool instances (sync and '
                   'async scan). Not a proof over all schedules; known defects are listed in known_findings.json.',
        level_note='Trusts the mock source, the harness fault ledger (a fault is recorded before the faulty call returns) and the '
                   'sanitizer runtimes. Timer/capacity-driven eviction relative to reads is exercised but not attributed (no hook). '
                   'The TSan flavor does not open/close handles concurrently with reads.',
    )
