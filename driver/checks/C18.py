from reghelp import *

CHECK = dict(
        runs=runs3('h_rangelock', (16, 8, 16), (64, 32, 96), timeout=(240, 900)),
        par=8,
        level='exploration',
        rule='one evaluation = one seeded execution (fresh process): photon threads on 1-4 vCPUs lock / try_lock_wait / try_lock_wait2 / '
             'adjust_range / ScopedRangeLock over a small grid of range end points (nested, partially overlapping, adjacent, spanning the '
             'middle of the space, saturating at 2^64; every 4th execution also zero-length ranges and offset 2^64-1 plus three scripted '
             'degenerate-range scenarios); non-trivial = at least one locker waited on a conflicting range and at least one adjust_range '
             'was issued; distinct = distinct signature (section, vCPUs, threads, number of grid points, log2 buckets of waits, cross-vCPU '
             'wake-ups, refused/growing adjusts, saturating and zero-length acquisitions)',
        floors=dict(quick=dict(evaluations=30, events=50000, distinct=10,
                               cov={'C_RANGELOCK_WAITED': 20000, 'waited_then_acquired': 1000, 'adjust_refused': 500, 'adjust_grow_ok': 1000,
                                    'saturating_range_acquired': 1000, 'superset_unlock': 500, 'zero_length_acquired': 100, 'whole_space_locks': 20, 'adjacent_to_held_range_acquired': 40}),
                    thorough=dict(evaluations=160, events=1000000, distinct=60,
                                  cov={'C_RANGELOCK_WAITED': 1000000, 'waited_then_acquired': 50000, 'adjust_refused': 30000, 'adjust_grow_ok': 80000,
                                       'saturating_range_acquired': 60000, 'superset_unlock': 20000, 'zero_length_acquired': 20000, 'whole_space_locks': 150, 'adjacent_to_held_range_acquired': 300})),
        assumptions=['x86-TSO hardware; weaker orderings only through TSan', 'stall points exist only in the scheduler wake-up paths (no hook inside range-lock.h besides the coverage counter)',
                     'unlock(offset,length) is taken to release exactly the held ranges contained in [offset,offset+length), as the code filters with contains()'],
        technique='runtime monitoring: exact interval occupancy map (relaxed atomics per grid cell, marked after acquire / cleared before release, '
                  'adjust_range growth marked after success and shrink cleared before the call), plain payload per cell, stuck detector '
                  '(blocked locker with no recorded conflicting holder), whole-space lock at quiescence; ASan+UBSan, TSan and plain builds, '
                  'OS-level stall points in the wake-up paths, 16/2/1-core CPU shapes',
        level_text='Held on the seeded executions actually run: every acquisition of every thread is entered into an exact occupancy map over the '
                   'grid (so any two simultaneously held non-empty ranges that overlap are reported), a plain payload per cell is checked for '
                   'foreign writes, TSan/ASan watch the same runs (the condition variable lives in the erased set node), a supervisor proves '
                   'lost wake-ups from the map, and at quiescence the whole space is locked. Degenerate inputs (zero-length, offset 2^64-1) run '
                   'in their own executions/scenarios with their own violation keys. Not a proof over all schedules or all range sets.',
        level_note='Trusts the harness occupancy map (relaxed atomics, conservative marking), the gcc sanitizer runtimes and that OS-level stalls only '
                   'widen real windows. Ranges are restricted to a 131-point grid; three genuine defects with degenerate ranges are listed in known_findings.json.',
    )
