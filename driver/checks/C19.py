from reghelp import *

CHECK = dict(
        runs=runs3('h_objcache', (16, 8, 16), (64, 32, 96), timeout=(300, 900)),
        par=8,
        level='exploration',
        rule='one evaluation = one seeded execution (fresh process): photon threads on 1-4 vCPUs acquire/borrow and release (plain, recycling, '
             'move-out) 1-4 keys of one ObjectCache<int,Obj*> (5 of 8 executions), ObjectCache<int,intrusive_list<Obj>> (1 of 8) or ObjectCacheV2 '
             '(2 of 8: borrow only / borrow+recycle+update / long OS-level stalls between release() and the rc==0 re-check) with constructors that '
             'succeed, fail or sleep, lifespans of 1-20 ms (sometimes 3 s), cool-downs 0/2/20 ms, optional size limit; non-trivial = an object was '
             'destroyed, and (v1) an acquirer got an object that another thread held and a recycling release was issued; distinct = distinct '
             'signature (section, vCPUs, threads, keys, failure rate, cool-down, lifespan, log2 buckets of expiries / acquirers parked behind a '
             'recycler / failed constructions / recyclers that had to wait / acquires refused in the cool-down)',
        floors=dict(quick=dict(evaluations=30, events=50000, distinct=12,
                               cov={'C_OBJCACHE_EXPIRE': 40, 'C_OBJCACHE_RECYCLE_WAIT': 2000, 'C_OBJCACHE_CTOR_FAIL': 100, 'recycler_waited_for_holders': 1000,
                                    'acquired_while_held_by_other': 5000, 'moved_out_objects': 300, 'ctor_slept': 300, 'cooldown_probe_ok': 20,
                                    'destroyed': 2000}),
                    thorough=dict(evaluations=160, events=600000, distinct=60,
                                  cov={'C_OBJCACHE_EXPIRE': 500, 'C_OBJCACHE_RECYCLE_WAIT': 50000, 'C_OBJCACHE_CTOR_FAIL': 8000, 'recycler_waited_for_holders': 25000,
                                       'acquired_while_held_by_other': 100000, 'moved_out_objects': 8000, 'ctor_slept': 8000, 'cooldown_probe_ok': 200,
                                       'destroyed': 50000})),
        assumptions=['x86-TSO hardware; weaker orderings only through TSan',
                     'photon::now is at most 1 s behind CLOCK_BOOTTIME when the library evaluates a cool-down or a lifespan (slack of the two time oracles)',
                     'stall points exist at P_OBJCACHE_RELEASE / P_OBJCACHEV2_RELEASE and in the scheduler, mutex and semaphore wake-up paths only'],
        technique='runtime monitoring: constructor/destructor log per key and per object id (side table of relaxed atomics: harness-side reference '
                  'count, live flag, recycler bookkeeping), sharing word per key, cool-down and lifespan "not earlier than" oracles, stuck detector; '
                  'ASan+UBSan (objects are exact-size heap objects whose bytes are read while held), TSan, plain; OS-level stall points, CPU shapes; plus a scripted cool-down probe (one failing construction, an attempt every 10 ms; refusals must not renew the cool-down)',
        level_text='Held on the seeded executions actually run: every constructor entry is checked for a second running constructor of the key, every '
                   'successful acquire for a second live object of the key, every destructor and every move-out for a non-zero harness-side '
                   'reference count, every recycling release for holders left at its return, every refusal for an expired cool-down, expiry for '
                   'the lifespan (long-lifespan configurations), and the sanitizers watch the borrowed bytes and the library. Not a proof over all schedules.',
        level_note='Trusts the harness ledgers (relaxed atomics, conservative marking), the gcc sanitizer runtimes and that OS-level stalls only widen '
                   'real windows. ObjectCacheV2 reclaims once per second, so its expiry paths are entered a few times per execution only.',
    )
