from reghelp import *

_NQ, _NT = 16, 32        # executions per tier; the bounded enumeration is split by (index mod nexec)

CHECK = dict(
        mode='inputs',
        runs=[dict(harness='h_subfs', flavor='asan', execs=dict(quick=_NQ, thorough=_NT),
                   timeout=dict(quick=300, thorough=900), shapes=[None],
                   cfg_quick=dict(nexec=_NQ, maxlen=10, seeded=6000, near_limit=600),
                   cfg_thorough=dict(nexec=_NT, maxlen=12, seeded=60000, near_limit=4000))],
        par=16,
        level='exploration',
        rule='one evaluation = one (path string, operation class) pair given to a real new_subfs() over a recording underlay; operation '
             'classes: one-path (all 30 one-path operations incl. the 8 xattr ones are called with the string), two-path/first operand and '
             'two-path/second operand (link and rename, each with a legal and an illegal other operand); for 5 base directories '
             '("/base" gets the full enumeration, "/base/sub/", "rel/dir", "/" and the base-less mode a shorter one). '
             'non-trivial = the path has at least one ".." component or its forwarded length is within 64 bytes of PATH_MAX; '
             'distinct = distinct (base, path, operation class). exhaustive = every string over {/ . a b} up to the tier\'s length bound '
             '(quick 10, thorough 12) was evaluated for base "/base" in every operation',
        floors=dict(quick=dict(evaluations=4000000, events=50000000, distinct=300000,
                               cov={'converse_checked_calls': 30000000, 'rejected': 1500000, 'two_path_calls': 10000000,
                                    'near_limit_strings': 5000, 'seeded_strings': 50000, 'exhaustive_strings': 1398101}),
                    thorough=dict(evaluations=60000000, events=800000000, distinct=5000000,
                                  cov={'converse_checked_calls': 500000000, 'rejected': 25000000, 'two_path_calls': 150000000,
                                       'near_limit_strings': 100000, 'seeded_strings': 1500000, 'exhaustive_strings': 22369621})),
        assumptions=['"inside the base" is judged lexically (components, ".", "..", empty) on the exact string the underlay receives; symlink '
                     'resolution by a real filesystem is outside the statement',
                     'the converse half is applied to inputs whose every component-prefix has depth >= 0 and whose forwarded length is <= 3900 bytes '
                     '(safely below any reading of "the length limit"); for two-path operations only when both operands are legal',
                     'symlink()\'s oldname is link content, forwarded verbatim by design, and is not judged'],
        technique='runtime monitoring of a real SubFileSystem over a recording IFileSystem/IFileSystemXAttr underlay: every forwarded string is '
                  'resolved lexically against the base (confinement oracle) and compared with base + input for legal inputs (converse oracle); '
                  'bounded-exhaustive enumeration of the 4-letter alphabet plus seeded long / near-PATH_MAX paths, under ASan+UBSan',
        level_text='Bounded-exhaustive plus seeded exploration: every string over the alphabet {"/", ".", "a", "b"} up to length 10 (quick) / 12 '
                   '(thorough) and tens of thousands of seeded longer paths (dot-names, repeated/trailing slashes, up to and beyond PATH_MAX) were '
                   'given to each of the 32 path-taking operations of a real sub-filesystem; the exact strings reaching the underlay were checked '
                   'for lexical confinement to the base, and legal inputs for being forwarded as base + input. Not a proof for longer strings or other alphabets.',
        level_note='Trusts the harness\'s lexical resolver and legality predicate (about 60 lines), and that the recording underlay sees what a real '
                   'filesystem would see. Failure classes are minimised normal forms (e.g. "name/.."), so distinct classes of one defect may appear under several keys.',
    )
