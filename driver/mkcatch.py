#!/usr/bin/env python3
"""Print the markdown table of seeded changes (DESIGN.md section 9.1) from /verif/seeded/*/meta.json."""
import json, glob, os, textwrap
rows = []
for d in sorted(glob.glob(os.path.join(os.path.dirname(os.path.dirname(os.path.abspath(__file__))), 'seeded', '*'))):
    mp = os.path.join(d, 'meta.json')
    if not os.path.exists(mp):
        continue
    m = json.load(open(mp))
    c = m.get('confirmed_by_coordinator', {})
    keys = c.get('vcheck_quick_violation_keys', [])
    summ = ' '.join(str(m.get('summary', '')).split())
    if len(summ) > 330:
        summ = summ[:327] + '...'
    needs = ' '.join(str(m.get('needs', '')).split())
    if len(needs) > 220:
        needs = needs[:217] + '...'
    shown = ', '.join('`%s`' % k for k in keys[:4]) + (' (+%d more)' % (len(keys) - 4) if len(keys) > 4 else '')
    rows.append('| %s | %s | %s | %s | %s |' % (os.path.basename(d), summ.replace('|', '/'), needs.replace('|', '/'),
                                               'yes' if c.get('caught_by_check') else '**no**', shown or '-'))
print('| seeded/<id> | change | needs | caught by quick tier | keys that fired |')
print('|---|---|---|---|---|')
print('\n'.join(rows))
