#!/usr/bin/env python3
"""Regenerate /verif/MANIFEST.json from driver/registry.py (single source of truth)."""
import json, os, sys
sys.path.insert(0, os.path.dirname(os.path.abspath(__file__)))
from registry import CHECKS, PENDING_REASON, HOOK_COMMITS
VERIF = os.path.dirname(os.path.dirname(os.path.abspath(__file__)))
props = [json.loads(l)['id'] for l in open(os.path.join(VERIF, 'properties.jsonl'))]
checks = []
for pid in props:
    if pid not in CHECKS:
        continue
    c = CHECKS[pid]
    checks.append(dict(
        property_id=pid,
        quick_cmd='./vcheck %s --tier quick' % pid,
        thorough_cmd='./vcheck %s --tier thorough' % pid,
        evidence_file='/verif/evidence/%s.json' % pid,
        replay_cmd_template='./vcheck %s --replay {path}' % pid,
        engine='vcheck',
        level_claimed=dict(category=c.get('level', 'exploration'), text=c['level_text'], design_ref='DESIGN.md section 3, ' + pid),
        level_note=c['level_note'],
        technique=c['technique'],
    ))
m = dict(
    version=1,
    setup_cmd='./vcheck setup',
    hooks=dict(
        guard='PHOTON_VERIF',
        enable='vcheck configures /repo with cmake -DCMAKE_BUILD_TYPE=Verif -DCMAKE_CXX_FLAGS="<flavor flags> -DPHOTON_VERIF=1" into '
               '/verif/build/<asan|tsan|plain>/lib and compiles each harness with the same define',
        baseline_off_cmd='cmake --build /repo/_build -j16 && ctest --test-dir /repo/_build -j8 --timeout 900',
        source_commits=HOOK_COMMITS,
        add_only=True,
    ),
    engines=[dict(name='vcheck', path='/verif/vcheck', serves_properties=[c['property_id'] for c in checks],
                  kind_free_text='python driver: rebuilds libphoton.so (asan+ubsan / tsan / plain flavors, hooks on) and the C++ '
                                 'monitor harnesses from /repo, runs seeded executions in fresh processes under CPU shapes and '
                                 'stall plans, collects monitor verdicts and sanitizer reports, applies known_findings.json, writes evidence')],
    checks=checks,
    notes='Runtime monitoring and sanitizers only. Exit 0 held / 1 violation (VIOLATION line) / 2 machinery failure. '
          'Known findings: /verif/known_findings.json. See DESIGN.md.',
    not_applicable=[dict(property_id=p, reason=PENDING_REASON.get(p, 'check not built yet; see DESIGN.md section 3 for the planned runtime monitor'))
                    for p in props if p not in CHECKS],
)
json.dump(m, open(os.path.join(VERIF, 'MANIFEST.json'), 'w'), indent=1)
print('MANIFEST.json: %d checks, %d not claimed' % (len(checks), len(m['not_applicable'])))
