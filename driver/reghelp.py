"""Helpers for check definitions in driver/checks/<ID>.py"""

HOOK_COMMITS = ['c05899a', 'd288bca', 'c624ca2', '20fdf65', '30670be', '93b1c4a', '2d0afb5', 'f3cd214', '860d593', 'ed6f310', 'd7e892a', '8010ec2', '7c8fbb5']
PENDING_REASON = {}

ALL3 = [None, 'two', 'one', None]     # CPU shapes cycled over executions


def runs3(harness, quick, thorough, timeout=(240, 900), shapes=ALL3, cfg=None):
    """the same harness in the asan, tsan and plain flavors"""
    out = []
    for fl, q, t in (('asan', quick[0], thorough[0]), ('tsan', quick[1], thorough[1]), ('plain', quick[2], thorough[2])):
        out.append(dict(harness=harness, flavor=fl, execs=dict(quick=q, thorough=t),
                        timeout=dict(quick=timeout[0], thorough=timeout[1]), shapes=shapes, cfg=cfg or {}))
    return out


