"""Registry of checks: which harness executions decide which property (DESIGN.md section 3).
Each property has one file driver/checks/<ID>.py defining CHECK = dict(...)."""
import os, glob, importlib.util
from reghelp import HOOK_COMMITS, PENDING_REASON

CHECKS = {}
for _p in sorted(glob.glob(os.path.join(os.path.dirname(os.path.abspath(__file__)), 'checks', 'C*.py'))):
    _id = os.path.basename(_p)[:-3]
    _spec = importlib.util.spec_from_file_location('check_' + _id, _p)
    _m = importlib.util.module_from_spec(_spec)
    _spec.loader.exec_module(_m)
    CHECKS[_id] = _m.CHECK
