"""Driver of the runtime-monitoring checks (DESIGN.md section 2.5)."""
import os, sys, json, time, subprocess, shlex, hashlib, fcntl, re, argparse, shutil, signal
from concurrent.futures import ThreadPoolExecutor

VERIF = os.path.dirname(os.path.dirname(os.path.abspath(__file__)))
REPO = os.environ.get('VERIF_REPO', '/repo')
BUILD = os.environ.get('VERIF_BUILD', os.path.join(VERIF, 'build'))
# runs against a scratch copy of the repository (mutation trials) keep their evidence out of /verif/evidence
EVIDENCE = os.path.join(VERIF, 'evidence') if REPO == '/repo' else os.path.join(BUILD, 'evidence')
REPLAY = os.path.join(VERIF, 'replay') if REPO == '/repo' else os.path.join(BUILD, 'replay')
NCPU = os.cpu_count() or 16

GUARD = '-DPHOTON_VERIF=1'
FLAVORS = {
    'asan': '-O2 -g -DNDEBUG -fno-omit-frame-pointer -fsanitize=address,undefined '
            '-fno-sanitize=alignment,vptr -fno-sanitize-recover=all',
    'tsan': '-O2 -g -DNDEBUG -fno-omit-frame-pointer -fsanitize=thread -Wno-tsan',
    'plain': '-O2 -g -DNDEBUG -fno-omit-frame-pointer',
}
SAN_ENV = {
    'ASAN_OPTIONS': 'abort_on_error=0:exitcode=99:detect_leaks=0:detect_stack_use_after_return=0:'
                    'allocator_may_return_null=1:handle_segv=1:print_summary=1',
    'UBSAN_OPTIONS': 'print_stacktrace=1:halt_on_error=1:exitcode=98',
    'TSAN_OPTIONS': 'halt_on_error=1:exitcode=97:second_deadlock_stack=1:history_size=4:'
                    'suppressions=' + os.path.join(VERIF, 'tsan.supp'),
}


def log(*a):
    print(*a, file=sys.stderr, flush=True)


class Lock:
    def __init__(self, path):
        os.makedirs(os.path.dirname(path), exist_ok=True)
        self.f = open(path, 'w')

    def __enter__(self):
        fcntl.flock(self.f, fcntl.LOCK_EX)

    def __exit__(self, *a):
        fcntl.flock(self.f, fcntl.LOCK_UN)
        self.f.close()


def run(cmd, **kw):
    return subprocess.run(cmd, stdout=subprocess.PIPE, stderr=subprocess.STDOUT, text=True, **kw)


# ----------------------------------------------------------------------------- builds

def build_lib(flavor):
    """(Re)build libphoton.so of this flavor from /repo's current working tree."""
    bdir = os.path.join(BUILD, flavor, 'lib')
    flags = FLAVORS[flavor] + ' ' + GUARD
    with Lock(os.path.join(BUILD, flavor, '.lock')):
        t0 = time.time()
        r = run(['cmake', '-G', 'Ninja', '-S', REPO, '-B', bdir, '-DCMAKE_BUILD_TYPE=Verif',
                 '-DPHOTON_BUILD_TESTING=OFF', '-DCMAKE_CXX_FLAGS=' + flags, '-DCMAKE_C_FLAGS=' + flags,
                 # C++17: under UBSan gcc odr-uses the header's static constexpr members, which C++14 leaves undefined
                 '-DPHOTON_CXX_STANDARD=17'])
        if r.returncode:
            log(r.stdout[-4000:])
            raise SystemExit(2)
        r = run(['cmake', '--build', bdir, '--target', 'photon_shared', '-j', str(NCPU)])
        if r.returncode:
            log(r.stdout[-6000:])
            log('vcheck: library build failed (flavor %s)' % flavor)
            raise SystemExit(2)
        log('vcheck: lib[%s] up to date (%.1fs)' % (flavor, time.time() - t0))
    return os.path.join(bdir, 'output')


def _deps_stale(target, depfile, stampfile, cmdhash):
    if not (os.path.exists(target) and os.path.exists(depfile) and os.path.exists(stampfile)):
        return True
    if open(stampfile).read() != cmdhash:
        return True
    tm = os.path.getmtime(target)
    txt = open(depfile).read().replace('\\\n', ' ')
    deps = txt.split(':', 1)[1].split() if ':' in txt else []
    for d in deps:
        try:
            if os.path.getmtime(d) > tm:
                return True
        except OSError:
            return True
    return False


def build_harness(name, flavor, libdir):
    src = os.path.join(VERIF, 'harness', name + '.cpp')
    odir = os.path.join(BUILD, flavor, 'h')
    os.makedirs(odir, exist_ok=True)
    out = os.path.join(odir, name)
    dep = out + '.d'
    stamp = out + '.cmd'
    extra = []
    first = open(src).readline()
    if first.startswith('// LDFLAGS:'):
        extra = shlex.split(first[len('// LDFLAGS:'):])
    cmd = (['g++', '-std=c++17'] + shlex.split(FLAVORS[flavor]) + [GUARD, '-DVH_FLAVOR="%s"' % flavor,
           '-Wall', '-Wno-unused-variable', '-Wno-unused-function', '-Wno-packed-bitfield-compat',
           '-msse4.2', '-mcx16',
           '-I', os.path.join(REPO, 'include'), '-I', os.path.join(VERIF, 'harness'), '-I', REPO,
           '-MD', '-MF', dep, src, '-o', out, '-L', libdir, '-lphoton',
           '-Wl,-rpath,' + libdir, '-lpthread', '-ldl', '-rdynamic'] + extra)
    h = hashlib.sha1(' '.join(cmd).encode()).hexdigest()
    with Lock(out + '.lock'):
        # the library is an implicit dependency as well
        lib = os.path.join(libdir, 'libphoton.so')
        stale = _deps_stale(out, dep, stamp, h)
        if not stale and os.path.getmtime(lib) > os.path.getmtime(out):
            stale = True
        if stale:
            t0 = time.time()
            r = run(cmd)
            if r.returncode:
                log(r.stdout[-8000:])
                log('vcheck: harness build failed: %s [%s]' % (name, flavor))
                raise SystemExit(2)
            open(stamp, 'w').write(h)
            log('vcheck: harness %s[%s] built (%.1fs)' % (name, flavor, time.time() - t0))
    return out


def build_tools():
    out = os.path.join(BUILD, 'vmerge')
    src = os.path.join(VERIF, 'driver', 'vmerge.cpp')
    with Lock(out + '.lock'):
        if not os.path.exists(out) or os.path.getmtime(src) > os.path.getmtime(out):
            r = run(['g++', '-O2', '-std=c++17', src, '-o', out])
            if r.returncode:
                log(r.stdout)
                raise SystemExit(2)
    return out


# ----------------------------------------------------------------------------- sanitizer reports

FRAME_RE = re.compile(r'#\d+ 0x[0-9a-f]+ in (.+?) (/[^\s:]+)(?::\d+)?(?::\d+)?')
# TSan prints frames as "#0 func /path:line (binary+0x..)"
TSAN_FRAME_RE = re.compile(r'#\d+ (.+?) (/[^\s:]+)(?::\d+)* \(')


def _frames(text, limit=3, tsan=False):
    out = []
    for m in (TSAN_FRAME_RE if tsan else FRAME_RE).finditer(text):
        func, path = m.group(1), m.group(2)
        func = re.sub(r'\(.*', '', func)
        func = re.sub(r'<.*>', '<>', func)
        if path.startswith(REPO + '/') and '/_build/' not in path:
            out.append(func)
            if len(out) >= limit:
                break
    return out


def parse_sanitizer(stderr_text):
    """return list of (key, what) for sanitizer reports in stderr"""
    res = []
    m = re.search(r'ERROR: AddressSanitizer: ([\w-]+)', stderr_text)
    if m:
        seg = stderr_text[m.start():m.start() + 6000]
        res.append(('asan:%s:%s' % (m.group(1), '/'.join(_frames(seg, 2))), seg[:3000]))
    for m in re.finditer(r'WARNING: ThreadSanitizer: ([^\(\n]+)', stderr_text):
        seg = stderr_text[m.start():m.start() + 8000]
        kind = m.group(1).strip().replace(' ', '-')
        res.append(('tsan:%s:%s' % (kind, '/'.join(_frames(seg, 2, tsan=True))), seg[:4000]))
        break
    m = re.search(r'([^\s:]+):\d+:\d+: runtime error: ([^\n]+)', stderr_text)
    if m:
        msg = re.sub(r'0x[0-9a-f]+', 'ADDR', m.group(2))
        msg = re.sub(r'\d+', 'N', msg)[:80]
        res.append(('ubsan:%s:%s' % (os.path.basename(m.group(1)), msg), stderr_text[m.start():m.start() + 3000]))
    return res


# ----------------------------------------------------------------------------- executions

class Exec:
    """one execution = one fresh process of a harness"""

    def __init__(self, prop, harness, flavor, seed, index, tier, cfg, timeout, shape=None, run=0):
        self.run = run           # index of the `runs` entry (two entries may use the same harness and flavor)
        self.prop, self.harness, self.flavor = prop, harness, flavor
        self.seed, self.index, self.tier, self.cfg = seed, index, tier, dict(cfg or {})
        self.timeout, self.shape = timeout, shape
        self.result = None       # parsed JSON summary of the harness
        self.status = None       # 'ok' | 'violation' | 'inconclusive' | 'error'
        self.violations = []     # list of dict(key, what, witness)
        self.stderr_tail = ''
        self.wall = 0.0

    def ident(self):
        return '%s-%s%s-s%d-e%d' % (self.harness, self.flavor, ('-r%d' % self.run) if self.run else '', self.seed, self.index)

    def describe(self):
        return dict(property=self.prop, harness=self.harness, flavor=self.flavor, seed=self.seed,
                    exec=self.index, tier=self.tier, cfg=self.cfg, shape=self.shape)


def cpu_shape(shape, slot):
    """CPU set for an execution: None/'all', 'two', 'one'"""
    if shape == 'two':
        a = (2 * slot) % NCPU
        return {a, (a + 1) % NCPU}
    if shape == 'one':
        return {slot % NCPU}
    return None


def run_exec(e, binary, scratch, slot=0):
    os.makedirs(scratch, exist_ok=True)
    outp = os.path.join(scratch, e.ident() + '.json')
    errp = os.path.join(scratch, e.ident() + '.err')
    hashp = os.path.join(scratch, e.ident() + '.hashes')
    for p in (outp, errp, hashp):
        if os.path.exists(p):
            os.unlink(p)
    cmd = [binary, '--seed', str(e.seed), '--exec', str(e.index), '--tier', e.tier, '--out', outp,
           '--hashes', hashp, '--scratch', os.path.join(scratch, e.ident() + '.d')]
    for k, v in e.cfg.items():
        cmd += ['--cfg', '%s=%s' % (k, v)]
    if e.shape:
        cmd += ['--cfg', 'shape=%s' % e.shape]
    env = dict(os.environ)
    env.update(SAN_ENV)
    cpus = cpu_shape(e.shape, slot)

    def pre():
        os.setsid()
        if cpus:
            try:
                os.sched_setaffinity(0, cpus)
            except OSError:
                pass
    t0 = time.time()
    with open(errp, 'wb') as errf:
        p = subprocess.Popen(cmd, stdout=errf, stderr=errf, env=env, preexec_fn=pre, cwd=scratch)
        try:
            rc = p.wait(timeout=e.timeout)
            timed_out = False
        except subprocess.TimeoutExpired:
            timed_out = True
            try:
                os.killpg(p.pid, signal.SIGKILL)
            except OSError:
                pass
            rc = p.wait()
    e.wall = time.time() - t0
    try:
        with open(errp, 'rb') as f:
            data = f.read()
        err = data[-200000:].decode('utf-8', 'replace')
    except OSError:
        err = ''
    e.stderr_tail = err[-6000:]
    res = None
    if os.path.exists(outp):
        try:
            res = json.load(open(outp))
        except Exception as ex:
            res = None
            e.stderr_tail += '\n[driver] bad summary json: %s' % ex
    e.result = res
    e.hashfile = hashp if os.path.exists(hashp) else None
    san = parse_sanitizer(err)
    if res:
        for v in res.get('violations', []):
            e.violations.append(dict(key=v.get('key', '?'), what=v.get('what', ''), witness=v.get('witness')))
    for key, what in san:
        e.violations.append(dict(key=key, what='sanitizer report', witness=what))
    if e.violations:
        e.status = 'violation'
    elif timed_out:
        e.status = 'inconclusive'
        e.note = 'driver watchdog (%ds) fired' % e.timeout
    elif res is None:
        if rc < 0 or rc in (134, 139, 99, 98, 97):
            sig = -rc if rc < 0 else rc
            fr = '/'.join(_frames(err, 2))
            if 'ThreadSanitizer: CHECK failed: tsan_rtl_proc.cpp' in err and 'proc1' in err:
                # TSan's own invariant "a fiber is attached to at most one OS thread": the annotated context switch of
                # one vCPU switched to a photon thread that another vCPU had not switched away from yet
                e.violations.append(dict(key='tsan:fiber-resumed-while-another-vcpu-still-runs-it',
                                         what='a photon thread was switched to while another vCPU was still executing it '
                                              '(TSan runtime check on the annotated fibers)', witness=err[-3000:]))
            else:
                e.violations.append(dict(key='crash:%s:rc%s:%s' % (e.harness, sig, fr), what='process died without a summary',
                                         witness=err[-3000:]))
            e.status = 'violation'
        else:
            e.status = 'error'
            e.note = 'no summary, rc=%s' % rc
    else:
        st = res.get('status', 'ok')
        if st == 'ok' and rc == 0:
            e.status = 'ok'
        elif st == 'inconclusive':
            e.status = 'inconclusive'
            e.note = res.get('note', '')
        elif st == 'hang':
            e.status = 'hang'
            e.note = res.get('note', '')
        else:
            e.status = 'error'
            e.note = 'status=%s rc=%s' % (st, rc)
    return e


# ----------------------------------------------------------------------------- known findings

def load_known():
    p = os.path.join(VERIF, 'known_findings.json')
    if not os.path.exists(p):
        return []
    return json.load(open(p))


def match_known(known, prop, key):
    for k in known:
        if k.get('property') == prop and k.get('status') == 'known' and k.get('key') == key:
            return k
    return None


# ----------------------------------------------------------------------------- a check

def plan_execs(prop, spec, tier, seed):
    execs = []
    seen = {}
    only = [f for f in os.environ.get('VERIF_FLAVORS', '').split(',') if f]      # mutation trials may skip flavors
    for r in spec['runs']:
        if only and r['flavor'] not in only:
            continue
        n = r['execs'][tier]
        runidx = seen.get((r['harness'], r['flavor']), 0)
        seen[(r['harness'], r['flavor'])] = runidx + 1
        if n <= 0:
            continue
        shapes = r.get('shapes', [None])
        for i in range(n):
            cfg = dict(r.get('cfg', {}))
            cfg.update(r.get('cfg_' + tier, {}))
            execs.append(Exec(prop, r['harness'], r['flavor'], seed, i, tier, cfg,
                              r.get('timeout', {}).get(tier, 300) if isinstance(r.get('timeout'), dict)
                              else r.get('timeout', 300), shapes[i % len(shapes)], run=runidx))
    return execs


def write_replay(prop, e, v):
    d = os.path.join(REPLAY, prop)
    os.makedirs(d, exist_ok=True)
    keyslug = re.sub(r'[^A-Za-z0-9_.-]+', '_', v['key'])[:80]
    p = os.path.join(d, '%s-%s-s%d-e%d.json' % (keyslug, e.flavor, e.seed, e.index))
    rec = e.describe()
    rec.update(key=v['key'], what=v['what'], witness=v['witness'], stderr_tail=e.stderr_tail[-3000:])
    json.dump(rec, open(p, 'w'), indent=1)
    return p


def merge_hashes(files):
    files = [f for f in files if f]
    if not files:
        return 0
    tool = build_tools()
    r = subprocess.run([tool] + files, stdout=subprocess.PIPE, text=True)
    try:
        return int(r.stdout.strip())
    except ValueError:
        return 0


def run_check(prop, tier, seed, registry, replay=None, jobs=None):
    from registry import CHECKS
    spec = CHECKS[prop]
    t0 = time.time()
    scratch = os.path.join(VERIF if REPO == '/repo' else BUILD, 'scratch', '%s-%d' % (prop, os.getpid()))
    os.makedirs(scratch, exist_ok=True)
    known = load_known()
    try:
        if replay:
            rec = json.load(open(replay))
            execs = [Exec(prop, rec['harness'], rec['flavor'], rec['seed'], rec['exec'], rec['tier'], rec.get('cfg'),
                          600, rec.get('shape'))]
            print('replaying %s: recorded key=%s what=%s' % (replay, rec.get('key'), rec.get('what')))
            if rec.get('witness') is not None:
                print('recorded witness: %s' % json.dumps(rec.get('witness'))[:4000])
        else:
            execs = plan_execs(prop, spec, tier, seed)
        # builds
        bins = {}
        for fl in sorted({e.flavor for e in execs}):
            libdir = build_lib(fl)
            for h in sorted({e.harness for e in execs if e.flavor == fl}):
                bins[(h, fl)] = build_harness(h, fl, libdir)
        par = jobs or spec.get('par', 8)
        slots = list(range(par))

        def go(ie):
            i, e = ie
            return run_exec(e, bins[(e.harness, e.flavor)], scratch, slot=i % par)
        with ThreadPoolExecutor(max_workers=par) as ex:
            done = list(ex.map(go, enumerate(execs)))
        # re-run inconclusive / hang executions once, alone
        for e in done:
            if e.status in ('inconclusive', 'hang', 'error'):
                first = (e.status, getattr(e, 'note', ''))
                log('vcheck: %s %s (%s); re-running once alone' % (e.ident(), e.status, first[1]))
                e2 = Exec(e.prop, e.harness, e.flavor, e.seed, e.index, e.tier, e.cfg, e.timeout * 2, None)
                run_exec(e2, bins[(e.harness, e.flavor)], scratch + '/rerun')
                if e2.status == 'hang' and first[0] == 'hang':
                    # the same execution made no progress twice: report it
                    e2.violations.append(dict(key='hang:%s:%s' % (e.harness, (e2.result or {}).get('hang_key', '?')),
                                              what='no progress twice in a row: ' + str(getattr(e2, 'note', '')),
                                              witness=(e2.result or {}).get('hang_witness')))
                    e2.status = 'violation'
                elif e2.status == 'hang':
                    e2.status = 'inconclusive'
                e.status, e.result, e.violations, e.stderr_tail = e2.status, e2.result, e2.violations, e2.stderr_tail
                e.note = 'rerun: %s; first: %s %s' % (getattr(e2, 'note', ''), first[0], first[1])
                e.hashfile = getattr(e2, 'hashfile', None)
                e.wall += e2.wall
        if os.environ.get('VERIF_VERBOSE'):
            for e in done:
                log('  %-28s %-12s %6.1fs shape=%s %s' % (e.ident(), e.status, e.wall, e.shape,
                    json.dumps((e.result or {}).get('config', {}))[:200]))
        return conclude(prop, spec, tier, seed, done, known, t0, replay)
    finally:
        shutil.rmtree(scratch, ignore_errors=True)


def conclude(prop, spec, tier, seed, done, known, t0, replay):
    n_ok = sum(1 for e in done if e.status == 'ok')
    n_viol = sum(1 for e in done if e.status == 'violation')
    n_inc = sum(1 for e in done if e.status == 'inconclusive')
    n_err = sum(1 for e in done if e.status == 'error')
    new_viol, known_hits = [], {}
    for e in done:
        seen = set()
        for v in e.violations:
            if v['key'] in seen:
                continue
            seen.add(v['key'])
            k = match_known(known, prop, v['key'])
            if k:
                known_hits.setdefault(v['key'], [k, 0])[1] += 1
            else:
                new_viol.append((e, v))
    # aggregate evidence
    events, cov, counters = 0, {}, {}
    sigs, samples, nontrivial_execs = set(), [], 0
    input_evals, hashfiles = 0, []
    exhaustive = None
    for e in done:
        r = e.result or {}
        if e.status not in ('ok', 'violation'):
            continue
        events += int(r.get('events', 0))
        for k, v in (r.get('cov') or {}).items():
            cov[k] = cov.get(k, 0) + v
        for k, v in (r.get('counters') or {}).items():
            if isinstance(v, (int, float)):
                counters[k] = counters.get(k, 0) + v
        if r.get('nontrivial'):
            nontrivial_execs += 1
            if r.get('sig'):
                sigs.add(e.harness + '|' + r['sig'])
        input_evals += int(r.get('inputs', 0))
        if getattr(e, 'hashfile', None):
            hashfiles.append(e.hashfile)
        for s in (r.get('samples') or [])[:2]:
            if len(samples) < 8:
                samples.append(dict(harness=e.harness, flavor=e.flavor, exec=e.index, case=s))
        if 'exhaustive' in r:
            exhaustive = bool(r['exhaustive']) if exhaustive is None else (exhaustive and bool(r['exhaustive']))
    input_mode = spec.get('mode') == 'inputs'
    if input_mode:
        evaluations = input_evals
        distinct = merge_hashes(hashfiles)
    else:
        evaluations = n_ok + n_viol
        distinct = len(sigs)
    wall = time.time() - t0
    status_lines = []
    # verdict
    rc = 0
    for key, (k, cnt) in sorted(known_hits.items()):
        print('KNOWN-FINDING: property=%s %s [key=%s, seen in %d executions]' % (prop, k.get('what', ''), key, cnt))
    reported = set()
    for e, v in new_viol:
        path = write_replay(prop, e, v)
        if v['key'] not in reported:
            reported.add(v['key'])
            print('VIOLATION property=%s replay=%s' % (prop, path))
            print('  key=%s what=%s (%s)' % (v['key'], v['what'], e.ident()))
        rc = 1
    floors = spec.get('floors', {}).get(tier, {})
    problems = []
    if not replay:
        total = len(done)
        if n_err:
            problems.append('%d executions failed in the harness machinery' % n_err)
            for e in done:
                if e.status == 'error':
                    log('--- %s: %s\n%s' % (e.ident(), getattr(e, 'note', ''), e.stderr_tail[-1500:]))
        if n_inc > max(1, total // 5):
            problems.append('%d of %d executions inconclusive' % (n_inc, total))
        if evaluations < floors.get('evaluations', 1):
            problems.append('only %d conclusive evaluations (floor %d)' % (evaluations, floors.get('evaluations', 1)))
        if events < floors.get('events', 1):
            problems.append('only %d relevant events observed (floor %d)' % (events, floors.get('events', 1)))
        if distinct < floors.get('distinct', 2):
            problems.append('only %d distinct non-trivial cases (floor %d)' % (distinct, floors.get('distinct', 2)))
        for cid, fl in (floors.get('cov') or {}).items():
            if cov.get(cid, 0) + counters.get(cid, 0) < fl:
                problems.append('rare path %s seen %d times (floor %d)' % (cid, cov.get(cid, 0) + counters.get(cid, 0), fl))
    if rc == 0 and problems:
        rc = 2
    ev = dict(
        property_id=prop, tier=tier, seed=seed, level=spec.get('level', 'exploration'),
        coverage=dict(
            evaluations=int(evaluations), distinct_nontrivial=int(distinct), rule=spec.get('rule', ''),
            samples=samples or [dict(note='no sample recorded')],
            executions=dict(total=len(done), held=n_ok, violated=n_viol, inconclusive=n_inc, machinery_error=n_err,
                            nontrivial=nontrivial_execs),
            events_observed=int(events), rare_paths=cov, counters=counters,
            flavors=sorted({e.flavor for e in done}), harnesses=sorted({e.harness for e in done}),
            cpu_shapes=sorted({str(e.shape) for e in done}),
            known_findings_seen=sorted(known_hits.keys()),
            problems=problems,
        ),
        assumptions=spec.get('assumptions', []),
        wall_s=round(wall, 2),
        violations=len({v['key'] for _, v in new_viol}),
    )
    if exhaustive is not None:
        ev['coverage']['exhaustive'] = bool(exhaustive)
    if not replay:
        os.makedirs(EVIDENCE, exist_ok=True)
        json.dump(ev, open(os.path.join(EVIDENCE, prop + '.json'), 'w'), indent=1)
    print('%s tier=%s seed=%d: executions=%d held=%d violated=%d inconclusive=%d error=%d | evaluations=%d '
          'distinct_nontrivial=%d events=%d | %.1fs'
          % (prop, tier, seed, len(done), n_ok, n_viol, n_inc, n_err, evaluations, distinct, events, wall))
    for p in problems:
        print('MACHINERY: ' + p)
    return rc


def setup():
    from registry import CHECKS
    need = {}
    for prop, spec in CHECKS.items():
        for r in spec['runs']:
            need.setdefault(r['flavor'], set()).add(r['harness'])
    build_tools()
    for fl in sorted(FLAVORS):
        libdir = build_lib(fl)
        hs = sorted(need.get(fl, ()))
        with ThreadPoolExecutor(max_workers=8) as ex:
            list(ex.map(lambda h: build_harness(h, fl, libdir), hs))
    print('setup done')
    return 0


def main(argv):
    if argv and argv[0] == 'setup':
        return setup()
    ap = argparse.ArgumentParser()
    ap.add_argument('prop')
    ap.add_argument('--tier', default=os.environ.get('VERIF_TIER', 'quick'), choices=['quick', 'thorough'])
    ap.add_argument('--replay')
    ap.add_argument('--jobs', type=int)
    a = ap.parse_args(argv)
    seed = int(os.environ.get('VERIF_SEED', '1') or 1)
    try:
        return run_check(a.prop, a.tier, seed, None, replay=a.replay, jobs=a.jobs)
    except SystemExit as e:
        return e.code if isinstance(e.code, int) else 2
    except Exception as e:
        import traceback
        traceback.print_exc()
        return 2
