// vmerge: count distinct 64-bit hashes across files (each a raw array of uint64_t)
#include <cstdio>
#include <cstdint>
#include <vector>
#include <algorithm>
int main(int argc, char** argv) {
    std::vector<uint64_t> all;
    for (int i = 1; i < argc; ++i) {
        FILE* f = fopen(argv[i], "rb");
        if (!f) continue;
        uint64_t buf[4096];
        size_t n;
        while ((n = fread(buf, 8, 4096, f)) > 0) all.insert(all.end(), buf, buf + n);
        fclose(f);
    }
    std::sort(all.begin(), all.end());
    auto n = std::unique(all.begin(), all.end()) - all.begin();
    printf("%zu\n", (size_t)n);
    return 0;
}
