// C17 - cache layer: cached reads return exactly the source's bytes.
//
// The real new_full_file_cached_fs over a localfs media directory under --scratch (optionally wrapped so
// that media I/O yields), source = mock file system whose file f has size s_f and byte prng(f, offset),
// with seeded latency, injected failures and short reads, logging every source read.
//
// Oracles (DESIGN.md 3, C17; properties.jsonl C17 statement):
//   * every cached read returns bytes equal to prng(f, .) for [offset, offset+ret);
//   * ret == min(count, max(0, s_f - offset)) whenever no source fault was injected on that file between the
//     read's call and its return; otherwise ret < 0 or a (checked) prefix;
//   * never more than the clipped count (no byte beyond s_f), nothing written beyond the caller's buffers
//     (exact-size heap buffers under ASan, canaries otherwise);
//   * ASan/UBSan/TSan silence.
// The source-read log is evidence only (reads beyond s_f are counted, a correct implementation never issues
// one; the statement itself promises nothing about source reads, and such a read shows up as a short count).
//
// Range trim (ICachedFile::evict(offset,count)) is issued only while a harness-side per-file in-flight-read
// counter is zero (Dekker-style gate with the readers); unlink/ftruncate through the cached fs are never issued.
#include "vh.h"
#include <photon/fs/filesystem.h>
#include <photon/fs/localfs.h>
#include <photon/fs/forwardfs.h>
#include <photon/fs/virtual-file.h>
#include <photon/fs/cache/cache.h>
#include <photon/common/io-alloc.h>
#include <photon/common/iovector.h>
#include "fs/cache/full_file_cache/cache_pool.h"
#include <sys/stat.h>
#include <sys/statvfs.h>
#include <sys/uio.h>
#include <fcntl.h>

using namespace photon;
using namespace photon::fs;

static vh::NamedCounter c_reads("reads"), c_hit("read_fully_cached"), c_partly("read_partly_cached"), c_miss("read_absent"),
    c_eof("read_at_or_past_eof"), c_clipped("read_clipped_at_eof"), c_multi_iov("read_multi_iov"), c_zero_seg("read_zero_len_segment"),
    c_fault_fail("read_failed_after_injected_fault"), c_fault_prefix("read_prefix_after_injected_fault"),
    c_fault_survived("read_complete_despite_fault"), c_src_reads("src_reads"), c_src_bytes("src_bytes"),
    c_src_fail("src_fault_fail_injected"), c_src_short("src_fault_short_injected"), c_src_beyond("src_read_beyond_size"),
    c_src_tail("src_read_ending_at_unaligned_size"), c_src_unattributed("src_reads_not_by_a_reader"),
    c_evict_calls("evict_name_calls"), c_evict_inflight("evict_open_file_read_in_flight"), c_evict_during("read_spanned_eviction"),
    c_force("force_recycle_calls"), c_trims("range_trims"), c_trim_skipped("range_trim_skipped_busy"), c_trunc_trims("range_trim_to_end"),
    c_reuse_hit("read_served_from_reused_dir"), c_reuse_reads("reads_after_reuse"), c_phases("pool_instances"),
    c_async_scan("pool_async_scan"), c_open_fail("open_failed"), c_reopen("handle_reopened"), c_prefetch("prefetch_calls"),
    c_prefetch_fail("prefetch_failed"), c_media_sync("media_fdatasync"), c_bigiov("reads_iovcnt_over_27");

// ------------------------------------------------------------------ configuration of this execution
struct Cfg {
    int nv = 1, rpv = 2, nfiles = 2, phases = 2;
    uint64_t unit = 4096;
    int mode = 1;                    // T_CACHE_FIEMAP_MODE: 0 probe, 1 range map, 2 fiemap
    uint64_t cap_gb = 1, period_us = 1000000, floor_bytes = 0, ttl_us = 10000000;
    int media_wrap = 0;              // 0 none, 1 yields, 2 yields + sleeps
    int media_sync_den = 0;          // fdatasync after 1/n media writes (0 never)
    bool aligned_alloc = false;
    int src_lat = 0;                 // 0 none, 1 yield, 2 short sleeps, 3 longer sleeps
    int fault_den = 0, short_den = 0;
    int n_evictors = 0;
    uint64_t evict_gap_us = 500;
    bool trimmer = false;
    int prefetch_pct = 0;
    uint64_t ops = 100;
    bool sync_between = false;
    bool bigiov = false;
    int section = 0;                 // 0 main, 1 bigiov, 2 trimpast, 3 relrace
    bool opens = true;               // readers / trimmer open and close their own handles while others read
};
static Cfg g_cfg;
static uint64_t g_seed;
static std::atomic<uint64_t> g_rctr{0};
static uint64_t rnd() { return vh::mix(g_seed, g_rctr.fetch_add(1, vh::MO)); }

// ------------------------------------------------------------------ files
constexpr int MAXF = 4;
struct FileSt {
    std::string name;
    uint64_t size = 0;
    std::vector<uint8_t> content;                   // byte i = prng(f, i); immutable after init
    uint64_t hot[4] = {0, 0, 0, 0};
    std::atomic<uint64_t> fault_seq{0};             // bumped when the source injects a failure / short read on this file
    std::atomic<uint64_t> evict_seq{0};             // bumped after pool->evict(name) returned
    std::atomic<uint64_t> src_reads_phase{0};       // source reads on this file under the current pool instance
    std::atomic<uint8_t> sourced[800];              // per 4 KiB block: read from the source under the current pool instance
    std::atomic<int> inflight{0};                   // reads (and prefetches) of this file in flight
    std::atomic<int> trim_active{0};
    std::atomic<IFile*> shared{nullptr};
};
static FileSt g_files[MAXF];

// ------------------------------------------------------------------ readers
constexpr int MAXR = 48;
struct Reader {
    int id = 0, vcpu = 0;
    std::atomic<photon::thread*> th{nullptr};
    std::atomic<int> cur_f{-1}, cur_kind{0};
    std::atomic<uint64_t> cur_off{0}, cur_len{0}, ops_done{0};
    // source reads issued by this photon thread during its current operation (touched by that thread only)
    int n_src = 0;
    struct { uint64_t off, len; } src[16];
};
static Reader g_readers[MAXR];
static int g_nreaders = 0;
static std::atomic<int> g_readers_left{0};
static int g_phase = 0;
static ICachedFileSystem* g_fs = nullptr;

static Reader* current_reader() {
    auto me = photon::CURRENT;
    for (int i = 0; i < g_nreaders; ++i)
        if (g_readers[i].th.load(vh::MO) == me) return &g_readers[i];
    return nullptr;
}

// ------------------------------------------------------------------ source-read log (ring, evidence / witness)
struct SrcLogEnt { std::atomic<uint64_t> off{0}, len{0}; std::atomic<int64_t> ret{0}; std::atomic<int> f{-1}, reader{-1}; };
constexpr int LOGN = 256;
static SrcLogEnt g_srclog[LOGN];
static std::atomic<uint64_t> g_srclog_idx{0};
static void srclog(int f, int reader, uint64_t off, uint64_t len, int64_t ret) {
    auto& e = g_srclog[g_srclog_idx.fetch_add(1, vh::MO) % LOGN];
    e.f.store(f, vh::MO); e.reader.store(reader, vh::MO); e.off.store(off, vh::MO); e.len.store(len, vh::MO); e.ret.store(ret, vh::MO);
}
static std::string srclog_json(int f, int max = 12) {
    vh::JArr a;
    uint64_t end = g_srclog_idx.load(vh::MO);
    int n = 0;
    for (uint64_t i = end; i > 0 && end - i < LOGN && n < max; --i) {
        auto& e = g_srclog[(i - 1) % LOGN];
        if (e.f.load(vh::MO) != f) continue;
        a.raw(vh::JObj().kv("off", e.off.load(vh::MO)).kv("len", e.len.load(vh::MO)).kv("ret", e.ret.load(vh::MO))
                  .kv("reader", e.reader.load(vh::MO)).str());
        ++n;
    }
    return a.str();
}

// ------------------------------------------------------------------ mock source
static void src_delay() {
    switch (g_cfg.src_lat) {
    case 0: return;
    case 1: if (rnd() & 1) photon::thread_yield(); return;
    case 2: { auto r = rnd(); if (r % 4 == 0) photon::thread_usleep(1 + (r >> 8) % 40); else if (r % 4 == 1) photon::thread_yield(); return; }
    default: { auto r = rnd(); if (r % 2 == 0) photon::thread_usleep(1 + (r >> 8) % 300); else photon::thread_yield(); return; }
    }
}

class SrcFS;
static IFileSystem* g_srcfs = nullptr;

class SrcFile : public VirtualReadOnlyFile {
public:
    int f;
    explicit SrcFile(int f_) : f(f_) {}
    IFileSystem* filesystem() override { return g_srcfs; }
    int close() override { return 0; }
    int fstat(struct stat* buf) override {
        src_delay();
        memset(buf, 0, sizeof(*buf));
        buf->st_mode = S_IFREG | 0444;
        buf->st_size = g_files[f].size;
        buf->st_blksize = 4096;
        buf->st_blocks = (g_files[f].size + 511) / 512;
        return 0;
    }
    ssize_t pread(void* buf, size_t count, off_t offset) override {
        struct iovec v { buf, count };
        return preadv(&v, 1, offset);
    }
    ssize_t preadv(const struct iovec* iov, int iovcnt, off_t offset) override {
        auto& F = g_files[f];
        uint64_t total = 0;
        for (int i = 0; i < iovcnt; ++i) total += iov[i].iov_len;
        auto R = current_reader();
        c_src_reads.add();
        F.src_reads_phase.fetch_add(1, vh::MO);
        if (offset >= 0)
            for (uint64_t b = offset / 4096; b <= (offset + (total ? total - 1 : 0)) / 4096 && b < 800; ++b) F.sourced[b].store(1, vh::MO);
        if (R) {
            if (R->n_src < 16) { R->src[R->n_src].off = offset; R->src[R->n_src].len = total; }
            R->n_src++;
        } else c_src_unattributed.add();
        if (offset < 0) { srclog(f, R ? R->id : -1, offset, total, -1); errno = EINVAL; return -1; }
        if ((uint64_t)offset + total > F.size) c_src_beyond.add();
        else if ((uint64_t)offset + total == F.size && F.size % 4096) c_src_tail.add();
        src_delay();
        auto r = rnd();
        if (g_cfg.fault_den && r % g_cfg.fault_den == 0) {
            F.fault_seq.fetch_add(1, std::memory_order_seq_cst);        // decided before anything else can run
            c_src_fail.add();
            srclog(f, R ? R->id : -1, offset, total, -1);
            src_delay();
            errno = EIO;
            return -1;
        }
        uint64_t avail = (uint64_t)offset >= F.size ? 0 : std::min<uint64_t>(total, F.size - offset);
        if (g_cfg.short_den && avail > 1 && (r >> 20) % g_cfg.short_den == 0) {
            F.fault_seq.fetch_add(1, std::memory_order_seq_cst);
            c_src_short.add();
            avail = 1 + (r >> 32) % (avail - 1);
        }
        uint64_t done = 0;
        for (int i = 0; i < iovcnt && done < avail; ++i) {
            uint64_t n = std::min<uint64_t>(iov[i].iov_len, avail - done);
            memcpy(iov[i].iov_base, F.content.data() + offset + done, n);
            done += n;
        }
        c_src_bytes.add(done);
        srclog(f, R ? R->id : -1, offset, total, done);
        src_delay();
        return done;
    }
};

#define SRC_ENOSYS(decl) decl override { errno = ENOSYS; return -1; }
class SrcFS : public IFileSystem {
public:
    static int file_of(const char* path) {
        if (!path) return -1;
        while (*path == '/') ++path;
        if (path[0] != 'f' || path[1] < '0' || path[1] >= '0' + MAXF || path[2]) return -1;
        return path[1] - '0';
    }
    IFile* open(const char* pathname, int flags) override { return open(pathname, flags, 0); }
    IFile* open(const char* pathname, int flags, mode_t) override {
        int f = file_of(pathname);
        if (f < 0 || f >= g_cfg.nfiles) { errno = ENOENT; return nullptr; }
        if ((flags & O_ACCMODE) != O_RDONLY) { errno = EROFS; return nullptr; }
        src_delay();
        return new SrcFile(f);
    }
    IFile* creat(const char*, mode_t) override { errno = EROFS; return nullptr; }
    int stat(const char* path, struct stat* buf) override {
        int f = file_of(path);
        if (f < 0 || f >= g_cfg.nfiles) { errno = ENOENT; return -1; }
        SrcFile sf(f);
        return sf.fstat(buf);
    }
    int lstat(const char* path, struct stat* buf) override { return stat(path, buf); }
    int access(const char* path, int) override {
        int f = file_of(path);
        if (f < 0 || f >= g_cfg.nfiles) { errno = ENOENT; return -1; }
        return 0;
    }
    photon::fs::DIR* opendir(const char*) override { errno = ENOSYS; return nullptr; }
    SRC_ENOSYS(int mkdir(const char*, mode_t))
    SRC_ENOSYS(int rmdir(const char*))
    SRC_ENOSYS(int symlink(const char*, const char*))
    SRC_ENOSYS(ssize_t readlink(const char*, char*, size_t))
    SRC_ENOSYS(int link(const char*, const char*))
    SRC_ENOSYS(int rename(const char*, const char*))
    SRC_ENOSYS(int unlink(const char*))
    SRC_ENOSYS(int chmod(const char*, mode_t))
    SRC_ENOSYS(int chown(const char*, uid_t, gid_t))
    SRC_ENOSYS(int lchown(const char*, uid_t, gid_t))
    SRC_ENOSYS(int statfs(const char*, struct statfs*))
    SRC_ENOSYS(int statvfs(const char*, struct statvfs*))
    SRC_ENOSYS(int truncate(const char*, off_t))
    SRC_ENOSYS(int utime(const char*, const struct utimbuf*))
    SRC_ENOSYS(int utimes(const char*, const struct timeval[2]))
    SRC_ENOSYS(int lutimes(const char*, const struct timeval[2]))
    SRC_ENOSYS(int mknod(const char*, mode_t, dev_t))
    SRC_ENOSYS(int syncfs())
};

// ------------------------------------------------------------------ media wrapper: I/O methods are suspension points
static void media_pause() {
    switch (g_cfg.media_wrap) {
    case 0: return;
    case 1: if (rnd() & 1) photon::thread_yield(); return;
    default: { auto r = rnd(); if (r % 8 == 0) photon::thread_usleep(1 + (r >> 8) % 40); else if (r % 8 < 3) photon::thread_yield(); return; }
    }
}
class YFile : public ForwardFile_Ownership {
public:
    explicit YFile(IFile* f) : ForwardFile_Ownership(f, true) {}
    int close() override { return m_file->close(); }
    ssize_t pread(void* buf, size_t count, off_t offset) override { media_pause(); auto r = m_file->pread(buf, count, offset); media_pause(); return r; }
    ssize_t preadv(const struct iovec* iov, int iovcnt, off_t offset) override { media_pause(); auto r = m_file->preadv(iov, iovcnt, offset); media_pause(); return r; }
    ssize_t pwrite(const void* buf, size_t count, off_t offset) override { struct iovec v{(void*)buf, count}; return pwritev(&v, 1, offset); }
    ssize_t pwritev(const struct iovec* iov, int iovcnt, off_t offset) override {
        media_pause();
        auto r = m_file->pwritev(iov, iovcnt, offset);
        ERRNO e;
        if (r > 0 && g_cfg.media_sync_den && rnd() % g_cfg.media_sync_den == 0) { m_file->fdatasync(); c_media_sync.add(); }
        media_pause();
        errno = e.no;
        return r;
    }
    off_t lseek(off_t offset, int whence) override { media_pause(); return m_file->lseek(offset, whence); }
    int fstat(struct stat* buf) override { media_pause(); return m_file->fstat(buf); }
    int ftruncate(off_t length) override { media_pause(); auto r = m_file->ftruncate(length); ERRNO e; media_pause(); errno = e.no; return r; }
    int fallocate(int mode, off_t offset, off_t len) override { media_pause(); auto r = m_file->fallocate(mode, offset, len); ERRNO e; media_pause(); errno = e.no; return r; }
    int fiemap(struct photon::fs::fiemap* map) override { media_pause(); auto r = m_file->fiemap(map); ERRNO e; media_pause(); errno = e.no; return r; }
};
class YFS : public ForwardFS_Ownership {
public:
    explicit YFS(IFileSystem* fs) : ForwardFS_Ownership(fs, true) {}
    IFile* open(const char* pathname, int flags) override { media_pause(); auto f = m_fs->open(pathname, flags); return f ? new YFile(f) : nullptr; }
    IFile* open(const char* pathname, int flags, mode_t mode) override { media_pause(); auto f = m_fs->open(pathname, flags, mode); return f ? new YFile(f) : nullptr; }
    int unlink(const char* pathname) override { media_pause(); return m_fs->unlink(pathname); }
    int truncate(const char* path, off_t length) override { media_pause(); return m_fs->truncate(path, length); }
    int stat(const char* path, struct stat* buf) override { media_pause(); return m_fs->stat(path, buf); }
};

// ------------------------------------------------------------------ a read request and its check
struct Seg { uint8_t* base; size_t len; };
static const uint8_t CANARY[8] = {0xC5, 0x5C, 0xA7, 0x7A, 0xE1, 0x1E, 0x93, 0x39};
static size_t pad() { return vh::is_asan() ? 0 : sizeof(CANARY); }

static std::string cfg_json() {
    return vh::JObj().kv("vcpus", g_cfg.nv).kv("unit", g_cfg.unit).kv("mode", g_cfg.mode == 2 ? "fiemap" : g_cfg.mode == 1 ? "rangemap" : "probe")
        .kv("cap_gb", g_cfg.cap_gb).kv("floor", g_cfg.floor_bytes).kv("period_us", g_cfg.period_us).kv("ttl_us", g_cfg.ttl_us)
        .kv("media_wrap", g_cfg.media_wrap).kv("media_sync_den", g_cfg.media_sync_den).kv("src_lat", g_cfg.src_lat)
        .kv("fault_den", g_cfg.fault_den).kv("short_den", g_cfg.short_den).kv("evictors", g_cfg.n_evictors)
        .kv("trimmer", g_cfg.trimmer).kv("phase", g_phase).str();
}
static const char* mode_tag() {
    return g_cfg.bigiov ? "iovcnt>27" : g_cfg.section == 2 ? "after-to-end-trim-past-eof" : g_cfg.mode == 2 ? "fiemap" : "rangemap";
}

struct ReadResult { ssize_t ret; bool checked_ok; };

// Issue one cached read of [off, off+len) split into the given segment lengths and judge it.
static void do_read(Reader& R, vh::Rng& r, IFile* file, int f, uint64_t off, const std::vector<size_t>& seglens, int api) {
    auto& F = g_files[f];
    uint64_t len = 0;
    for (auto l : seglens) len += l;
    std::vector<Seg> segs;
    std::vector<struct iovec> iov;
    for (auto l : seglens) {
        auto p = (uint8_t*)malloc(l + pad() ? l + pad() : 1);
        memset(p, 0xEE, l);
        if (pad()) memcpy(p + l, CANARY, sizeof(CANARY));
        segs.push_back({p, l});
        iov.push_back({p, l});
    }
    uint64_t expect = off >= F.size ? 0 : std::min<uint64_t>(len, F.size - off);
    R.cur_f.store(f, vh::MO); R.cur_off.store(off, vh::MO); R.cur_len.store(len, vh::MO); R.cur_kind.store(1, vh::MO);
    R.n_src = 0;
    // gate against range trim: announce the read, then look for an active trim (the trimmer does the converse)
    for (;;) {
        F.inflight.fetch_add(1, std::memory_order_seq_cst);
        if (!F.trim_active.load(std::memory_order_seq_cst)) break;
        F.inflight.fetch_sub(1, std::memory_order_seq_cst);
        while (F.trim_active.load(std::memory_order_seq_cst)) photon::thread_usleep(20);
    }
    uint64_t faults0 = F.fault_seq.load(std::memory_order_seq_cst);
    uint64_t evict0 = F.evict_seq.load(vh::MO);
    ssize_t ret;
    if (api == 0 && iov.size() == 1) ret = file->pread(iov[0].iov_base, iov[0].iov_len, off);
    else if (api == 1) ret = file->preadv(iov.data(), (int)iov.size(), off);
    else ret = file->preadv2(iov.data(), (int)iov.size(), off, 0);
    int err = errno;
    uint64_t faults1 = F.fault_seq.load(std::memory_order_seq_cst);
    uint64_t evict1 = F.evict_seq.load(vh::MO);
    F.inflight.fetch_sub(1, std::memory_order_seq_cst);
    R.cur_kind.store(0, vh::MO);
    vh::event();
    c_reads.add();
    if (g_phase > 0) c_reuse_reads.add();
    if (iov.size() > 1) c_multi_iov.add();
    if (iov.size() > 27) c_bigiov.add();
    bool faulted = faults1 != faults0;
    if (evict1 != evict0) c_evict_during.add();

    auto witness = [&](uint64_t badpos, const std::string& got, const std::string& want) {
        vh::JArr sl;
        for (auto l : seglens) sl.add((int64_t)l);
        vh::JArr mine;
        for (int i = 0; i < R.n_src && i < 16; ++i) mine.raw(vh::JObj().kv("off", R.src[i].off).kv("len", R.src[i].len).str());
        return vh::JObj().kv("file", F.name).kv("size", F.size).kv("offset", off).kv("count", len).raw("iov_lens", sl.str())
            .kv("api", api == 0 ? "pread" : api == 1 ? "preadv" : "preadv2").kv("ret", (int64_t)ret).kv("errno", err)
            .kv("expected_count", expect).kv("first_bad_pos_in_request", badpos).kv("got", got).kv("want", want)
            .kv("source_fault_injected_during_read", faulted).kv("evictions_completed_during_read", evict1 - evict0)
            .raw("source_reads_by_this_read", mine.str()).raw("recent_source_reads_of_file", srclog_json(f))
            .raw("config", cfg_json()).kv("reader", R.id).str();
    };

    // canaries / count
    bool overflow = false;
    if (pad()) for (auto& s : segs) if (memcmp(s.base + s.len, CANARY, sizeof(CANARY))) overflow = true;
    if (overflow)
        vh::violation(std::string("buffer/overrun:") + mode_tag(), "a cached read wrote beyond the end of a caller's iovec segment", witness(0, "", ""));
    if (ret > (ssize_t)expect) {
        vh::violation(std::string(off + ret > F.size ? "count/beyond-source-size:" : "count/more-than-requested:") + mode_tag(),
                      "a cached read returned more bytes than the source holds in that range", witness(expect, "", ""));
    }
    // bytes of [0, min(ret, len))
    if (ret > 0) {
        uint64_t n = std::min<uint64_t>(ret, len), pos = 0;
        for (auto& s : segs) {
            if (pos >= n) break;
            uint64_t k = std::min<uint64_t>(s.len, n - pos);
            uint64_t lim = off + pos >= F.size ? 0 : std::min<uint64_t>(k, F.size - (off + pos));
            uint64_t bad = lim;
            if (lim && memcmp(s.base, F.content.data() + off + pos, lim)) {
                for (bad = 0; bad < lim; ++bad) if (s.base[bad] != F.content[off + pos + bad]) break;
            }
            if (bad < lim) {
                uint64_t run = 0; bool zeros = true, untouched = true;
                for (uint64_t j = bad; j < lim && s.base[j] != F.content[off + pos + j]; ++j) { ++run; zeros &= s.base[j] == 0; untouched &= s.base[j] == 0xEE; }
                // does the wrong data equal source data of another offset? (shifted copy)
                const char* kind = zeros ? "zeros-of-a-hole" : untouched ? "buffer-not-filled" : "other-data";
                vh::violation(std::string("bytes/") + kind + ":" + mode_tag(),
                              "a cached read returned bytes that differ from the source's bytes in that range",
                              witness(pos + bad, vh::hex(s.base + bad, std::min<uint64_t>(lim - bad, 32)),
                                      vh::hex(F.content.data() + off + pos + bad, std::min<uint64_t>(lim - bad, 32))));
                break;
            }
            pos += k;
        }
    }
    if (ret != (ssize_t)expect && ret <= (ssize_t)expect) {
        if (!faulted) {
            vh::violation(std::string(ret < 0 ? "count/failed-without-source-fault:" : "count/short-without-source-fault:") + mode_tag(),
                          "a cached read returned fewer bytes than the source would although no source fault was injected during it",
                          witness(ret < 0 ? 0 : ret, "", ""));
        } else if (ret < 0) c_fault_fail.add();
        else c_fault_prefix.add();
    } else if (ret == (ssize_t)expect) {
        if (faulted) c_fault_survived.add();
        if (expect == 0) c_eof.add();
        else {
            if (expect < len) c_clipped.add();
            // where did the bytes come from?
            if (R.n_src == 0) {
                c_hit.add();
                if (g_phase > 0) {
                    // none of these blocks came from the source under this pool instance: a previous instance left them
                    bool fresh = false;
                    for (uint64_t b = off / 4096; b <= (off + expect - 1) / 4096 && b < 800; ++b) fresh |= F.sourced[b].load(vh::MO) != 0;
                    if (!fresh) c_reuse_hit.add();
                }
            } else {
                // bytes of the request covered by this read's own source reads
                std::vector<std::pair<uint64_t, uint64_t>> iv;
                for (int i = 0; i < R.n_src && i < 16; ++i) {
                    uint64_t a = std::max<uint64_t>(R.src[i].off, off), b = std::min<uint64_t>(R.src[i].off + R.src[i].len, off + expect);
                    if (a < b) iv.push_back({a, b});
                }
                std::sort(iv.begin(), iv.end());
                uint64_t covered = 0, cur = off;
                for (auto& p : iv) { uint64_t a = std::max(p.first, cur); if (p.second > a) { covered += p.second - a; cur = p.second; } }
                if (R.n_src > 16) covered = expect;     // unknown: do not claim
                if (covered < expect) c_partly.add(); else c_miss.add();
            }
        }
    }
    for (auto& s : segs) free(s.base);
    R.ops_done.fetch_add(1, vh::MO);
    vh::progress();
}

static void do_prefetch(Reader& R, IFile* file, int f, uint64_t off, uint64_t len) {
    auto& F = g_files[f];
    R.cur_f.store(f, vh::MO); R.cur_off.store(off, vh::MO); R.cur_len.store(len, vh::MO); R.cur_kind.store(2, vh::MO);
    R.n_src = 0;
    for (;;) {
        F.inflight.fetch_add(1, std::memory_order_seq_cst);
        if (!F.trim_active.load(std::memory_order_seq_cst)) break;
        F.inflight.fetch_sub(1, std::memory_order_seq_cst);
        while (F.trim_active.load(std::memory_order_seq_cst)) photon::thread_usleep(20);
    }
    int rc = file->fadvise(off, len, POSIX_FADV_WILLNEED);
    F.inflight.fetch_sub(1, std::memory_order_seq_cst);
    R.cur_kind.store(0, vh::MO);
    c_prefetch.add();
    if (rc != 0) c_prefetch_fail.add();
    vh::progress();
}

// ------------------------------------------------------------------ request generator
static uint64_t gen_offset(vh::Rng& r, FileSt& F) {
    uint64_t s = F.size, U = g_cfg.unit;
    switch (r.below(20)) {
    case 0: case 1: case 2: case 3: case 4: case 5: {           // hot spots shared by all readers
        uint64_t h = F.hot[r.below(4)];
        int64_t j = (int64_t)r.below(257) - 128;
        int64_t o = (int64_t)h + (r.chance(1, 2) ? 0 : j);
        return o < 0 ? 0 : o;
    }
    case 6: case 7: case 8: case 9: {                           // around a refill-unit boundary
        uint64_t b = (s / U ? r.below(s / U + 1) : 0) * U;
        int64_t o = (int64_t)b + (int64_t)r.below(65) - 32;
        return o < 0 ? 0 : o;
    }
    case 10: case 11: case 12: {                                // near the end of the file
        uint64_t back = r.below(std::min<uint64_t>(s, 2 * U + 8192) + 1);
        return s - back;
    }
    case 13: return s + r.below(8192);                          // at / past EOF
    case 14: return 0;
    case 15: return (s ? r.below(s) : 0) & ~4095ull;            // page aligned
    default: return s ? r.below(s) : 0;
    }
}
static uint64_t gen_len(vh::Rng& r) {
    uint64_t U = g_cfg.unit;
    switch (r.below(20)) {
    case 0: case 1: case 2: case 3: case 4: case 5: case 6: return r.range(1, 512);
    case 7: case 8: case 9: case 10: case 11: case 12: return r.range(513, 16384);
    case 13: case 14: case 15: return r.range(1, std::min<uint64_t>(4 * U, 262144));
    case 16: return r.pick<uint64_t>({4096, U, 2 * U, U + 1, U - 1});
    case 17: return r.range(1, vh::is_tsan() ? (256u << 10) : (2u << 20));
    case 18: return r.chance(1, 4) ? 0 : r.range(1, 64);
    default: return r.range(1, 65536);
    }
}
static std::vector<size_t> gen_split(vh::Rng& r, uint64_t len, int& api) {
    std::vector<size_t> out;
    int nseg;
    if (g_cfg.bigiov) nseg = 64;     // 29..44 segments overflow inside the IOVector object only (unseen by ASan, later fallout varies)
    else {
        int k = r.below(10);
        nseg = k < 5 ? 1 : k < 8 ? r.range(2, 4) : r.range(5, 27);      // IOVector in the read path holds at most 27 (see bigiov section)
    }
    if (len == 0) nseg = std::min(nseg, 2);
    if (nseg == 1) { out.push_back(len); api = r.below(3); return out; }
    api = 1 + r.below(2);
    bool allow_zero = r.chance(1, 8);
    std::vector<uint64_t> cuts;
    for (int i = 0; i < nseg - 1; ++i) cuts.push_back(len ? (allow_zero ? r.below(len + 1) : (len > 1 ? 1 + r.below(len - 1) : 0)) : 0);
    // page-sized pieces sometimes
    if (r.chance(1, 5)) { cuts.clear(); for (int i = 1; i < nseg; ++i) cuts.push_back(std::min<uint64_t>(len, i * 4096ull)); }
    std::sort(cuts.begin(), cuts.end());
    uint64_t prev = 0;
    for (auto c : cuts) { out.push_back(c - prev); prev = c; }
    out.push_back(len - prev);
    for (auto l : out) if (l == 0 && len) { c_zero_seg.add(); break; }
    return out;
}

// ------------------------------------------------------------------ threads
static IFile* open_cached(int f) {
    auto file = g_fs->open(g_files[f].name.c_str(), O_RDONLY, 0644);
    if (!file) c_open_fail.add();
    return file;
}

static void* reader_main(void* arg) {
    auto& R = *(Reader*)arg;
    R.th.store(photon::CURRENT, std::memory_order_release);
    vh::Rng r(vh::mix(g_seed, 1000 + g_phase * 1000 + R.id));
    IFile* own[MAXF] = {nullptr, nullptr, nullptr, nullptr};
    int reopen_every = r.pick({1, 4, 16, 1000000, 1000000});
    bool prefer_shared = !g_cfg.opens || r.chance(1, 2);
    for (uint64_t op = 0; op < g_cfg.ops; ++op) {
        int f = r.chance(2, 3) ? 0 : r.below(g_cfg.nfiles);
        auto& F = g_files[f];
        IFile* file = prefer_shared ? F.shared.load(std::memory_order_acquire) : nullptr;
        if (!file) {
            if (own[f] && op % reopen_every == 0) { delete own[f]; own[f] = nullptr; c_reopen.add(); }
            if (!own[f]) own[f] = open_cached(f);
            file = own[f];
        }
        if (!file) { vh::progress(); photon::thread_usleep(100); continue; }
        uint64_t off = gen_offset(r, F);
        uint64_t len = gen_len(r);
        if ((int)r.below(100) < g_cfg.prefetch_pct) { do_prefetch(R, file, f, off, std::max<uint64_t>(len, 1)); continue; }
        int api = 0;
        auto split = gen_split(r, len, api);
        do_read(R, r, file, f, off, split, api);
        if (r.chance(1, 16)) photon::thread_yield();
    }
    for (auto& h : own) if (h) { delete h; h = nullptr; }
    R.th.store(nullptr, std::memory_order_release);
    g_readers_left.fetch_sub(1, std::memory_order_acq_rel);
    return nullptr;
}

static void* evictor_main(void* arg) {
    vh::Rng r(vh::mix(g_seed, 5000 + g_phase * 100 + (uint64_t)arg));
    auto pool = g_fs->get_pool();
    auto fpool = static_cast<FileCachePool*>(pool);
    // bounded by operation count, not by how long the readers take
    uint64_t budget = g_cfg.ops * g_nreaders / std::max(1, g_cfg.n_evictors);
    while (g_readers_left.load(std::memory_order_acquire) > 0) {
        if (budget == 0) { photon::thread_usleep(2000); continue; }
        --budget;
        photon::thread_usleep(r.range(g_cfg.evict_gap_us / 4 + 1, g_cfg.evict_gap_us * 2 + 1));
        if (r.chance(3, 4)) {
            int f = r.chance(1, 2) ? 0 : r.below(g_cfg.nfiles);
            auto& F = g_files[f];
            bool busy = F.inflight.load(vh::MO) > 0;
            c_evict_calls.add();
            pool->evict(F.name);
            if (busy || F.inflight.load(vh::MO) > 0) c_evict_inflight.add();
            F.evict_seq.fetch_add(1, vh::MO);
        } else {
            c_force.add();
            fpool->forceRecycle();
        }
    }
    return nullptr;
}

static void* trimmer_main(void* arg) {
    vh::Rng r(vh::mix(g_seed, 6000 + g_phase * 100));
    while (g_readers_left.load(std::memory_order_acquire) > 0) {
        photon::thread_usleep(r.range(200, 3000));
        int f = r.below(g_cfg.nfiles);
        auto& F = g_files[f];
        auto file = g_cfg.opens ? open_cached(f) : F.shared.load(std::memory_order_acquire);
        if (!file) continue;
        // announce the trim, then wait until no read of this file is in flight; readers do the converse
        F.trim_active.store(1, std::memory_order_seq_cst);
        bool quiet = false;
        for (int i = 0; i < 4000 && !quiet; ++i) {
            if (F.inflight.load(std::memory_order_seq_cst) == 0) quiet = true; else photon::thread_usleep(50);
        }
        if (quiet) {
            // offset and length 4 KiB aligned, as the API comment of CachedFile::fallocate demands
            uint64_t off = gen_offset(r, F) & ~4095ull;
            if (r.chance(1, 10)) {
                off = r.below(F.size) & ~4095ull;       // inside the file (past-EOF form: see section trimpast)
                static_cast<ICachedFile*>(file)->evict(off, (size_t)-1);     // "from offset to the end"
                c_trunc_trims.add();
            } else {
                uint64_t len = r.pick<uint64_t>({4096, g_cfg.unit, 3 * g_cfg.unit, 4096 * r.range(1, 80)});
                static_cast<ICachedFile*>(file)->evict(off, len);
            }
            c_trims.add();
        } else c_trim_skipped.add();
        F.trim_active.store(0, std::memory_order_seq_cst);
        if (g_cfg.opens) delete file;
    }
    return nullptr;
}

// ------------------------------------------------------------------ pool instances (phases)
static std::string g_media_root;
static IOAlloc* g_alloc = nullptr;

static void create_fs(vh::Rng& r) {
    photon::verif::g_hooks.tunable[photon::verif::T_CACHE_FIEMAP_MODE].store(g_cfg.mode, vh::MO);
    IFileSystem* media = new_localfs_adaptor(g_media_root.c_str(), ioengine_psync);
    if (!media) vh::machinery_failure("new_localfs_adaptor failed");
    if (g_cfg.media_wrap || g_cfg.media_sync_den) media = new YFS(media);
    bool async_scan = g_phase > 0 && r.chance(1, 2);
    if (async_scan) c_async_scan.add();
    g_fs = new_full_file_cached_fs(g_srcfs, media, g_cfg.unit, g_cfg.cap_gb, g_cfg.period_us, g_cfg.floor_bytes,
                                   g_alloc, 0, nullptr, g_cfg.ttl_us, async_scan);
    if (!g_fs) vh::machinery_failure("new_full_file_cached_fs failed");
    c_phases.add();
    for (int f = 0; f < g_cfg.nfiles; ++f) {
        g_files[f].src_reads_phase.store(0, vh::MO);
        for (auto& b : g_files[f].sourced) b.store(0, vh::MO);
        IFile* h = (!g_cfg.opens || r.chance(2, 3)) ? open_cached(f) : nullptr;
        if (h && !g_cfg.opens) { char c; h->pread(&c, 1, 0); }       // the store learns the source size before the readers start
        g_files[f].shared.store(h, std::memory_order_release);
    }
}
static void destroy_fs() {
    for (int f = 0; f < g_cfg.nfiles; ++f) {
        auto h = g_files[f].shared.exchange(nullptr);
        delete h;
    }
    delete g_fs;
    g_fs = nullptr;
    if (g_cfg.sync_between) {
        // as after a restart: what the previous instance wrote has reached the disk
        for (int f = 0; f < g_cfg.nfiles; ++f) {
            int fd = ::open((g_media_root + g_files[f].name).c_str(), O_RDONLY);
            if (fd >= 0) { ::fsync(fd); ::close(fd); }
        }
    }
}

struct Bar {
    std::atomic<int> cnt{0}, gen{0};
    int n = 1;
    void wait() {
        int g = gen.load(std::memory_order_acquire);
        if (cnt.fetch_add(1, std::memory_order_acq_rel) + 1 == n) { cnt.store(0, std::memory_order_relaxed); gen.fetch_add(1, std::memory_order_acq_rel); }
        else while (gen.load(std::memory_order_acquire) == g) photon::thread_usleep(200);
    }
};

static bool on_stuck(std::string& key, std::string& what, std::string& wit) {
    // No wake condition can be stated soundly from outside (a blocked read may legitimately wait on the pool's
    // locks held by a slow media/source call); report where everybody is and leave it unexplained.
    vh::JArr a;
    for (int i = 0; i < g_nreaders; ++i) {
        auto& R = g_readers[i];
        a.raw(vh::JObj().kv("reader", i).kv("vcpu", R.vcpu).kv("kind", R.cur_kind.load()).kv("file", R.cur_f.load())
                  .kv("off", R.cur_off.load()).kv("len", R.cur_len.load()).kv("ops_done", R.ops_done.load()).str());
    }
    key = "cache-workload";
    wit = vh::JObj().raw("readers", a.str()).raw("config", cfg_json()).str();
    what = "no cached read completed";
    return false;
}

static void rm_rf(const std::string& p) {
    std::string cmd = "rm -rf '" + p + "'";
    if (system(cmd.c_str())) {}
}

int main(int argc, char** argv) {
    vh::init(argc, argv);
    auto& A = vh::args();
    g_seed = A.xseed();
    vh::Rng r(g_seed);
    auto& C = g_cfg;
    {
#ifndef H_CACHE_SECTION
#define H_CACHE_SECTION "main"
#endif
        // the targeted probes are built as harnesses of their own (h_cache_<section>.cpp include this file) so that the
        // driver gives their executions their own identity / scratch directory
        auto sec = A.gets("section", H_CACHE_SECTION);
        C.section = sec == "bigiov" ? 1 : sec == "trimpast" ? 2 : sec == "relrace" ? 3 : 0;
        C.bigiov = C.section == 1;
    }
    // ---- configuration
    C.nv = r.pick({1, 2, 2, 3, 4, 6});
    C.rpv = r.range(2, 6);
    C.nfiles = r.range(1, 3);
    C.phases = r.pick({2, 2, 2, 3});
    C.unit = r.pick<uint64_t>({4096, 4096, 8192, 16384, 65536, 65536, 262144, 1048576});
    C.mode = r.pick({1, 1, 2, 2, 0});
    C.cap_gb = r.pick<uint64_t>({1, 1, 1, 0});
    C.floor_bytes = r.chance(1, 6) ? (1ull << 50) : 0;
    C.period_us = r.pick<uint64_t>({20000, 100000, 1000000});
    C.ttl_us = r.pick<uint64_t>({1000, 50000, 10000000});
    C.media_wrap = r.pick({0, 1, 2, 2});
    C.media_sync_den = C.mode == 2 ? r.pick({0, 2, 2, 4, 8}) : r.pick({0, 0, 0, 16});    // fiemap sees an extent only once it is allocated
    C.aligned_alloc = r.chance(1, 2);
    C.src_lat = r.pick({0, 1, 2, 2, 3});
    C.fault_den = r.pick({0, 0, 64, 16});
    C.short_den = r.pick({0, 0, 64, 16});
    C.n_evictors = r.pick({0, 1, 1, 2});
    C.evict_gap_us = r.pick<uint64_t>({300, 1000, 5000});
    C.trimmer = r.chance(1, 3);
    C.prefetch_pct = r.pick({0, 0, 5, 15});
    C.sync_between = r.chance(1, 2);
    // ASan+UBSan flavor only: keep idle stores alive. ExpireContainerBase::expire() deleting two or more items in one
    // batch makes intrusive_list::delete_all() downcast a pointer to an already deleted node; UBSan's vptr check reads
    // that node's vptr and ASan reports it although the program never touches it (formal UB, not a memory error,
    // and not this property's business). Short TTLs (store teardown/reopen under load) run in the plain and tsan flavors.
    if (vh::is_asan()) C.ttl_us = 100000000;
    if (vh::is_tsan() && C.unit > 65536) C.unit = r.pick<uint64_t>({4096, 16384, 65536});      // TSan walks the shadow of every copied byte
    if (C.media_sync_den && C.unit >= (256u << 10)) C.media_sync_den = std::max(C.media_sync_den, 8);
    if (C.section == 3) C.ttl_us = 1000;           // one store only: the delete_all() artifact needs two
    if (C.section) {
        C.nv = 1; C.rpv = 1; C.nfiles = 1; C.phases = 1; C.unit = 65536; C.mode = 1; C.cap_gb = 1; C.floor_bytes = 0;
        C.media_wrap = 0; C.media_sync_den = 0; C.src_lat = 0; C.fault_den = C.short_den = 0; C.n_evictors = 0; C.trimmer = false;
        C.prefetch_pct = 0;
    }
    // TSan flavor: CachedFs::open() re-assigns src_fs_/page_size_/allocator_ of the shared store on every open and
    // ICacheStore::preadv2 peeks actual_size_ outside mt_ (same-value / monotonic stores, reported; no suppression
    // exists yet), so there every handle is opened and primed by vCPU 0 before the readers start.
    C.opens = A.geti("opens", vh::is_tsan() ? 0 : 1);
    C.nv = A.geti("vcpus", C.nv);
    C.rpv = A.geti("readers", C.rpv);
    C.unit = A.geti("unit", C.unit);
    C.mode = A.geti("mode", C.mode);
    C.cap_gb = A.geti("cap", C.cap_gb);
    C.phases = A.geti("phases", C.phases);
    C.fault_den = A.geti("fault_den", C.fault_den);
    C.short_den = A.geti("short_den", C.short_den);
    C.n_evictors = A.geti("evictors", C.n_evictors);
    C.trimmer = A.geti("trimmer", C.trimmer);
    C.media_wrap = A.geti("media_wrap", C.media_wrap);
    if (C.nv * C.rpv > MAXR) C.rpv = MAXR / C.nv;
    g_nreaders = C.nv * C.rpv;
    // total read budget of one pool instance, shared by the readers
    uint64_t budget = A.geti("reads", A.thorough() ? 4000 : 1000);
    if (vh::is_tsan()) budget /= 4;
    if (vh::is_asan()) budget /= 2;        // large refill buffers are expensive under ASan (mmap per allocation, quarantine)
    budget /= A.shape_div();
    if (C.unit >= (1u << 20)) budget /= 4; else if (C.unit >= (256u << 10)) budget /= 2;     // refills move whole units
    if (C.bigiov) budget = std::min<uint64_t>(budget, 400);
    C.ops = std::max<uint64_t>(budget / g_nreaders, 20);

    // ---- files: few, small, sizes page-aligned or not, unit-aligned or not
    for (int f = 0; f < C.nfiles; ++f) {
        auto& F = g_files[f];
        F.name = "/f" + std::to_string(f);
        uint64_t s;
        switch (r.below(8)) {
        case 0: s = r.range(1, 4095); break;                                    // less than a page
        case 1: s = 4096 * r.range(1, 64); break;                               // page aligned, small
        case 2: s = C.unit * r.range(1, 4); break;                              // whole refill units
        case 3: s = C.unit * r.range(1, 3) + r.range(1, 4095); break;           // units + a partial page
        case 4: s = r.range(4097, 300000); break;
        case 5: s = 4096 * r.range(65, 700) + r.pick<uint64_t>({0, 1, 511, 4095}); break;
        default: s = r.range(100000, 3u << 20); break;
        }
        s = std::min<uint64_t>(s, vh::is_tsan() ? (1u << 20) : (3u << 20));
        if (C.bigiov) s = (1u << 20) + 777;
        if (C.section >= 2) s = 3 * 4096 + 1000;
        F.size = s;
        F.content.resize(s);
        vh::Rng cr(vh::mix(g_seed, 77 + f));
        size_t i = 0;
        for (; i + 8 <= s; i += 8) { uint64_t v = cr.next(); memcpy(&F.content[i], &v, 8); }
        for (uint64_t v = cr.next(); i < s; ++i, v >>= 8) F.content[i] = (uint8_t)v;
        F.hot[0] = 0;
        F.hot[1] = (s / C.unit ? r.below(s / C.unit + 1) : 0) * C.unit;
        F.hot[2] = s > 3000 ? s - r.below(3000) : 0;
        F.hot[3] = r.below(s);
    }
    g_srcfs = new SrcFS;
    if (C.aligned_alloc) g_alloc = new AlignedAlloc(4096);

    // ---- scratch media directory
    std::string scratch = A.scratch;
    bool own_scratch = false;
    if (scratch.empty()) { scratch = "/tmp/h_cache." + std::to_string(getpid()); own_scratch = true; }
    rm_rf(scratch + "/media");
    if (system(("mkdir -p '" + scratch + "/media'").c_str())) vh::machinery_failure("cannot create the scratch media directory");
    g_media_root = scratch + "/media";

    vh::config("section", A.gets("section", H_CACHE_SECTION));
    vh::config("vcpus", C.nv); vh::config("readers_per_vcpu", C.rpv); vh::config("files", C.nfiles); vh::config("phases", C.phases);
    vh::config("refill_unit", C.unit); vh::config("hole_tracking", C.mode == 2 ? "fiemap" : C.mode == 1 ? "rangemap" : "probe");
    vh::config("capacity_gb", C.cap_gb); vh::config("disk_floor", C.floor_bytes ? "huge" : "0"); vh::config("period_us", C.period_us);
    vh::config("store_ttl_us", C.ttl_us); vh::config("media_wrap", C.media_wrap); vh::config("media_sync_den", C.media_sync_den);
    vh::config("src_latency", C.src_lat); vh::config("fault_den", C.fault_den); vh::config("short_den", C.short_den);
    vh::config("evictors", C.n_evictors); vh::config("trimmer", C.trimmer); vh::config("prefetch_pct", C.prefetch_pct);
    vh::config("reads_per_reader_per_phase", C.ops); vh::config("concurrent_opens", C.opens);
    { std::string s; for (int f = 0; f < C.nfiles; ++f) s += std::to_string(g_files[f].size) + " "; vh::config("file_sizes", s); }

    using namespace photon::verif;
    vh::arm_stalls(r, {P_CACHE_EVICT, P_CACHE_REFILL, P_RANGELOCK_WAIT, P_RWLOCK_UNLOCK, P_MUTEX_UNLOCK});
    vh::start_supervisor(on_stuck, vh::is_asan() || vh::is_tsan() ? 120000 : 60000);     // the machine is shared: generous

    vh::Rng pr(vh::mix(g_seed, 4242));
    if (C.section == 2) {
        // to-end trim (ICachedFile::evict(offset, -1), the len == -1 branch of CachedFile::fallocate) at a 4 KiB aligned
        // offset at/after the end of the file, no read in flight; then the directory is reused by a new pool instance.
        C.mode = A.geti("mode", 1 + (int)(A.exec % 2));
        g_nreaders = 1; g_readers[0].id = 0;
        vh::VCpus vc1;
        vc1.run(1, nullptr, [&](int) {
            auto& R = g_readers[0];
            R.th.store(photon::CURRENT, std::memory_order_release);
            auto& F = g_files[0];
            C.opens = true;
            g_phase = 0; create_fs(pr);
            { auto h = F.shared.exchange(nullptr); delete h; }
            auto file = open_cached(0);
            if (!file) vh::machinery_failure("open failed");
            for (uint64_t off = 0; off < F.size; off += 4096) do_read(R, r, file, 0, off, {4096}, 0);
            uint64_t past = (F.size + 4095) / 4096 * 4096 + 4096 * r.below(3);
            static_cast<ICachedFile*>(file)->evict(past, (size_t)-1);
            c_trims.add(); c_trunc_trims.add();
            delete file;
            destroy_fs();
            g_phase = 1; create_fs(pr);
            { auto h = F.shared.exchange(nullptr); delete h; }
            file = open_cached(0);
            if (!file) vh::machinery_failure("open failed");
            for (int i = 0; i < 200; ++i) {
                uint64_t off = r.chance(1, 2) ? F.size - r.below(5000) : gen_offset(r, F);
                int api = 0;
                auto split = gen_split(r, r.range(1, 9000), api);
                do_read(R, r, file, 0, off, split, api);
            }
            delete file;
            destroy_fs();
            R.th.store(nullptr, std::memory_order_release);
        });
        vh::set_sig("trimpast|m" + std::to_string(C.mode), false);
        if (own_scratch) rm_rf(scratch);
        return vh::finish();
    }
    if (C.section == 3) {
        // ICacheStore::release() hands the store back to the pool's ObjectCache (store_release) while it still holds the
        // store's own spinlock; the OS-level stall point inside ObjectCacheBase::ref_release widens that window beyond
        // the store TTL (1 ms, as in the repository's own reuse tests) so the ObjectCache timer on the pool's vCPU can run.
        static std::atomic<bool> armed{false};
        photon::verif::g_hooks.point = [](uint32_t id) {
            if (id == photon::verif::P_OBJCACHE_RELEASE && armed.load()) { struct timespec ts = {0, 20 * 1000 * 1000}; nanosleep(&ts, nullptr); }
        };
        vh::VCpus vc2;
        vc2.run(2, nullptr, [&](int v) {
            static std::atomic<int> stage{0};
            if (v == 0) { g_phase = 0; C.opens = true; create_fs(pr); { auto h = g_files[0].shared.exchange(nullptr); delete h; } stage.store(1); while (stage.load() < 2) photon::thread_usleep(500); destroy_fs(); }
            else {
                while (stage.load() < 1) photon::thread_usleep(500);
                for (int i = 0; i < 3; ++i) {
                    auto file = open_cached(0);
                    if (!file) continue;
                    char b[64];
                    file->pread(b, sizeof(b), 0);
                    armed.store(true);
                    delete file;
                    armed.store(false);
                    vh::event(); vh::progress();
                    photon::thread_usleep(5000);
                }
                stage.store(2);
            }
        });
        vh::set_sig("relrace", false);
        if (own_scratch) rm_rf(scratch);
        return vh::finish();
    }
    Bar bar;
    bar.n = C.nv;
    vh::VCpus vc;
    vc.run(C.nv, nullptr, [&](int v) {
        for (int ph = 0; ph < C.phases; ++ph) {
            if (v == 0) {
                g_phase = ph;
                for (int i = 0; i < g_nreaders; ++i) { g_readers[i].id = i; g_readers[i].vcpu = i % C.nv; }
                g_readers_left.store(g_nreaders, std::memory_order_release);
                create_fs(pr);
                if (ph > 0) {
                    // first reads under a pool instance that reuses the directory, before anything else runs
                    auto& R = g_readers[0];
                    R.th.store(photon::CURRENT, std::memory_order_release);
                    for (int f = 0; f < C.nfiles; ++f) {
                        IFile* h = g_files[f].shared.load(std::memory_order_acquire);
                        IFile* tmp = (!h && C.opens) ? open_cached(f) : nullptr;
                        if (!h) h = tmp;
                        for (int k = 0; h && k < 6; ++k) {
                            int api = 0;
                            auto split = gen_split(pr, gen_len(pr), api);
                            do_read(R, pr, h, f, gen_offset(pr, g_files[f]), split, api);
                        }
                        delete tmp;
                    }
                    R.th.store(nullptr, std::memory_order_release);
                }
            }
            bar.wait();
            std::vector<join_handle*> jh;
            for (int i = v; i < g_nreaders; i += C.nv)
                jh.push_back(thread_enable_join(thread_create(reader_main, &g_readers[i], 1024 * 1024)));
            for (int e = 0; e < C.n_evictors; ++e)
                if (e % C.nv == (v + 1) % C.nv || C.nv == 1)
                    jh.push_back(thread_enable_join(thread_create(evictor_main, (void*)(uint64_t)e, 1024 * 1024)));
            if (C.trimmer && v == C.nv - 1)
                jh.push_back(thread_enable_join(thread_create(trimmer_main, nullptr, 1024 * 1024)));
            for (auto h : jh) thread_join(h);
            bar.wait();
            if (v == 0) destroy_fs();
        }
    });

    // ---- signature / non-triviality
    uint64_t waited = vh::cov(C_RANGELOCK_WAITED);
    // non-trivial: at least two of the four designated rare paths were taken
    int kinds = (c_partly.get() > 0) + (waited > 0) + (c_evict_during.get() > 0 || c_evict_inflight.get() > 0) + (c_reuse_hit.get() > 0);
    bool nontrivial = kinds >= 2 && !C.bigiov;
    auto b = [](int64_t v) { return std::to_string(vh::log2bucket(v)); };
    vh::set_sig(std::string(C.bigiov ? "bigiov" : "main") + "|v" + std::to_string(C.nv) + "|u" + std::to_string(C.unit) + "|m" + std::to_string(C.mode) +
                    "|cap" + std::to_string(C.cap_gb) + (C.floor_bytes ? "|floor" : "") + "|w" + std::to_string(C.media_wrap) +
                    "|partly:" + b(c_partly.get()) + "|wait:" + b(waited) + "|evd:" + b(c_evict_during.get()) + "|evi:" + b(c_evict_inflight.get()) +
                    "|reuse:" + b(c_reuse_hit.get()) + "|fault:" + b(c_fault_fail.get() + c_fault_prefix.get()) + "|trim:" + b(c_trims.get()),
                nontrivial);
    vh::sample(vh::JObj().raw("config", cfg_json()).kv("reads", c_reads.get()).kv("fully_cached", c_hit.get()).kv("partly_cached", c_partly.get())
                   .kv("absent", c_miss.get()).kv("rangelock_waits", waited).kv("reads_spanning_eviction", c_evict_during.get())
                   .kv("served_from_reused_dir", c_reuse_hit.get()).kv("failed_or_prefix_after_fault", c_fault_fail.get() + c_fault_prefix.get())
                   .kv("source_reads", c_src_reads.get()).kv("source_reads_beyond_size", c_src_beyond.get()).str());
    if (own_scratch) rm_rf(scratch);
    return vh::finish();
}
