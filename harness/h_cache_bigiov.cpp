// C17 targeted probe: cached preadv/preadv2 with 64 iovec segments (section "bigiov" of h_cache.cpp)
#define H_CACHE_SECTION "bigiov"
#include "h_cache.cpp"
