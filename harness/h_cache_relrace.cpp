// C17 targeted probe: last release of a cache store vs. the expiry timer of the pool's store cache (section "relrace" of h_cache.cpp)
#define H_CACHE_SECTION "relrace"
#include "h_cache.cpp"
