// C17 targeted probe: to-end trim at an aligned offset at/after EOF, then reuse of the cache directory (section "trimpast" of h_cache.cpp)
#define H_CACHE_SECTION "trimpast"
#include "h_cache.cpp"
