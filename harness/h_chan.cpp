// C09 - photon::channel<T> (thread/go.h), buffered and unbuffered.
// One execution = one channel, S senders, R receivers on 1-3 vCPUs, one close().
// Oracles (DESIGN.md 3, C09), all decided at the API boundary:
//  1 exactly once : every value whose send/try_send returned true is received exactly once (receivers run until recv
//                   reports closed, then the main thread drains); no value twice; nothing received that was never
//                   attempted; a value whose send returned false stays "open" (may be delivered, at most once).
//  2 order        : per (sender, receiver) increasing sequence numbers, and in real time (a later value of a sender
//                   must not have been returned before the recv that got an earlier one was even called).
//  3 cause        : send/recv == false only if close() had been requested before the return, or the call was timed and
//                   CLOCK_BOOTTIME >= Timeout::expiration() (buffered calls re-base the deadline internally: 5 ms slack);
//                   a recv that reports closed does so only after every value that was sent(true) before close() was
//                   called (or before that recv was called) has been handed to a recv call (buffered channels).
//  4 release      : bounded-progress form. The workload is demand driven (a sender does not go on before the values of its
//                   burst were received; close() waits for the outstanding values), so a missed wake-up is not repaired by
//                   later traffic; the stuck detector then proves it from the ledger: receiver blocked in an untimed
//                   recv while size() > 0 / while a sender is blocked in an untimed send; sender blocked while a slot is free.
//  5 memory       : values own heap memory in some executions (ASan: double free / use after free of the cells).
// Known defect (unbuffered rendezvous slot overwritten, see repro/C09_unbuffered_slot_overwrite.cpp) is confined to the
// execution classes "unbuf-ms" (>= 2 senders) and "unbuf-try" (one sender, send() right after a successful try_send());
// class "unbuf-1s" (one sender that waits for the pick-up of a try_send()) and the buffered class on ONE vCPU must be clean.
// Buffered channels shared across vCPUs carry the second known defect (waiter registers after its check and never
// re-checks: repro/C09_buffered_lost_wakeup.cpp); their keys end in ":cross-vcpu".
#include "vh.h"
#include <photon/thread/go.h>
#include <photon/common/timeout.h>

using namespace photon;

static vh::NamedCounter c_send_true("send_true"), c_send_timeout("send_timeout"), c_send_closed("send_false_closed"),
    c_try_send_true("try_send_true"), c_try_send_false("try_send_false"), c_recv_true("recv_true"), c_recv_timeout("recv_timeout"),
    c_recv_closed("recv_reported_closed"), c_try_recv_true("try_recv_true"), c_try_recv_false("try_recv_false"),
    c_two_senders("unbuf_two_senders_inside_send"), c_to_handoff_s("unbuf_send_timeout_with_receiver_inside_recv"),
    c_to_handoff_r("unbuf_recv_timeout_with_sender_inside_send"), c_close_items("close_with_buffered_items"),
    c_drained_after_close("values_received_by_calls_made_after_close"),
    c_sent_before_recv_after("values_sent_before_close_and_received_after"), c_final_drain("values_found_by_final_drain"),
    c_send_full_ok("send_true_called_on_full_buffer"), c_recv_empty_ok("recv_true_called_on_empty_channel"),
    c_after_false("delivered_although_send_returned_false"), c_overwrite_ev("slot_overwrite_events"),
    c_lost("values_lost"), c_leaked("heap_cells_still_alive_at_end"), c_script_steps("script_steps"),
    c_clean_execs("executions_of_clean_classes"), c_defect_execs("executions_of_known_defect_classes"), c_gate_waits("gate_waits");

// ------------------------------------------------------------------ the value type
static std::atomic<int64_t> g_val_live{0};
struct Val {
    uint64_t id = 0;
    uint64_t* heap = nullptr;               // owns two words when non-null
    Val() {}
    Val(uint64_t i, bool h) : id(i) { if (h) alloc(i, ~i); }
    Val(const Val& o) : id(o.id) { if (o.heap) alloc(o.heap[0], o.heap[1]); }
    Val(Val&& o) noexcept : id(o.id), heap(o.heap) { o.heap = nullptr; o.id = 0; }
    Val& operator=(const Val& o) { if (this != &o) { drop(); id = o.id; if (o.heap) alloc(o.heap[0], o.heap[1]); } return *this; }
    Val& operator=(Val&& o) noexcept { if (this != &o) { drop(); id = o.id; heap = o.heap; o.heap = nullptr; o.id = 0; } return *this; }
    ~Val() { drop(); }
    void alloc(uint64_t a, uint64_t b) { heap = new uint64_t[2]{a, b}; g_val_live.fetch_add(1, vh::MO); }
    void drop() { if (heap) { delete[] heap; heap = nullptr; g_val_live.fetch_sub(1, vh::MO); } }
};
constexpr uint64_t MAGIC = 0xC09Aull << 48;
static uint64_t mkid(int s, uint64_t q) { return MAGIC | ((uint64_t)s << 40) | q; }

// ------------------------------------------------------------------ ledger
enum { ST_NONE = 0, ST_STARTED, ST_TRUE, ST_FALSE };
enum Op { OP_NONE = 0, OP_SEND, OP_SEND_T, OP_TRY_SEND, OP_RECV, OP_RECV_T, OP_TRY_RECV };
static const char* op_name[] = {"-", "send", "send(timeout)", "try_send", "recv", "recv(timeout)", "try_recv"};

struct Cell {
    std::atomic<uint8_t> state{ST_NONE}, how{0};
    std::atomic<uint16_t> recvd{0};
    std::atomic<int16_t> receiver{-1};
    std::atomic<uint64_t> send_ret{0}, recv_call{0}, recv_ret{0};
};
constexpr int MAXS = 4, MAXR = 4;
struct Actor {
    int id = 0, idx = 0, vcpu = 0;
    bool sender = false;
    int p_untimed = 0, p_timed = 0;         // per cent; the rest is try_*
    int tempo = 0;                          // pacing between operations
    uint64_t quota = 0;
    Cell* cells = nullptr;                  // senders
    int64_t last_seq[MAXS];                 // receivers: last sequence number seen per sender (private)
    std::atomic<int> in_op{OP_NONE};
    std::atomic<uint64_t> op_no{0};
    std::atomic<bool> done{false}, idle{false};
    semaphore go;                           // script mode: one token = one operation
    uint64_t closed_b = 0, closed_e = 0;    // receivers: interval of the recv that reported closed
    bool got_closed = false;
};
static Actor g_act[MAXS + MAXR + 1];
static int g_S = 0, g_R = 0, g_nact = 0;
static Actor& snd(int s) { return g_act[s]; }
static Actor& rcv(int r) { return g_act[g_S + r]; }

enum Cls { CLS_UNBUF_1S = 0, CLS_UNBUF_MS, CLS_UNBUF_TRY, CLS_BUF };
static const char* cls_name[] = {"unbuf-1s", "unbuf-ms", "unbuf-try", "buf"};
static int g_cls = 0, g_nv = 1;
static size_t g_cap = 0;
static bool g_heap = false, g_script = false, g_close_mid = false, g_await_all = false;
static int g_gate = 0;                      // 0 none, 1 sender waits until the values of its burst were received
static uint64_t g_close_after_attempts = 0;
static uint64_t g_slack_us = 0;
static channel<Val>* g_ch = nullptr;
static std::atomic<bool> g_ch_alive{false};

static std::atomic<uint64_t> g_stamp{0};
static std::atomic<uint64_t> g_attempts{0};
static std::atomic<int> g_in_send{0}, g_in_recv{0};     // threads inside a blocking send / recv call
static std::atomic<bool> g_close_requested{false}, g_close_returned{false};
static std::atomic<uint64_t> g_close_stamp{0};
static std::atomic<int> g_senders_done{0}, g_actors_done{0};
static std::string g_script_log;

static inline uint64_t stamp() {
    asm volatile("" ::: "memory");
    auto s = g_stamp.fetch_add(1, vh::MO) + 1;
    asm volatile("" ::: "memory");
    return s;
}
static const char* chk() { return g_cap ? "buffered" : "unbuffered"; }
// the waiter registration of the buffered channel races only with another vCPU: keep the two cases apart
static const char* vsfx() { return g_nv > 1 ? ":cross-vcpu" : ":one-vcpu"; }
static std::string defect_suffix() {
    return g_cls == CLS_UNBUF_MS ? "two-queued-senders" : g_cls == CLS_UNBUF_TRY ? "send-after-try_send" : g_cls == CLS_UNBUF_1S ? "single-sender" : "";
}

static uint64_t pick_timeout(vh::Rng& r) {
    return r.pick<uint64_t>({0, 1, r.range(5, 300), r.range(5, 300), r.range(5, 300), r.range(500, 3000)});
}
static void pace(vh::Rng& r, Actor& a) {
    if (g_script) return;                   // the coordinator decides who runs next
    switch (a.tempo) {
    case 0: if (r.chance(1, 8)) thread_yield(); break;
    case 1: if (r.chance(1, 3)) thread_yield(); else if (r.chance(1, 6)) thread_usleep(r.range(1, 30)); break;
    default: if (r.chance(1, 2)) thread_usleep(r.range(1, 80)); else thread_yield(); break;
    }
}
// polling waits of the workload itself: back off, so that a stuck execution sleeps instead of burning CPU
struct Backoff {
    uint64_t us = 10;
    void wait() { thread_usleep(us); if (us < 2000) us *= 2; }
};
static void wait_token(Actor& a) {
    if (!g_script) return;
    a.idle.store(true, std::memory_order_release);
    a.go.wait(1);
}

// ------------------------------------------------------------------ receiving side
static void on_receive(const Val& v, uint64_t b, uint64_t e, Actor* R, int ridx) {
    uint64_t id = v.id;
    int s = (int)((id >> 40) & 0xff);
    uint64_t q = id & ((1ull << 40) - 1);
    if ((id >> 48) != (MAGIC >> 48) || s >= g_S || q >= snd(s).quota) {
        vh::violation(std::string("received/not-a-sent-value:") + chk(), "recv returned true with a value that no sender ever produced",
                      vh::JObj().kv("id", id).kv("receiver", ridx).str());
        return;
    }
    if (v.heap && (v.heap[0] != id || v.heap[1] != ~id))
        vh::violation(std::string("received/corrupted-value:") + chk(), "the heap part of a received value does not match what was sent",
                      vh::JObj().kv("id", id).kv("w0", v.heap[0]).kv("w1", v.heap[1]).str());
    if (g_heap && !v.heap)
        vh::violation(std::string("received/corrupted-value:") + chk(), "a received value lost its heap part", vh::JObj().kv("id", id).str());
    Cell& c = snd(s).cells[q];
    auto st = c.state.load(vh::MO);
    if (st == ST_NONE)
        vh::violation(std::string("received/never-sent:") + chk(), "a value was received whose send had not even been called",
                      vh::JObj().kv("sender", s).kv("seq", q).kv("receiver", ridx).str());
    auto prev = c.recvd.fetch_add(1, vh::MO);
    if (prev > 0) {
        vh::violation(std::string("duplicate-delivery:") + chk(), "one value was returned by two successful recv calls",
                      vh::JObj().kv("sender", s).kv("seq", q).kv("receiver", ridx).kv("first_receiver", (int)c.receiver.load()).str());
    } else {
        c.receiver.store((int16_t)ridx, vh::MO);
        c.recv_call.store(b, vh::MO);
        c.recv_ret.store(e, vh::MO);
    }
    if (R) {
        if ((int64_t)q <= R->last_seq[s])
            vh::violation(std::string("order/per-sender-and-receiver:") + chk(), "a receiver got two values of one sender in the wrong order",
                          vh::JObj().kv("sender", s).kv("seq", q).kv("previous_seq", R->last_seq[s]).kv("receiver", ridx).str());
        R->last_seq[s] = (int64_t)q;
    }
    auto cs = g_close_stamp.load(vh::MO);
    if (cs && b > cs) c_drained_after_close.add();
}

static void* receiver_main(void* arg) {
    auto& a = *(Actor*)arg;
    vh::Rng r(vh::mix(vh::args().xseed(), 200 + a.id));
    bool finishing = false;                 // after close() was seen requested: untimed recv only, until it reports closed
    for (;;) {
        wait_token(a);
        int k = r.below(100);
        Op op = finishing ? OP_RECV : k < a.p_untimed ? OP_RECV : k < a.p_untimed + a.p_timed ? OP_RECV_T : OP_TRY_RECV;
        Val v;
        bool ok;
        Timeout t;
        a.op_no.fetch_add(1, vh::MO);
        vh::event();
        bool was_empty = g_cap ? g_ch->size() == 0 : true;
        int senders_inside = 0;
        uint64_t b = stamp();
        if (op == OP_TRY_RECV) {
            ok = g_ch->try_recv(v);
        } else {
            if (op == OP_RECV_T) t = Timeout(pick_timeout(r));
            senders_inside = g_in_send.load(vh::MO);
            g_in_recv.fetch_add(1, vh::MO);
            a.in_op.store(op, vh::MO);
            ok = g_ch->recv(v, t);
            a.in_op.store(OP_NONE, vh::MO);
            g_in_recv.fetch_sub(1, vh::MO);
        }
        uint64_t rt = vh::boottime_us();
        bool cr = g_close_requested.load(std::memory_order_acquire);
        uint64_t e = stamp();
        if (ok) {
            (op == OP_TRY_RECV ? c_try_recv_true : c_recv_true).add();
            if (op != OP_TRY_RECV && was_empty) c_recv_empty_ok.add();
            on_receive(v, b, e, &a, a.idx);
            vh::progress();
        } else if (op == OP_TRY_RECV) {
            c_try_recv_false.add();
            if (cr) finishing = true;
            else if (!g_script) { if (r.chance(1, 2)) thread_yield(); else thread_usleep(r.range(1, 30)); }
        } else {
            bool timeout_ok = op == OP_RECV_T && (t.expiration() == 0 || rt + g_slack_us >= t.expiration());
            if (!timeout_ok && !cr) {
                vh::violation(std::string("recv/false-without-cause:") + chk() + (op == OP_RECV_T ? ":timed" : ":untimed"),
                              "recv returned false although close() had not been requested and no deadline had passed",
                              vh::JObj().kv("op", op_name[op]).kv("expiration", t.expiration()).kv("clock", rt).kv("errno", errno).str());
            } else if (timeout_ok && !cr) {
                c_recv_timeout.add();
                if (!g_cap && senders_inside > 0 && g_in_send.load(vh::MO) > 0) c_to_handoff_r.add();
            } else if (!timeout_ok) {       // only close() explains it: a definite "closed" report
                c_recv_closed.add();
                a.closed_b = b; a.closed_e = e; a.got_closed = true;
                break;
            } else {
                finishing = true;           // could be either; the next untimed recv decides
            }
        }
        if (cr) finishing = true;
        pace(r, a);
    }
    a.done.store(true, std::memory_order_release);
    g_actors_done.fetch_add(1, std::memory_order_acq_rel);
    vh::progress();
    return nullptr;
}

// ------------------------------------------------------------------ sending side
static bool close_seen() { return g_close_requested.load(std::memory_order_acquire); }
static bool g_last_sender_closes = false;   // the producer-closes idiom: whoever finishes last calls close() at once

static void do_close() {
    if (g_cap && g_ch->size() > 0) c_close_items.add();
    g_close_requested.store(true, std::memory_order_release);
    g_close_stamp.store(stamp(), vh::MO);
    g_ch->close();
    g_close_returned.store(true, std::memory_order_release);
    vh::progress();
}

static void* sender_main(void* arg) {
    auto& a = *(Actor*)arg;
    vh::Rng r(vh::mix(vh::args().xseed(), 100 + a.id));
    uint64_t burst_begin = 0, burst_len = r.range(1, 12);
    for (uint64_t q = 0; q < a.quota; ++q) {
        wait_token(a);
        if (close_seen() && r.chance(3, 4)) break;          // mostly stop; sometimes send into the closed channel
        int k = r.below(100);
        Op op = k < a.p_untimed ? OP_SEND : k < a.p_untimed + a.p_timed ? OP_SEND_T : OP_TRY_SEND;
        Cell& c = a.cells[q];
        c.how.store((uint8_t)op, vh::MO);
        c.state.store(ST_STARTED, vh::MO);
        g_attempts.fetch_add(1, vh::MO);
        a.op_no.fetch_add(1, vh::MO);
        vh::event();
        Val v(mkid(a.idx, q), g_heap);
        bool ok;
        Timeout t;
        bool was_full = g_cap && g_ch->size() >= g_cap;
        int receivers_inside = 0;
        if (op == OP_TRY_SEND) {
            ok = r.chance(1, 2) ? g_ch->try_send(v) : g_ch->try_send(Val(v));
        } else {
            if (op == OP_SEND_T) t = Timeout(pick_timeout(r));
            receivers_inside = g_in_recv.load(vh::MO);
            if (g_in_send.fetch_add(1, vh::MO) >= 1 && !g_cap) c_two_senders.add();
            a.in_op.store(op, vh::MO);
            ok = r.chance(1, 2) ? g_ch->send(v, t) : g_ch->send(Val(v), t);
            a.in_op.store(OP_NONE, vh::MO);
            g_in_send.fetch_sub(1, vh::MO);
        }
        uint64_t rt = vh::boottime_us();
        bool cr = close_seen();
        if (ok) {
            c.send_ret.store(stamp(), vh::MO);
            c.state.store(ST_TRUE, vh::MO);
            (op == OP_TRY_SEND ? c_try_send_true : c_send_true).add();
            if (op != OP_TRY_SEND && was_full) c_send_full_ok.add();
            vh::progress();
            if (op == OP_TRY_SEND && g_cls == CLS_UNBUF_1S) {
                // clean class: a value put into the rendezvous slot by try_send() is picked up before this sender goes on
                Backoff bo;
                while (c.recvd.load(vh::MO) == 0 && !close_seen()) bo.wait();
            }
        } else {
            c.state.store(ST_FALSE, vh::MO);
            if (op == OP_TRY_SEND) {
                c_try_send_false.add();
                if (!g_script) { if (r.chance(1, 2)) thread_yield(); else thread_usleep(r.range(1, 30)); }
            } else {
                bool timeout_ok = op == OP_SEND_T && (t.expiration() == 0 || rt + g_slack_us >= t.expiration());
                if (!timeout_ok && !cr)
                    vh::violation(std::string("send/false-without-cause:") + chk() + (op == OP_SEND_T ? ":timed" : ":untimed"),
                                  "send returned false although close() had not been requested and no deadline had passed",
                                  vh::JObj().kv("op", op_name[op]).kv("expiration", t.expiration()).kv("clock", rt).kv("errno", errno).str());
                else if (timeout_ok && !cr) {
                    c_send_timeout.add();
                    if (!g_cap && receivers_inside > 0 && g_in_recv.load(vh::MO) > 0) c_to_handoff_s.add();
                } else c_send_closed.add();
            }
        }
        // demand-driven: the next burst starts only after the values of this one were received
        if (g_gate && (q + 1 - burst_begin >= burst_len || q + 1 == a.quota)) {
            for (uint64_t i = burst_begin; i <= q; ++i) {
                if (a.cells[i].state.load(vh::MO) != ST_TRUE) continue;
                bool waited = false;
                Backoff bo;
                while (a.cells[i].recvd.load(vh::MO) == 0 && !close_seen()) { waited = true; bo.wait(); }
                if (waited) c_gate_waits.add();
            }
            burst_begin = q + 1;
            burst_len = r.range(1, 12);
            if (r.chance(1, 4) && !g_script) thread_usleep(r.range(20, 200));      // let the receivers run dry
        }
        if (q + 1 < a.quota) pace(r, a);
    }
    a.done.store(true, std::memory_order_release);
    bool last = g_senders_done.fetch_add(1, std::memory_order_acq_rel) + 1 == g_S;
    if (last && g_last_sender_closes && !close_seen()) do_close();
    g_actors_done.fetch_add(1, std::memory_order_acq_rel);
    vh::progress();
    return nullptr;
}

// ------------------------------------------------------------------ close()
static void* closer_main(void*) {
    vh::Rng r(vh::mix(vh::args().xseed(), 300));
    Backoff bo;
    if (g_close_mid) {
        while (g_attempts.load(vh::MO) < g_close_after_attempts && g_senders_done.load(std::memory_order_acquire) < g_S) {
            bo.wait();
            if (bo.us > 1000) bo.us = 1000;
        }
        // prefer a moment at which the buffer holds items (bounded number of looks)
        for (int i = 0; g_cap && i < 400 && g_ch->size() == 0 && g_senders_done.load(std::memory_order_acquire) < g_S; ++i) thread_yield();
    } else {
        while (g_senders_done.load(std::memory_order_acquire) < g_S) { bo.wait(); if (bo.us > 500) bo.us = 500; }
        if (g_await_all) {
            // demand-driven end: close only after every value reported sent was received (a receiver that missed its
            // wake-up is then not rescued by close())
            for (int s = 0; s < g_S; ++s)
                for (uint64_t q = 0; q < snd(s).quota; ++q) {
                    auto& c = snd(s).cells[q];
                    if (c.state.load(vh::MO) != ST_TRUE) continue;
                    for (Backoff b2; c.recvd.load(vh::MO) == 0;) b2.wait();
                }
        }
    }
    if (g_last_sender_closes) {
        for (Backoff b3; !g_close_returned.load(std::memory_order_acquire);) { b3.wait(); if (b3.us > 500) b3.us = 500; }
        return nullptr;
    }
    do_close();
    return nullptr;
}

// ------------------------------------------------------------------ script mode: the coordinator decides the arrival order
static void* coordinator_main(void*) {
    vh::Rng r(vh::mix(vh::args().xseed(), 400));
    std::vector<int> idle;
    Backoff bo;
    while (g_actors_done.load(std::memory_order_acquire) < g_nact) {
        idle.clear();
        for (int i = 0; i < g_nact; ++i)
            if (!g_act[i].done.load(std::memory_order_acquire) && g_act[i].idle.load(std::memory_order_acquire)) idle.push_back(i);
        if (idle.empty()) {
            if (bo.us <= 40 && r.chance(1, 2)) { thread_yield(); bo.us *= 2; } else bo.wait();
            continue;
        }
        bo.us = 10;
        int n = std::min<int>((int)idle.size(), (int)r.range(1, 3));
        for (int j = 0; j < n; ++j) {
            int pos = (int)r.below(idle.size());
            int i = idle[pos];
            idle.erase(idle.begin() + pos);
            auto& a = g_act[i];
            a.idle.store(false, std::memory_order_release);
            if (g_script_log.size() < 400) g_script_log += std::string(a.sender ? "S" : "R") + std::to_string(a.idx) + " ";
            c_script_steps.add();
            a.go.signal(1);
        }
        switch (r.below(4)) {
        case 0: break;                                      // issue more before anybody runs
        case 1: case 2: thread_yield(); break;              // let them arrive in this order
        default: thread_usleep(r.range(1, 100)); break;     // let them run into their waits / time-outs
        }
    }
    return nullptr;
}

// ------------------------------------------------------------------ stuck detector
static bool on_stuck(std::string& key, std::string& what, std::string& wit) {
    int sb = 0, rb = 0, sdone = g_senders_done.load();
    vh::JArr acts;
    for (int i = 0; i < g_nact + 1; ++i) {
        auto& a = g_act[i];
        int op = a.in_op.load();
        if (op == OP_SEND) sb++;
        if (op == OP_RECV) rb++;
        acts.raw(vh::JObj().kv("actor", std::string(i == g_nact ? "main" : a.sender ? "S" : "R") + std::to_string(a.idx)).kv("vcpu", a.vcpu)
                     .kv("inside", op_name[op]).kv("ops", a.op_no.load()).kv("done", a.done.load()).kv("idle", a.idle.load()).str());
    }
    uint64_t n_true = 0, n_unreceived = 0;
    for (int s = 0; s < g_S; ++s)
        for (uint64_t q = 0; q < snd(s).quota; ++q) {
            auto& c = snd(s).cells[q];
            if (c.state.load() == ST_TRUE) { n_true++; if (c.recvd.load() == 0) n_unreceived++; }
        }
    bool alive = g_ch_alive.load();
    size_t size = alive && g_cap ? g_ch->size() : 0;
    bool closed = g_close_returned.load();
    wit = vh::JObj().kv("class", cls_name[g_cls]).kv("capacity", (uint64_t)g_cap).kv("size", (uint64_t)size)
              .kv("untimed_senders_blocked", sb).kv("untimed_receivers_blocked", rb).kv("senders_done", sdone).kv("senders", g_S)
              .kv("close_requested", g_close_requested.load()).kv("close_returned", closed)
              .kv("sent_true", n_true).kv("sent_true_not_received", n_unreceived)
              .kv("slot_overwrite_events", (int64_t)c_overwrite_ev.get()).raw("actors", acts.str()).str();
    auto sfx = defect_suffix();
    if (!alive) { key = "chan-workload"; what = "no progress after the channel was destroyed"; return false; }
    if (g_cap) {
        if (rb > 0 && size > 0) {
            key = std::string("buffered/lost-wakeup:receiver-blocked-with-items") + vsfx();
            what = "a receiver stays blocked in an untimed recv() although the buffer holds items";
            return true;
        }
        if (sb > 0 && size < g_cap && !closed) {
            key = std::string("buffered/lost-wakeup:sender-blocked-with-free-slot") + vsfx();
            what = "a sender stays blocked in an untimed send() although the buffer has a free slot";
            return true;
        }
        if (closed && (sb > 0 || rb > 0)) {
            key = std::string("buffered/blocked-after-close:") + (rb ? "receiver" : "sender") + vsfx();
            what = "close() returned, yet a thread stays blocked in an untimed send/recv: it never reports closed";
            return true;
        }
        if (n_unreceived > 0 && size == 0) {
            // nothing is in flight after seconds of silence: the value is neither received nor buffered
            key = "buffered/value-lost:not-in-buffer-at-stall";
            what = "a value reported sent was never received and the buffer is empty (somebody waits for its delivery)";
            return true;
        }
    } else {
        if (sb > 0 && rb > 0) {
            key = "unbuffered/lost-wakeup:" + sfx;
            what = "a sender stays blocked in an untimed send() while a receiver stays blocked in an untimed recv()";
            return true;
        }
        if (closed && (sb > 0 || rb > 0)) {
            key = std::string("unbuffered/blocked-after-close:") + (rb ? "receiver" : "sender") + ":" + sfx;
            what = "close() returned, yet a thread stays blocked in an untimed send/recv: it never reports closed";
            return true;
        }
        if (n_unreceived > 0 && !closed) {
            // only try_send() can report true before the hand-over; receivers keep calling recv / are blocked in it
            key = "unbuffered/value-unreceived-at-stall:" + sfx;
            what = "a value reported sent by try_send() is neither received nor handed to the receivers that keep calling recv";
            return true;
        }
    }
    key = "chan-workload";
    what = "no successful send/recv for the silence window; ledger shows no wake condition";
    return false;
}

// ------------------------------------------------------------------ main

// ---------------------------------------------------------------- fan-out section (buffered channel, one vCPU)
// N receivers each take exactly ONE value per round and then wait for the next round; the sender pushes a burst
// of N values back to back and sends nothing more until all N have been received (demand driven). "A blocked
// receiver is released as soon as an item exists": if some receivers stay blocked in recv() while size() > 0 and
// nobody will send again, the supervisor proves it from the ledger.
namespace fanout {
static photon::channel<uint64_t>* ch = nullptr;
static std::atomic<int> blocked{0}, got_this_round{0}, round_no{0};
static std::atomic<bool> stop{false};
static vh::NamedCounter c_rounds("fanout_rounds"), c_values("fanout_values");
static std::atomic<uint64_t> seen_mask{0};
static void* receiver(void*) {
    int my_round = 0;
    while (!stop.load(std::memory_order_acquire)) {
        while (round_no.load(std::memory_order_acquire) == my_round && !stop.load(std::memory_order_acquire)) photon::thread_usleep(50);
        if (stop.load(std::memory_order_acquire)) break;
        my_round = round_no.load(std::memory_order_acquire);
        uint64_t v = 0;
        blocked.fetch_add(1, vh::MO);
        bool ok = ch->recv(v);
        blocked.fetch_sub(1, vh::MO);
        if (!ok) { if (!stop.load()) vh::violation("buffered/recv-false-without-cause:one-vcpu", "recv() returned false although the channel is open and no timeout was given", "null"); break; }
        uint64_t bit = 1ull << (v & 63);
        if (seen_mask.fetch_or(bit, vh::MO) & bit)
            vh::violation("buffered/duplicate:one-vcpu", "one value was received twice", vh::JObj().kv("value", v).str());
        got_this_round.fetch_add(1, std::memory_order_acq_rel);
        vh::event(); vh::progress();
    }
    return nullptr;
}
static int run(vh::Rng& r) {
    int N = r.range(2, 6);
    size_t cap = r.pick<size_t>({2, 4, 8, 16});
    uint64_t rounds = vh::args().thorough() ? 3000 : 600;
    vh::config("cls", "buffered-fanout"); vh::config("receivers", N); vh::config("cap", (int64_t)cap); vh::config("vcpus", 1);
    photon::vcpu_init();
    ch = new photon::channel<uint64_t>(cap);
    vh::start_supervisor([](std::string& k, std::string& w, std::string& wit) {
        int b = blocked.load();
        size_t sz = ch->size();
        wit = vh::JObj().kv("receivers_blocked_in_recv", b).kv("size", (uint64_t)sz).kv("received_this_round", got_this_round.load()).str();
        if (b > 0 && sz > 0) {
            k = "buffered/lost-wakeup:receiver-blocked-with-items:one-vcpu";
            w = "receivers stay blocked in recv() although the buffer holds items and no further send is coming";
            return true;
        }
        k = "chan-fanout"; w = "fan-out round made no progress";
        return false;
    });
    std::vector<photon::join_handle*> jh;
    for (int i = 0; i < N; ++i) jh.push_back(photon::thread_enable_join(photon::thread_create(receiver, nullptr, 128 * 1024)));
    for (uint64_t rd = 0; rd < rounds; ++rd) {
        int burst = std::min<int>(N, (int)cap);
        seen_mask.store(0, vh::MO);
        got_this_round.store(0, std::memory_order_release);
        round_no.fetch_add(1, std::memory_order_acq_rel);
        // let the receivers block first (most rounds), then push the burst without yielding in between
        if (!r.chance(1, 8)) while (blocked.load(vh::MO) < burst) photon::thread_usleep(30);
        bool use_try = r.chance(1, 2);
        for (int i = 0; i < burst; ++i) {
            bool ok = use_try ? ch->try_send((uint64_t)i) : ch->send((uint64_t)i);
            if (!ok) { if (use_try) ok = ch->send((uint64_t)i); }
            if (!ok) vh::violation("buffered/send-false-without-cause:one-vcpu", "send() returned false on an open channel without timeout", "null");
            c_values.add();
        }
        // receivers beyond the burst (cap < N) get their value in a second wave once there is room
        for (int i = burst; i < N; ++i) { if (!ch->send((uint64_t)i)) vh::violation("buffered/send-false-without-cause:one-vcpu", "send() returned false", "null"); c_values.add(); }
        while (got_this_round.load(std::memory_order_acquire) < N) photon::thread_usleep(30);      // the supervisor watches this
        c_rounds.add();
    }
    stop.store(true, std::memory_order_release);
    ch->close();
    for (auto h : jh) photon::thread_join(h);
    delete ch;
    photon::vcpu_fini();
    vh::set_sig("fanout|n" + std::to_string(N) + "|cap" + std::to_string(cap), c_rounds.get() > 0);
    vh::sample(vh::JObj().kv("cls", "buffered-fanout").kv("receivers", N).kv("cap", (int64_t)cap).kv("rounds", c_rounds.get()).str());
    return vh::finish();
}
}  // namespace fanout


// ------------------------------------------------------------------ scripted: close() right after a successful try_send()
// One sender, one receiver, one vCPU, capacity 0 or small. The receiver is blocked in recv(); the sender's try_send()
// returns true (the value is in the slot / buffer) and the channel is closed before the receiver runs again. A value
// reported as sent has to be delivered: the receiver gets it, and only its next recv() reports the closed channel.
namespace tsclose {
struct Ctl { photon::channel<uint64_t>* ch; bool timed; std::atomic<int> in_recv{0}; int got = 0; uint64_t val = 0; bool second = true; };
static vh::NamedCounter c_rounds("try_send_then_close_rounds"), c_sent("try_send_then_close_values_accepted");
static void* receiver(void* a) {
    auto& c = *(Ctl*)a;
    uint64_t v = ~0ull;
    c.in_recv.store(1, vh::MO);
    bool ok = c.timed ? c.ch->recv(v, photon::Timeout(2 * 1000 * 1000)) : c.ch->recv(v);
    c.got = ok; c.val = v;
    uint64_t w = 0;
    c.second = c.timed ? c.ch->recv(w, photon::Timeout(2 * 1000 * 1000)) : c.ch->recv(w);
    vh::event(); vh::progress();
    return nullptr;
}
static int run(vh::Rng& r) {
    uint64_t rounds = vh::args().thorough() ? 2000 : 400;
    vh::config("cls", "try_send-then-close"); vh::config("vcpus", 1);
    photon::vcpu_init();
    vh::start_supervisor([](std::string& k, std::string& w, std::string&) { k = "chan-try_send-close"; w = "scripted round made no progress"; return false; });
    for (uint64_t rd = 0; rd < rounds; ++rd) {
        size_t cap = r.pick<size_t>({0, 0, 0, 1, 4});
        Ctl c; c.ch = new photon::channel<uint64_t>(cap); c.timed = r.chance(1, 2);
        auto th = photon::thread_create(receiver, &c, 128 * 1024);
        auto jh = photon::thread_enable_join(th);
        while (!c.in_recv.load(vh::MO) || photon::thread_stat(th) != photon::SLEEPING) photon::thread_yield();
        uint64_t v = 1000 + rd;
        bool sent = c.ch->try_send(v);
        int between = r.below(3);               // 0: close at once; 1: one yield first (the receiver takes the value); 2: short sleep first
        if (between == 1) photon::thread_yield(); else if (between == 2) photon::thread_usleep(50);
        c.ch->close();
        photon::thread_join(jh);
        std::string tag = std::string(cap ? "buffered" : "unbuffered") + (c.timed ? ":timed-recv" : ":untimed-recv");
        if (sent) {
            c_sent.add();
            if (!c.got || c.val != v)
                vh::violation("close/value-accepted-by-try_send-not-delivered:" + tag,
                              "try_send() returned true while a receiver was blocked, the channel was closed next, and the receiver did not get the value",
                              vh::JObj().kv("recv_returned", c.got).kv("value", c.val).kv("expected", v).kv("scheduling_before_close", between).str());
            else if (c.second)
                vh::violation("close/recv-true-on-closed-empty-channel:" + tag, "a second recv() on the closed, drained channel returned true", "null");
        } else if (c.got)
            vh::violation("close/value-from-nowhere:" + tag, "recv() returned a value although the only try_send() had returned false", "null");
        delete c.ch;
        c_rounds.add();
    }
    photon::vcpu_fini();
    vh::set_sig("tsclose", c_sent.get() > 0);
    vh::sample(vh::JObj().kv("cls", "try_send-then-close").kv("rounds", c_rounds.get()).kv("values_accepted", c_sent.get()).str());
    return vh::finish();
}
}  // namespace tsclose

int main(int argc, char** argv) {
    vh::init(argc, argv);
    {
        auto& A0 = vh::args();
        if (A0.has("cls") ? A0.gets("cls", "") == "tsclose" : (A0.exec % 16 == 13)) {
            vh::Rng r0(A0.xseed());
            return tsclose::run(r0);
        }
    }
    {
        auto& A0 = vh::args();
        if (A0.has("cls") ? A0.gets("cls", "") == "fanout" : (A0.exec % 16 == 5)) {
            vh::Rng r0(A0.xseed());
            return fanout::run(r0);
        }
    }
    auto& A = vh::args();
    vh::Rng r(A.xseed());
    static const int cls_of_exec[8] = {CLS_UNBUF_1S, CLS_BUF, CLS_UNBUF_MS, CLS_BUF, CLS_UNBUF_1S, CLS_BUF, CLS_UNBUF_TRY, CLS_BUF};
    g_cls = (int)A.geti("cls", cls_of_exec[A.exec % 8]);
    if (g_cls == CLS_UNBUF_TRY && !A.has("cls") && (A.exec / 8) % 2) g_cls = CLS_UNBUF_MS;
    g_cap = g_cls == CLS_BUF ? (size_t)A.geti("cap", r.pick({1, 1, 2, 2, 8})) : 0;
    g_S = g_cls == CLS_UNBUF_MS ? (int)r.range(2, 4) : (g_cls == CLS_BUF ? (int)r.range(1, 4) : 1);
    g_S = (int)A.geti("senders", g_S);
    g_R = (int)A.geti("receivers", r.range(1, 4));
    int nv = (int)r.pick({1, 1, 2, 2, 3});
    if (vh::is_tsan() && nv == 1) nv = 2;               // the TSan runs are there for the cross-vCPU sharing
    nv = (int)A.geti("vcpus", nv);
    g_nv = nv;
    g_heap = A.geti("heap", r.chance(1, 2));
    g_script = A.geti("script", r.chance(1, 3));
    // close(): mid-stream / right after the senders finished (the producer-closes idiom: buffered items are drained
    // after close) / only after every value was received (demand-driven end: close() cannot rescue a missed wake-up)
    int close_mode = (int)r.below(g_cls == CLS_BUF ? 3 : 5);        // buffered: 1/3 each; unbuffered: 2/5 mid
    g_close_mid = A.geti("close_mid", g_cls == CLS_BUF ? close_mode == 0 : close_mode < 2);
    bool clean = g_cls == CLS_UNBUF_1S || g_cls == CLS_BUF;
    // the known defect loses values: those classes must not wait for them
    g_await_all = A.geti("await_all", clean && !g_close_mid && !(g_cls == CLS_BUF && close_mode == 1));
    g_gate = clean && !g_script && (g_close_mid || g_await_all) ? (int)A.geti("gate", r.chance(2, 3)) : 0;
    g_last_sender_closes = !g_close_mid && !g_await_all;
    g_slack_us = g_cap ? 5000 : 0;
    uint64_t total = A.geti("ops", A.thorough() ? 12000 : 4000);
    if (vh::is_tsan()) total /= 4;
    total /= A.shape_div();
    if (g_script) total /= 2;
    if (!g_cap && nv > 1) total /= 2;                   // every hand-off costs several cross-vCPU wake-ups
    if (total < 40) total = 40;
    g_close_after_attempts = total * r.range(20, 90) / 100;
    g_nact = g_S + g_R;
    std::string styles;
    for (int i = 0; i < g_nact; ++i) {
        auto& a = g_act[i];
        a.id = i;
        a.sender = i < g_S;
        a.idx = a.sender ? i : i - g_S;
        a.vcpu = nv == 1 ? 0 : (r.chance(1, 2) ? i % nv : (int)r.below(nv));
        switch (r.below(4)) {
        case 0: a.p_untimed = 100; a.p_timed = 0; break;
        case 1: a.p_untimed = 50; a.p_timed = 30; break;
        case 2: a.p_untimed = 20; a.p_timed = 60; break;
        default: a.p_untimed = 30; a.p_timed = 30; break;
        }
        if (g_cls == CLS_UNBUF_TRY && a.sender) { a.p_untimed = 40; a.p_timed = 20; }     // try_send followed by send
        a.tempo = (int)r.below(3);
        if (g_last_sender_closes && g_cap && !a.sender) a.tempo = 2;      // slow consumers: close() finds buffered items
        for (auto& l : a.last_seq) l = -1;
        if (a.sender) {
            a.quota = total / g_S;
            a.cells = new Cell[a.quota];
        }
        styles += std::string(a.sender ? "S" : "R") + std::to_string(a.p_untimed) + "/" + std::to_string(a.p_timed) + "t" + std::to_string(a.tempo) + "v" + std::to_string(a.vcpu) + " ";
    }
    g_act[g_nact].idx = 0; g_act[g_nact].id = g_nact;       // the main thread (final drain)
    (g_cls == CLS_UNBUF_1S || (g_cls == CLS_BUF && nv == 1) ? c_clean_execs : c_defect_execs).add();

    vh::config("class", cls_name[g_cls]); vh::config("capacity", (int64_t)g_cap); vh::config("senders", g_S); vh::config("receivers", g_R);
    vh::config("vcpus", nv); vh::config("heap_values", g_heap); vh::config("script", g_script); vh::config("gate", g_gate);
    vh::config("close", g_close_mid ? "mid-stream" : (g_await_all ? "after-all-received" : "by-last-sender"));
    vh::config("values", total); vh::config("actors", styles);

    using namespace photon::verif;
    g_hooks.event = [](uint32_t id, uint64_t, uint64_t) { if (id == E_CHAN_SLOT_OVERWRITE) c_overwrite_ev.add(); };
    if (nv > 1 || r.chance(1, 4))
        vh::arm_stalls(r, {P_CHAN_SEND_BEFORE_WAIT, P_CHAN_RECV_BEFORE_WAIT, P_SEM_WAIT_AFTER_DEFER, P_SEM_SIGNAL_AFTER_RESUME,
                           P_PRELOCKED_INTERRUPT, P_WAITQ_RESUME, P_MUTEX_LOCK_AFTER_WAKE, P_MUTEX_UNLOCK});
    g_ch = new channel<Val>(g_cap);
    g_ch_alive.store(true);

    vh::VCpus vc;
    vc.run(nv, nullptr, [&](int v) {
        std::vector<join_handle*> jh;
        if (v == 0) vh::start_supervisor(on_stuck);     // all vCPUs are online now (start-up can take seconds on a loaded machine)
        for (int i = 0; i < g_nact; ++i)
            if (g_act[i].vcpu == v)
                jh.push_back(thread_enable_join(thread_create(g_act[i].sender ? sender_main : receiver_main, &g_act[i], 256 * 1024)));
        if (v == 0) {
            jh.push_back(thread_enable_join(thread_create(closer_main, nullptr, 128 * 1024)));
            if (g_script) jh.push_back(thread_enable_join(thread_create(coordinator_main, nullptr, 128 * 1024)));
        }
        for (auto h : jh) thread_join(h);
        if (v == 0) {
            while (g_actors_done.load(std::memory_order_acquire) < g_nact || !g_close_returned.load(std::memory_order_acquire)) thread_usleep(200);
            // final drain: the channel is closed, recv() does not block
            auto& M = g_act[g_nact];
            for (;;) {
                Val val;
                uint64_t b = stamp();
                M.in_op.store(OP_RECV, vh::MO);
                bool ok = r.chance(1, 2) ? g_ch->recv(val) : g_ch->try_recv(val);
                M.in_op.store(OP_NONE, vh::MO);
                uint64_t e = stamp();
                if (!ok) break;
                c_final_drain.add();
                on_receive(val, b, e, nullptr, g_R);
                vh::progress();
            }
            g_ch_alive.store(false);
            vh::st().supervisor_stop.store(true);           // the supervised part is over (tear-down can be slow under TSan)
            delete g_ch;
            g_ch = nullptr;
        }
    });

    // ---------------------------------------------------------------- quiescence: the ledger
    uint64_t n_true = 0, n_lost = 0, n_false_delivered = 0, n_recv = 0;
    vh::JArr lost;
    for (int s = 0; s < g_S; ++s) {
        uint64_t min_later_ret = ~0ull;
        int64_t min_later_seq = -1;
        for (int64_t q = (int64_t)snd(s).quota - 1; q >= 0; --q) {
            auto& c = snd(s).cells[q];
            auto st = c.state.load();
            auto n = c.recvd.load();
            n_recv += n;
            if (st == ST_FALSE && n) n_false_delivered++;
            if (st != ST_TRUE) continue;
            n_true++;
            if (n && g_cap && g_close_stamp.load() && c.send_ret.load() < g_close_stamp.load() && c.recv_ret.load() > g_close_stamp.load())
                c_sent_before_recv_after.add();
            if (n == 0) {
                n_lost++;
                if (n_lost <= 8) lost.raw(vh::JObj().kv("sender", s).kv("seq", q).kv("how", op_name[c.how.load()]).str());
                continue;
            }
            // real-time order: a later value of this sender was returned before the recv that got this one was called
            if (c.recv_call.load() > min_later_ret)
                vh::violation(std::string("order/later-value-delivered-first:") + chk(), "a later value of a sender was returned by recv before the recv call that got an earlier one had started",
                              vh::JObj().kv("sender", s).kv("seq", q).kv("later_seq", min_later_seq).str());
            if (c.recv_ret.load() < min_later_ret) { min_later_ret = c.recv_ret.load(); min_later_seq = q; }
        }
    }
    c_lost.add(n_lost);
    c_after_false.add(n_false_delivered);
    if (n_lost) {
        std::string key, what = "send/try_send returned true for values that no recv ever returned";
        if (g_cap) key = "buffered/value-lost";
        else if (c_overwrite_ev.get() > 0) key = "unbuffered/value-lost:" + defect_suffix();
        else key = "unbuffered/value-lost:without-slot-overwrite:" + defect_suffix();
        vh::violation(key, what, vh::JObj().kv("lost", n_lost).kv("sent_true", n_true).kv("slot_overwrite_events", (int64_t)c_overwrite_ev.get())
                                     .raw("first", lost.str()).str());
    }
    // a recv that reported closed: every value sent(true) before close() was called / before that recv was called must
    // have been handed to a recv call that started before the report was returned
    if (g_cap) {
        uint64_t cs = g_close_stamp.load();
        for (int ri = 0; ri < g_R; ++ri) {
            auto& R = rcv(ri);
            if (!R.got_closed) continue;
            uint64_t lim = std::max(R.closed_b, cs);
            for (int s = 0; s < g_S; ++s)
                for (uint64_t q = 0; q < snd(s).quota; ++q) {
                    auto& c = snd(s).cells[q];
                    if (c.state.load() != ST_TRUE || c.recvd.load() == 0) continue;
                    if (c.send_ret.load() < lim && c.recv_call.load() > R.closed_e) {
                        vh::violation(std::string("buffered/closed-reported-before-drained") + vsfx(), "recv reported closed while a value sent before close() was still in the buffer",
                                      vh::JObj().kv("receiver", ri).kv("sender", s).kv("seq", q).kv("got_by", (int)c.receiver.load()).str());
                        s = g_S; break;
                    }
                }
        }
    }
    int64_t alive = g_val_live.load();
    if (alive > 0) c_leaked.add(alive);
    uint64_t waits = vh::cov(C_CHAN_SEND_WAIT) + vh::cov(C_CHAN_RECV_WAIT);
    uint64_t falses = c_send_timeout.get() + c_recv_timeout.get() + c_send_closed.get();
    bool nontrivial = n_recv > 0 && waits > 0 && (falses > 0 || c_close_items.get() > 0 || c_two_senders.get() > 0);
    auto b = [](int64_t v) { return std::to_string(vh::log2bucket((uint64_t)v)); };
    vh::set_sig(std::string(cls_name[g_cls]) + "|c" + std::to_string(g_cap) + "|s" + std::to_string(g_S) + "r" + std::to_string(g_R) + "v" + std::to_string(nv) +
                    "|h" + std::to_string(g_heap) + "x" + std::to_string(g_script) + "g" + std::to_string(g_gate) + "m" + std::to_string(g_close_mid) + "a" + std::to_string(g_await_all) + "|" +
                    vh::cov_signature({C_CHAN_SEND_WAIT, C_CHAN_RECV_WAIT, C_CHAN_SLOT_OVERWRITE}) + "to:" + b(c_send_timeout.get()) + "/" + b(c_recv_timeout.get()) +
                    ",2s:" + b(c_two_senders.get()) + ",ci:" + b(c_close_items.get()) + ",dr:" + b(c_drained_after_close.get()),
                nontrivial);
    vh::sample(vh::JObj().kv("class", cls_name[g_cls]).kv("capacity", (uint64_t)g_cap).kv("senders", g_S).kv("receivers", g_R).kv("vcpus", nv)
                   .kv("script", g_script ? g_script_log : std::string("free-running")).kv("sent_true", n_true).kv("received", n_recv)
                   .kv("send_timeouts", c_send_timeout.get()).kv("recv_timeouts", c_recv_timeout.get()).kv("lost", n_lost)
                   .kv("send_waits", vh::cov(C_CHAN_SEND_WAIT)).kv("recv_waits", vh::cov(C_CHAN_RECV_WAIT)).str());
    return vh::finish();
}
