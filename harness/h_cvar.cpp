// C03 - condition_variable with mutex and with spinlock.
// Ledger (all of it is only written while holding the lock L that the waiters pass to wait()):
//   each waiter registers (state REG_U / REG_T) under L right before wait(L); because release-and-wait must be
//   atomic, a notifier that holds L and counts k untimed registered-and-not-yet-notified waiters must find at
//   least k threads in the queue: notify_one() != null when k > 0, notify_all() >= k. A null there means a
//   waiter was between "unlocked" and "enqueued" - exactly the forbidden gap. No timing is involved.
//   One notification <-> one wake-up: at quiescence  #(wait returned 0) == #(non-null notify_one) + sum(notify_all).
#include "vh.h"
#include <photon/common/timeout.h>

using namespace photon;

static vh::NamedCounter c_wait0("wait_returned_0"), c_wait_to("wait_timed_out"), c_n1_locked("notify_one_locked_nonnull"),
    c_n1_locked_null("notify_one_locked_null"), c_n1_unlocked("notify_one_unlocked_nonnull"), c_nall("notify_all_calls"),
    c_nall_sum("notify_all_woken"), c_unexplained("woken_by_unlocked_notifier"), c_gap_checks("gap_checks_with_waiters"),
    c_timed_notified("timed_waiter_notified");

struct XMutex : public photon::mutex {
    using mutex::mutex;
    thread* get_owner() { return owner.load(std::memory_order_relaxed); }
};

enum St { IDLE = 0, REG_U, REG_T, NOTIFIED, MAYBE };
constexpr int MAXW = 64;
struct W {
    int id;
    std::atomic<thread*> th{nullptr};
    std::atomic<int> st{IDLE};
    std::atomic<uint64_t> notified_at{0};   // progress value when a locked notifier marked it
    std::atomic<uint64_t> round{0};         // diagnostics for witnesses
    std::atomic<int> in_wait{0}, last_ret{0}, last_timed{0};
};
static W g_w[MAXW];
static int g_nw = 0;
static bool g_spin = false;
static XMutex* g_m = nullptr;
static spinlock* g_s = nullptr;
static condition_variable* g_cv = nullptr;
static std::atomic<void*> g_holder{nullptr};
static uint64_t g_payload = 0;              // plain, protected by L
static std::atomic<int> g_waiters_done{0};
static std::atomic<uint64_t> g_unlocked_started{0};
static uint64_t g_ops = 0;
static std::atomic<int> g_aux_running{0};
static std::atomic<bool> g_stop{false};
static int g_unlocked_pct = 0;      // 0: every notifier holds the lock (the atomicity oracle is then exact)

static const char* lk() { return g_spin ? "spinlock" : "mutex"; }
static void L_lock() { if (g_spin) g_s->lock(); else g_m->lock(); }
static void L_unlock() { if (g_spin) g_s->unlock(); else g_m->unlock(); }
static void mon_enter(const char* where) {
    void* prev = g_holder.exchange((void*)CURRENT, vh::MO);
    if (prev)
        vh::violation(std::string("lock-not-held/two-inside:") + lk(), "two threads inside the region guarded by the lock used with wait()",
                      vh::JObj().kv("where", where).str());
    g_payload++;
}
static void mon_leave() { g_holder.store(nullptr, vh::MO); }

static void* waiter_main(void* arg) {
    auto& w = *(W*)arg;
    w.th.store(CURRENT, std::memory_order_release);
    vh::Rng r(vh::mix(vh::args().xseed(), 100 + w.id));
    for (uint64_t op = 0; op < g_ops; ++op) {
        bool timed = r.chance(1, 2);
        uint64_t us = timed ? r.pick<uint64_t>({0, 1, r.range(5, 200), r.range(5, 200), r.range(300, 2000)}) : 0;
        L_lock();
        mon_enter("waiter-before");
        Timeout t = timed ? Timeout(us) : Timeout();
        w.st.store(timed ? REG_T : REG_U, vh::MO);
        w.round.store(op, vh::MO); w.last_timed.store(timed, vh::MO);
        mon_leave();
        w.in_wait.store(1, vh::MO);
        int ret = g_spin ? g_cv->wait(g_s, t) : g_cv->wait(g_m, t);
        int e = errno;
        w.in_wait.store(0, vh::MO); w.last_ret.store(ret, vh::MO);
        // must hold L again
        if (g_spin ? !g_s->locked() : g_m->get_owner() != CURRENT)
            vh::violation(std::string("lock-not-held/after-wait:") + lk(), "wait() returned without the lock being held by the caller",
                          vh::JObj().kv("ret", ret).str());
        mon_enter("waiter-after");
        int s = w.st.load(vh::MO);
        vh::event();
        if (ret == 0) {
            c_wait0.add();
            if (s == REG_U || s == REG_T) {
                // not accounted for by any notifier holding L: must come from an unlocked notify_one that at least started
                uint64_t u = c_unexplained.v.fetch_add(1, vh::MO) + 1;
                if (u > g_unlocked_started.load(vh::MO))
                    vh::violation(std::string("wakeup/without-notification:") + lk(), "wait() returned 0 although no notification can account for it",
                                  vh::JObj().kv("unaccounted_wakeups", u).kv("unlocked_notify_started", g_unlocked_started.load()).str());
            } else if (s == NOTIFIED && timed) c_timed_notified.add();
        } else {
            c_wait_to.add();
            if (e != ETIMEDOUT)
                vh::violation(std::string("errno/unexpected:") + lk(), "wait() failed with an errno other than ETIMEDOUT (nobody interrupts here)",
                              vh::JObj().kv("errno", e).str());
            else if (!timed)
                vh::violation(std::string("timeout/untimed-wait:") + lk(), "wait() without timeout returned ETIMEDOUT", "null");
            else {
                auto rt = vh::boottime_us();
                if (t.expiration() != 0 && rt < t.expiration())
                    vh::violation(std::string("timeout/early:") + lk(), "ETIMEDOUT before the deadline",
                                  vh::JObj().kv("expiration", t.expiration()).kv("clock", rt).str());
            }
            if (s == NOTIFIED)
                vh::violation(std::string("notify/swallowed-by-timeout:") + lk(),
                              "notify_one() reported this thread as woken, but its wait() returned ETIMEDOUT",
                              vh::JObj().kv("waiter", w.id).str());
        }
        w.st.store(IDLE, vh::MO);
        mon_leave();
        L_unlock();
        vh::progress();
        if (r.chance(1, 4)) thread_yield();
    }
    g_waiters_done.fetch_add(1, std::memory_order_acq_rel);
    // Stay alive until the notifiers have stopped: a notifier reads the queue head without a lock and then locks
    // that thread (waitq::resume_one -> indirect_lock); if the head was meanwhile woken by another notifier, finished
    // and was joined, its thread object - which lives on its own stack - is gone (see the exit-after-wake probe).
    while (g_aux_running.load(std::memory_order_acquire) > 0) thread_usleep(300);
    return nullptr;
}

static W* find_waiter(thread* th) {
    for (int i = 0; i < g_nw; ++i) if (g_w[i].th.load(vh::MO) == th) return &g_w[i];
    return nullptr;
}

static void locked_notify(vh::Rng& r) {
    L_lock();
    mon_enter("notifier");
    int k = 0, reg = 0;
    for (int i = 0; i < g_nw; ++i) {
        int s = g_w[i].st.load(vh::MO);
        if (s == REG_U) k++;
        if (s == REG_U || s == REG_T) reg++;
    }
    if (k > 0) c_gap_checks.add();
    // Notifiers that do not hold the lock cannot update the ledger: a waiter they woke still looks registered
    // until it returns. X = wake-ups already attributed to them (written under L), U = their calls started
    // (read AFTER our own notify call, so that every dequeue ordered before ours is counted): at most U - X
    // registered waiters may legitimately be missing from the queue.
    int64_t X = c_unexplained.get();
    auto slack = [&]() { return (int64_t)g_unlocked_started.load(vh::MO) - X; };
    if (r.chance(2, 3)) {
        auto th = g_cv->notify_one();
        if (!th) {
            c_n1_locked_null.add();
            if (k - slack() > 0)
                vh::violation(std::string("atomicity/registered-waiter-not-in-queue:") + lk(),
                              "a notifier holding the lock found no waiter although untimed waiters had registered under that lock",
                              vh::JObj().kv("registered_untimed", k).kv("call", "notify_one").str());
        } else {
            c_n1_locked.add();
            auto w = find_waiter(th);
            int s = w ? w->st.load(vh::MO) : -1;
            if (!w || (s != REG_U && s != REG_T))
                vh::violation(std::string("notify/woke-non-waiter:") + lk(), "notify_one() returned a thread that was not waiting",
                              vh::JObj().kv("state", s).kv("known_waiter", w != nullptr).kv("waiter", w ? w->id : -1)
                                  .kv("round", w ? w->round.load() : 0).kv("in_wait", w ? w->in_wait.load() : -1)
                                  .kv("last_ret", w ? w->last_ret.load() : 0).kv("last_timed", w ? w->last_timed.load() : 0)
                                  .kv("ops", g_ops).kv("thread_state", (int)photon::thread_stat(th)).str());
            else { w->st.store(NOTIFIED, vh::MO); w->notified_at.store(vh::st().progress.load(vh::MO), vh::MO); }
        }
    } else {
        int n = g_cv->notify_all();
        c_nall.add();
        c_nall_sum.add(n);
        if (n < k - slack())
            vh::violation(std::string("atomicity/registered-waiter-not-in-queue:") + lk(),
                          "notify_all() under the lock woke fewer threads than untimed waiters registered under that lock",
                          vh::JObj().kv("registered_untimed", k).kv("woken", n).kv("call", "notify_all").str());
        if (n > reg)
            vh::violation(std::string("notify/woke-more-than-waiting:") + lk(), "notify_all() reported more wake-ups than threads inside wait()",
                          vh::JObj().kv("registered", reg).kv("woken", n).str());
        for (int i = 0; i < g_nw; ++i) {
            int s = g_w[i].st.load(vh::MO);
            if (s == REG_U) { g_w[i].st.store(NOTIFIED, vh::MO); g_w[i].notified_at.store(vh::st().progress.load(vh::MO), vh::MO); }
            else if (s == REG_T) g_w[i].st.store(MAYBE, vh::MO);
        }
    }
    mon_leave();
    L_unlock();
}
static void unlocked_notify() {
    g_unlocked_started.fetch_add(1, vh::MO);       // before the call
    if (g_cv->notify_one()) c_n1_unlocked.add();
}

static void* notifier_main(void* arg) {
    vh::Rng r(vh::mix(vh::args().xseed(), 300 + (uint64_t)arg));
    int unlocked_pct = g_unlocked_pct;
    while (g_waiters_done.load(std::memory_order_acquire) < g_nw) {
        if ((int)r.below(100) < unlocked_pct) unlocked_notify(); else locked_notify(r);
        if (r.chance(1, 2)) thread_usleep(r.range(1, 100)); else thread_yield();
    }
    g_aux_running.fetch_sub(1, std::memory_order_acq_rel);
    return nullptr;
}

static bool on_stuck(std::string& key, std::string& what, std::string& wit) {
    vh::JArr a;
    bool proved = false;
    a.raw(vh::JObj().kv("lock", lk()).kv("monitor_holder", (uint64_t)g_holder.load())
              .kv("mutex_owner", g_spin ? (uint64_t)g_s->locked() : (uint64_t)g_m->get_owner()).str());
    for (int i = 0; i < g_nw; ++i) {
        int s = g_w[i].st.load();
        auto th = g_w[i].th.load();
        a.raw(vh::JObj().kv("waiter", i).kv("state", s).kv("thread", (uint64_t)th).kv("in_wait", g_w[i].in_wait.load())
                  .kv("round", g_w[i].round.load()).kv("photon_state", th ? (int)photon::thread_stat(th) : -1).str());
        if (s == NOTIFIED) {
            proved = true;
            key = std::string("notify/notified-waiter-never-returned:") + lk();
            what = "a waiter reported as woken by a notifier holding the lock did not return from wait() for the whole silence window";
        }
    }
    wit = a.str();
    if (!proved) { key = "cvar-workload"; what = "no progress " + wit; }
    return proved;
}


// ---------------------------------------------------------------- probe: waiters that exit right after being woken
// Two vCPUs call notify_one() without any common lock while a third keeps creating short-lived waiters that return
// (their stacks, which contain their thread objects, are freed) as soon as they are woken. A notifier reads the
// queue head unlocked and then locks that thread (waitq::resume_one -> indirect_lock): if the other notifier woke
// it in between and it has exited, that lock is taken on freed memory. Only run under ASan (stable report key).
namespace exitprobe {
static condition_variable* cv = nullptr;
static std::atomic<int> inflight{0};
static std::atomic<bool> stop{false};
static vh::NamedCounter c_waiters("exit_probe_waiters"), c_notifies("exit_probe_notifies");
static void* waiter(void*) {
    cv->wait_no_lock();
    inflight.fetch_sub(1, std::memory_order_acq_rel);
    c_waiters.add();
    vh::event(); vh::progress();
    return nullptr;             // not joinable: the stack is released as soon as it is done
}
static std::atomic<bool> active{false};
static int run(vh::Rng& r) {
    uint64_t total = vh::args().thorough() ? 60000 : 15000;
    active.store(true);
    vh::config("section", "exit-after-wake-probe"); vh::config("vcpus", 3);
    using namespace photon::verif;
    auto& S = vh::st();
    S.stall_den[P_WAITQ_RESUME] = 4; S.stall_max_ns[P_WAITQ_RESUME] = 100000; S.stall_sleep_den = 16;
    g_hooks.point = &vh::stall_handler;
    cv = new condition_variable;
    vh::start_supervisor([](std::string& k, std::string& w, std::string&) { k = "cvar-exit-probe"; w = "probe made no progress"; return false; });
    vh::VCpus vc;
    vc.run(3, nullptr, [&](int v) {
        if (v == 0) {
            for (uint64_t i = 0; i < total; ++i) {
                while (inflight.load(std::memory_order_acquire) >= 4) thread_yield();
                inflight.fetch_add(1, std::memory_order_acq_rel);
                thread_create(waiter, nullptr, 64 * 1024);
                if ((i & 3) == 0) thread_yield();
            }
            while (inflight.load(std::memory_order_acquire) > 0) thread_usleep(100);
            stop.store(true, std::memory_order_release);
        } else {
            while (!stop.load(std::memory_order_acquire)) {
                if (cv->notify_one()) c_notifies.add();
                if (r.chance(1, 64)) thread_yield();
            }
        }
    });
    vh::set_sig("exit-probe", c_waiters.get() > 0);
    vh::sample(vh::JObj().kv("section", "exit-after-wake-probe").kv("waiters", c_waiters.get()).kv("notifies", c_notifies.get()).str());
    return vh::finish();
}
}  // namespace exitprobe

// In the probe the only shared objects are the condition variable and the waiters; a use-after-free report there is
// the notifier touching a waiter that has exited. The frames of the report depend on inlining, so the harness names
// the violation itself instead of leaving the key to the report parser.
extern "C" const char* __asan_get_report_description() __attribute__((weak));
extern "C" void __asan_on_error() {
    if (!exitprobe::active.load()) return;
    const char* d = __asan_get_report_description ? __asan_get_report_description() : nullptr;
    if (!d || strcmp(d, "heap-use-after-free") != 0) return;      // anything else: full report, parsed by the driver
    vh::violation("notify/touches-exited-waiter",
                  "notify_one() without a common lock accessed the thread object of a waiter that another notifier had "
                  "already woken and that has exited (ASan heap-use-after-free in waitq::resume_one/indirect_lock)",
                  vh::JObj().kv("waiters_so_far", exitprobe::c_waiters.get()).kv("notifies_so_far", exitprobe::c_notifies.get()).str());
    vh::write_summary();
    _exit(10);
}

int main(int argc, char** argv) {
    vh::init(argc, argv);
    if (vh::args().has("section") ? vh::args().gets("section", "") == "exitprobe" : (vh::is_asan() && vh::args().exec % 8 == 7)) {
        vh::Rng r0(vh::args().xseed());
        return exitprobe::run(r0);
    }
    vh::Rng r(vh::args().xseed());
    g_spin = vh::args().has("lock") ? vh::args().gets("lock", "") == "spin" : r.chance(1, 2);
    int nv = vh::args().geti("vcpus", r.pick({1, 2, 2, 3, 4}));
    int tpv = r.range(1, 6);
    g_ops = vh::args().geti("ops", vh::args().thorough() ? 10000 : 2500);
    if (vh::is_tsan()) g_ops /= 4;
    g_ops /= vh::args().shape_div();
    g_nw = std::min(nv * tpv, MAXW);
    for (int i = 0; i < g_nw; ++i) g_w[i].id = i;
    if (g_spin) g_s = new spinlock; else g_m = new XMutex(r.pick({100, 0, 3}));
    g_cv = new condition_variable;
    using namespace photon::verif;
    vh::arm_stalls(r, {P_WAITQ_RESUME, P_PRELOCKED_INTERRUPT, P_RESUME_BEFORE_LOCK, P_MUTEX_UNLOCK, P_MUTEX_LOCK_AFTER_WAKE,
                       P_INTERRUPT_BEFORE_LOCK});
    g_unlocked_pct = r.pick({0, 0, 25, 50});
    vh::config("unlocked_notify_pct", g_unlocked_pct);
    vh::config("lock", lk()); vh::config("vcpus", nv); vh::config("waiters", g_nw); vh::config("ops", g_ops);
    // a vCPU that runs only waiters exercises "release the lock on the idle thread's stack"
    bool waiters_only_vcpu = nv >= 2 && r.chance(1, 2);
    vh::config("waiters_only_vcpu", waiters_only_vcpu);
    vh::start_supervisor(on_stuck);
    int n_not = 0;
    for (int v = 0; v < nv; ++v) if (!(waiters_only_vcpu && v == nv - 1)) n_not++;
    g_aux_running.store(n_not);
    vh::VCpus vc;
    vc.run(nv, nullptr, [&](int v) {
        std::vector<join_handle*> jh;
        for (int i = v; i < g_nw; i += nv) jh.push_back(thread_enable_join(thread_create(waiter_main, &g_w[i], 256 * 1024)));
        join_handle* nh = nullptr;
        if (!(waiters_only_vcpu && v == nv - 1))
            nh = thread_enable_join(thread_create(notifier_main, (void*)(uint64_t)v, 128 * 1024));
        for (auto h : jh) thread_join(h);
        if (nh) thread_join(nh);
    });
    // quiescence: one notification <-> one wake-up
    int64_t woken = c_wait0.get(), notif = c_n1_locked.get() + c_n1_unlocked.get() + c_nall_sum.get();
    if (woken != notif)
        vh::violation(std::string("notify/count-mismatch:") + lk(), "number of wait() calls that returned 0 differs from the number of wake-ups the notify calls reported",
                      vh::JObj().kv("wait_returned_0", woken).kv("notify_one_nonnull", c_n1_locked.get() + c_n1_unlocked.get())
                          .kv("notify_all_sum", c_nall_sum.get()).str());
    if (g_spin ? g_s->locked() : g_m->locked())
        vh::violation(std::string("lock-not-held/locked-at-quiescence:") + lk(), "the lock is still held after all threads finished", "null");
    bool nontrivial = c_gap_checks.get() > 0 && c_wait0.get() > 0 && c_wait_to.get() > 0;
    vh::set_sig(std::string(lk()) + "|u" + std::to_string(g_unlocked_pct) + "|v" + std::to_string(nv) + "|w" + std::to_string(g_nw) + "|wo" + std::to_string(waiters_only_vcpu) + "|" +
                    vh::cov_signature({C_DEFER_TO_NEW_THREAD, C_INDIRECT_LOCK_RETRY, C_CROSS_VCPU_WAKE, C_RESUME_FOUND_STANDBY}) +
                    "tn:" + std::to_string(vh::log2bucket(c_timed_notified.get())),
                nontrivial);
    vh::sample(vh::JObj().kv("lock", lk()).kv("vcpus", nv).kv("waiters", g_nw).kv("wait_returned_0", woken).kv("timed_out", c_wait_to.get())
                   .kv("gap_checks_with_registered_waiters", c_gap_checks.get()).kv("notify_all_calls", c_nall.get()).str());
    return vh::finish();
}
