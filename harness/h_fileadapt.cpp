// C16 - file adaptors (aligned, fixed-size linear, variable linear, stripe) are transparent.
//
// One input = one seeded operation sequence ("program") against one adaptor configuration:
//   aligned   new_aligned_file_adaptor(alignment 8 .. 64 KiB, align_memory on/off) over one growable
//             in-memory plain file that checks every request it receives for aligned offset, aligned
//             total length and (if requested) aligned buffer addresses;
//   linfix    new_fixed_size_linear_file(unit: powers of two and other sizes) over n fixed-size files;
//   linvar    new_linear_file over n files of seeded (non-zero) sizes;
//   stripe    new_stripe_file(stripe size 2^k) over n equal files.
// Operations: pread, pwrite, preadv, pwritev, preadv2, pwritev2 and the *_mutable variants, always
// starting before end-of-file (requests that start at or after EOF are outside the statement), with
// lengths unaligned at either end, crossing sub-file / stripe boundaries, running past EOF, zero
// length, seeded iovec segmentation (incl. empty segments, up to 64 segments in "bigiov" sequences).
// Every buffer (every iovec segment) is its own exact-size heap block, so ASan sees overruns.
//
// Oracles: returned count and data of every operation equal those of a reference byte array
// (clipped at the end for the fixed-size composites; the aligned adaptor's file grows like a plain
// file); at the end of the sequence size (fstat) and whole content read through the adaptor equal the
// reference, and so does the content of the underlay(s) mapped by the composition rule (concatenation /
// round-robin of stripe units); every request the aligned adaptor sent to its underlay was aligned.
// A sequence stops at its first violation (the states have diverged).
//
// Sequences run in a forked child that reports per-sequence results over a pipe; if the child dies
// (sanitizer report, signal) the sequence in progress is reported as crash:<adaptor>:<op family>:<kind>
// and a new child continues with the next sequence.
//
// Non-trivial sequence: it contains at least one designated rare operation - aligned: a write that
// patches a partial first AND a partial last block (read-modify-write of both), or a write that extends
// the file by a partial block; composites: a request spanning >= 3 sub-files / stripe units, or one
// clipped at the end of the composite.
#include "vh.h"
#include <photon/fs/filesystem.h>
#include <photon/fs/virtual-file.h>
#include <photon/fs/aligned-file.h>
#include <photon/fs/xfile.h>
#include <sys/stat.h>
#include <sys/uio.h>
#include <sys/mman.h>
#include <sys/wait.h>
#include <poll.h>
#include <fcntl.h>
#include <signal.h>

using namespace photon;
using namespace photon::fs;

// Every operation allocates and frees exact-size blocks; with the default 256 MB quarantine each of them
// touches fresh pages. Buffers are freed right after the operation that used them, so a small quarantine
// loses nothing here. (ASAN_OPTIONS from the environment still override these defaults.)
extern "C" const char* __asan_default_options() { return "quarantine_size_mb=8:allocator_release_to_os_interval_ms=-1"; }

static void fill_random(vh::Rng& r, uint8_t* p, size_t n) {
    size_t i = 0;
    for (; i + 8 <= n; i += 8) { uint64_t v = r.next(); memcpy(p + i, &v, 8); }
    if (i < n) { uint64_t v = r.next(); memcpy(p + i, &v, n - i); }
}

// ------------------------------------------------------------------ counters (child -> parent)
enum Ctr {
    N_SEQ, N_OPS, N_READS, N_WRITES, N_VECTORED, N_ZERO_LEN, N_PAST_EOF, N_CLIPPED, N_SPAN3, N_SPAN2, N_VEC_CROSS,
    N_RMW_BOTH, N_RMW_ONE, N_EXTEND_PARTIAL, N_EXTEND_ALIGNED, N_PASSTHROUGH, N_BOUNCED, N_UNDERLAY_REQ, N_MEM_CHECKED,
    N_SEQ_ALIGNED, N_SEQ_LINFIX, N_SEQ_LINVAR, N_SEQ_STRIPE, N_BIGIOV_OPS, N_FINAL_CHECKS, N_CRASHED_SEQ, N_CTR
};
static const char* ctr_name[N_CTR] = {
    "sequences", "ops", "reads", "writes", "vectored_ops", "zero_length_ops", "reads_past_eof", "clipped_at_end", "span_ge3_subfiles",
    "span_2_subfiles", "vectored_crossing_boundary", "aligned_rmw_first_and_last", "aligned_rmw_one_end", "aligned_extend_partial_block",
    "aligned_extend_whole_blocks", "aligned_passthrough_requests", "aligned_bounced_requests", "underlay_requests",
    "underlay_requests_memory_checked", "seq_aligned", "seq_linear_fixed", "seq_linear_variable", "seq_stripe", "ops_with_ge28_segments",
    "final_state_checks", "crashed_sequences"};
static vh::NamedCounter* g_named[N_CTR];
static int64_t g_ctr[N_CTR];        // per-sequence deltas (child side)
static void cnt(Ctr c, int64_t n = 1) { g_ctr[c] += n; }

// ------------------------------------------------------------------ pending violation (first one of a sequence wins)
struct Pending { bool set = false; std::string key, what, witness; };
static Pending g_pending;
static void flag(const std::string& key, const std::string& what, const std::string& witness) {
    if (g_pending.set) return;
    g_pending = {true, key, what, witness};
}

// ------------------------------------------------------------------ in-memory underlay
static std::string g_cur_op;        // description of the operation in progress (for witnesses)

class MemFile : public VirtualFile {
public:
    std::vector<uint8_t> data;
    bool fixed = false;             // fixed-size file: writes are clipped at the end, no growth
    uint32_t align = 0;             // != 0: the alignment contract of this file
    bool align_mem = false;
    const void* user_lo = nullptr;  // to recognise pass-through of the caller's own buffer
    const void* user_hi = nullptr;
    uint64_t nreq = 0;
    int index = 0;

    void check(const char* op, const struct iovec* iov, int iovcnt, off_t offset) {
        ++nreq;
        cnt(N_UNDERLAY_REQ);
        if (!align) return;
        uint64_t total = 0;
        bool mem_ok = true, through = false;
        for (int i = 0; i < iovcnt; ++i) {
            total += iov[i].iov_len;
            if (iov[i].iov_len && ((uint64_t)iov[i].iov_base & (align - 1))) mem_ok = false;
            if (iov[i].iov_len && iov[i].iov_base >= user_lo && iov[i].iov_base < user_hi) through = true;
        }
        cnt(through ? N_PASSTHROUGH : N_BOUNCED);
        const char* bad = nullptr;
        if (offset < 0 || ((uint64_t)offset & (align - 1))) bad = "offset";
        else if (total & (align - 1)) bad = "length";
        else if (align_mem && !mem_ok) bad = "memory";
        if (align_mem) cnt(N_MEM_CHECKED);
        if (bad)
            flag(std::string("aligned:unaligned-underlay-request:") + bad,
                 "the alignment adaptor issued a request to the underlying file that is not aligned",
                 vh::JObj().kv("underlay_op", op).kv("offset", (int64_t)offset).kv("length", total).kv("iovcnt", iovcnt)
                     .kv("first_base_mod_alignment", iovcnt ? (uint64_t)iov[0].iov_base & (align - 1) : (uint64_t)0)
                     .kv("alignment", (uint64_t)align).kv("align_memory", align_mem).kv("during", g_cur_op).str());
    }
    ssize_t do_read(const struct iovec* iov, int iovcnt, off_t offset) {
        if (offset < 0) { errno = EINVAL; return -1; }
        uint64_t pos = offset, done = 0;
        for (int i = 0; i < iovcnt; ++i) {
            if (pos >= data.size()) break;
            size_t n = std::min<uint64_t>(iov[i].iov_len, data.size() - pos);
            if (n) memcpy(iov[i].iov_base, data.data() + pos, n);
            pos += n; done += n;
            if (n < iov[i].iov_len) break;
        }
        return done;
    }
    ssize_t do_write(const struct iovec* iov, int iovcnt, off_t offset) {
        if (offset < 0) { errno = EINVAL; return -1; }
        uint64_t pos = offset, done = 0;
        for (int i = 0; i < iovcnt; ++i) {
            size_t n = iov[i].iov_len;
            if (fixed) {
                if (pos >= data.size()) break;
                n = std::min<uint64_t>(n, data.size() - pos);
            } else if (pos + n > data.size() && n) data.resize(pos + n, 0);
            if (n) memcpy(data.data() + pos, iov[i].iov_base, n);
            pos += n; done += n;
            if (n < iov[i].iov_len) break;
        }
        return done;
    }
    ssize_t pread(void* buf, size_t count, off_t offset) override {
        struct iovec v{buf, count};
        check("pread", &v, 1, offset);
        return do_read(&v, 1, offset);
    }
    ssize_t pwrite(const void* buf, size_t count, off_t offset) override {
        struct iovec v{(void*)buf, count};
        check("pwrite", &v, 1, offset);
        return do_write(&v, 1, offset);
    }
    ssize_t preadv(const struct iovec* iov, int iovcnt, off_t offset) override {
        check("preadv", iov, iovcnt, offset);
        return do_read(iov, iovcnt, offset);
    }
    ssize_t pwritev(const struct iovec* iov, int iovcnt, off_t offset) override {
        check("pwritev", iov, iovcnt, offset);
        return do_write(iov, iovcnt, offset);
    }
    int fstat(struct stat* st) override {
        memset(st, 0, sizeof(*st));
        st->st_mode = S_IFREG | 0644;
        st->st_size = data.size();
        return 0;
    }
    int ftruncate(off_t length) override {
        if (fixed || length < 0) { errno = EINVAL; return -1; }
        data.resize(length, 0);
        return 0;
    }
    int close() override { return 0; }
    int fsync() override { return 0; }
    int fdatasync() override { return 0; }
    int fchmod(mode_t) override { return 0; }
    int fchown(uid_t, gid_t) override { return 0; }
    IFileSystem* filesystem() override { return nullptr; }
};

// ------------------------------------------------------------------ configuration of one sequence
enum Kind { K_ALIGNED = 0, K_LINFIX, K_LINVAR, K_STRIPE, K_N };
static const char* kind_name[] = {"aligned", "linear-fixed", "linear-variable", "stripe"};

struct Config {
    Kind kind;
    uint64_t unit = 0;              // alignment / unit size / stripe size (0 for linvar)
    bool align_mem = false;
    int nfiles = 1;
    std::vector<uint64_t> sizes;    // sub-file sizes
    uint64_t total = 0;             // initial logical size
    bool bigiov = false;
    int nops = 0;
    std::string str() const {
        std::string s = std::string(kind_name[kind]) + " unit=" + std::to_string(unit);
        if (kind == K_ALIGNED) s += std::string(" align_memory=") + (align_mem ? "1" : "0");
        s += " files=" + std::to_string(nfiles) + " size=" + std::to_string(total) + " ops=" + std::to_string(nops);
        if (kind == K_LINVAR) { s += " sizes="; for (auto x : sizes) s += std::to_string(x) + ","; }
        if (bigiov) s += " bigiov";
        return s;
    }
};

static Config make_config(vh::Rng& r, int force_kind) {
    Config c;
    c.kind = force_kind >= 0 ? (Kind)force_kind : (Kind)r.pick({0, 0, 0, 1, 1, 2, 2, 3, 3});
    c.nops = (int)r.range(20, 120);
    switch (c.kind) {
    case K_ALIGNED: {
        c.unit = r.pick<uint64_t>({8, 64, 64, 512, 512, 512, 1024, 4096, 4096, 4096, 4096, 16384, 65536});
        c.align_mem = r.chance(1, 2);
        c.nfiles = 1;
        uint64_t blocks = c.unit >= 16384 ? r.range(1, 5) : r.range(1, 12);
        c.total = r.chance(1, 3) ? blocks * c.unit : r.range(1, blocks * c.unit);
        c.sizes = {c.total};
        c.bigiov = r.chance(1, 100);
        // more than 27 segments overflow the IOVector copy inside the aligned adaptor (known finding); without ASan that
        // is silent stack corruption with arbitrary consequences, so only the asan flavor goes there
        if (!vh::is_asan()) c.bigiov = false;
        if (c.unit >= 16384) c.nops = (int)r.range(10, 40);
        break;
    }
    case K_LINFIX:
        c.unit = r.pick<uint64_t>({1, 7, 8, 64, 100, 512, 1000, 3986, 4096, 5000});
        c.nfiles = (int)r.range(1, 8);
        c.sizes.assign(c.nfiles, c.unit);
        c.total = c.unit * c.nfiles;
        c.bigiov = r.chance(1, 12);
        break;
    case K_LINVAR:
        c.nfiles = (int)r.range(1, 8);
        for (int i = 0; i < c.nfiles; ++i) {
            uint64_t s = r.chance(1, 4) ? r.range(1, 8) : r.chance(1, 2) ? r.range(1, 600) : r.range(1, 5000);
            c.sizes.push_back(s);
            c.total += s;
        }
        c.bigiov = r.chance(1, 12);
        break;
    case K_STRIPE:
        c.unit = r.pick<uint64_t>({1, 8, 64, 512, 4096});
        c.nfiles = (int)r.range(1, 6);
        c.sizes.assign(c.nfiles, c.unit * r.range(1, 8));
        c.total = c.sizes[0] * c.nfiles;
        c.bigiov = r.chance(1, 12);
        break;
    default: break;
    }
    return c;
}

// ------------------------------------------------------------------ exact-size heap buffers
struct Buf {
    void* block = nullptr;      // what free() gets
    uint8_t* p = nullptr;       // what the operation gets (block + lead)
    size_t len = 0, lead = 0;
};
static const uint8_t LEAD_CANARY = 0x5C, READ_FILL = 0xA5;
// mode 0: malloc(len); 1: aligned to `al`; 2: malloc(len + lead) + lead (odd address, exact end)
static Buf make_buf(vh::Rng& r, size_t len, uint64_t al, int mode) {
    Buf b;
    b.len = len;
    if (mode == 1 && al >= sizeof(void*) && len) {
        if (posix_memalign(&b.block, al, len)) vh::machinery_failure("posix_memalign failed");
        b.p = (uint8_t*)b.block;
    } else if (mode == 2) {
        b.lead = r.range(1, 15);
        b.block = malloc(len + b.lead);
        memset(b.block, LEAD_CANARY, b.lead);
        b.p = (uint8_t*)b.block + b.lead;
    } else {
        b.block = malloc(len);          // malloc(0) is a valid unique block with no accessible byte
        b.p = (uint8_t*)b.block;
    }
    if (!b.block) vh::machinery_failure("malloc failed");
    return b;
}
static bool lead_intact(const Buf& b) {
    for (size_t i = 0; i < b.lead; ++i) if (((uint8_t*)b.block)[i] != LEAD_CANARY) return false;
    return true;
}

// ------------------------------------------------------------------ operations
enum OpKind { PREAD = 0, PREADV, PREADV_MUT, PREADV2, PREADV2_MUT, PWRITE, PWRITEV, PWRITEV_MUT, PWRITEV2, PWRITEV2_MUT, N_OPKIND };
static const char* opkind_name[] = {"pread", "preadv", "preadv_mutable", "preadv2", "preadv2_mutable",
                                    "pwrite", "pwritev", "pwritev_mutable", "pwritev2", "pwritev2_mutable"};
static const char* opfamily(int k) { return k == PREAD ? "pread" : k == PWRITE ? "pwrite" : k < PWRITE ? "preadv*" : "pwritev*"; }
static bool is_write(int k) { return k >= PWRITE; }
static bool is_vectored(int k) { return k != PREAD && k != PWRITE; }

// shared with the parent: what the child is doing right now
struct Shared {
    volatile uint64_t seq, op;
    volatile int kind, opk;
    char desc[1024];
};
static Shared* g_sh = nullptr;

struct Subject {
    Config cfg;
    std::vector<MemFile*> under;
    IFile* file = nullptr;
    std::vector<uint8_t> ref;
    std::vector<uint64_t> bounds;       // boundaries (logical offsets) inside [0, size]
    bool growable() const { return cfg.kind == K_ALIGNED; }
};

// logical content of the composite computed directly from the underlay files
static std::vector<uint8_t> logical_from_underlays(const Subject& S) {
    std::vector<uint8_t> out;
    auto& c = S.cfg;
    if (c.kind == K_ALIGNED) return S.under[0]->data;
    if (c.kind == K_LINFIX || c.kind == K_LINVAR) {
        for (auto f : S.under) out.insert(out.end(), f->data.begin(), f->data.end());
        return out;
    }
    uint64_t per = S.under[0]->data.size();
    uint64_t total = per * c.nfiles;
    out.resize(total);
    for (uint64_t L = 0; L < total; ++L) {
        uint64_t s = L / c.unit;
        out[L] = S.under[s % c.nfiles]->data[(s / c.nfiles) * c.unit + L % c.unit];
    }
    return out;
}

static void compute_bounds(Subject& S) {
    auto& c = S.cfg;
    S.bounds.clear();
    uint64_t size = S.ref.size();
    if (c.kind == K_LINVAR) {
        uint64_t k = 0;
        S.bounds.push_back(0);
        for (auto s : c.sizes) { k += s; S.bounds.push_back(k); }
    } else {
        uint64_t step = c.unit;
        uint64_t n = size / step + 1;
        if (n > 64) {       // sample
            for (int i = 0; i < 64; ++i) S.bounds.push_back((uint64_t)i * (n / 64) * step);
            S.bounds.push_back((n - 1) * step);
        } else for (uint64_t i = 0; i < n; ++i) S.bounds.push_back(i * step);
        S.bounds.push_back(size);
    }
}
// index of the sub-file / block that contains logical offset x
static uint64_t block_of(const Subject& S, uint64_t x) {
    auto& c = S.cfg;
    if (c.kind == K_LINVAR) {
        uint64_t k = 0;
        for (size_t i = 0; i < c.sizes.size(); ++i) { k += c.sizes[i]; if (x < k) return i; }
        return c.sizes.size();
    }
    return x / c.unit;
}

static std::string mismatch_witness(const Subject& S, uint64_t seq, int opi, const std::string& opdesc, ssize_t ret, ssize_t exp,
                                    int64_t pos = -1, int got = -1, int want = -1) {
    vh::JObj o;
    o.kv("sequence", seq).kv("config", S.cfg.str()).kv("op_index", opi).kv("op", opdesc).kv("returned", (int64_t)ret).kv("expected", (int64_t)exp)
        .kv("errno", (int)errno).kv("size_before", (uint64_t)S.ref.size());
    if (pos >= 0) o.kv("first_bad_byte", pos).kv("got", got).kv("want", want);
    o.kv("replay", "--cfg seq=" + std::to_string(seq));
    return o.str();
}

static uint64_t g_seq_hash;
static void H(uint64_t v) { g_seq_hash = vh::mix(g_seq_hash, v); }

static void run_sequence(uint64_t xseed, uint64_t seq, int force_kind, bool& nontrivial) {
    vh::Rng r(vh::mix(xseed, seq * 2 + 1));
    Subject S;
    S.cfg = make_config(r, force_kind);
    auto& c = S.cfg;
    g_seq_hash = vh::mix(0xC16, c.kind);
    H(c.unit); H(c.align_mem); H(c.nfiles); H(c.total); H(c.nops);
    for (auto s : c.sizes) H(s);
    cnt(N_SEQ);
    cnt(c.kind == K_ALIGNED ? N_SEQ_ALIGNED : c.kind == K_LINFIX ? N_SEQ_LINFIX : c.kind == K_LINVAR ? N_SEQ_LINVAR : N_SEQ_STRIPE);

    // underlays with seeded content
    for (int i = 0; i < c.nfiles; ++i) {
        auto f = new MemFile;
        f->index = i;
        f->fixed = c.kind != K_ALIGNED;
        f->data.resize(c.sizes[i]);
        fill_random(r, f->data.data(), f->data.size());
        S.under.push_back(f);
    }
    std::vector<IFile*> raw(S.under.begin(), S.under.end());
    switch (c.kind) {
    case K_ALIGNED:
        S.under[0]->align = (uint32_t)c.unit;
        S.under[0]->align_mem = c.align_mem;
        S.file = new_aligned_file_adaptor(S.under[0], (uint32_t)c.unit, c.align_mem, false);
        break;
    case K_LINFIX: S.file = new_fixed_size_linear_file(c.unit, raw.data(), raw.size(), false); break;
    case K_LINVAR: S.file = new_linear_file(raw.data(), raw.size(), false); break;
    case K_STRIPE: S.file = new_stripe_file(c.unit, raw.data(), raw.size(), false); break;
    default: break;
    }
    if (!S.file) vh::machinery_failure("could not construct adaptor: " + c.str());
    S.ref = logical_from_underlays(S);
    if (S.ref.size() != c.total) vh::machinery_failure("model size mismatch");
    bool seq_rare = false;
    g_sh->seq = seq;
    g_sh->kind = c.kind;

    for (int opi = 0; opi < c.nops && !g_pending.set; ++opi) {
        uint64_t size = S.ref.size();
        compute_bounds(S);
        int k = (int)r.below(N_OPKIND);
        uint64_t unit = c.kind == K_LINVAR ? 64 : c.unit;
        // ---- offset: always before end-of-file
        uint64_t off;
        if (r.chance(3, 5)) {
            uint64_t b = r.pick(S.bounds);
            int64_t d = r.chance(2, 3) ? (int64_t)r.range(0, 6) - 3 : (int64_t)r.range(0, unit) - (int64_t)unit / 2;
            int64_t o = (int64_t)b + d;
            off = o < 0 ? 0 : (uint64_t)o >= size ? size - 1 : (uint64_t)o;
        } else off = r.below(size);
        // ---- length
        uint64_t len;
        uint64_t cap = std::max<uint64_t>(4 * unit, 64) + 16;
        bool aligned_shape = c.kind == K_ALIGNED && r.chance(1, 6);
        switch (r.below(10)) {
        case 0: len = r.chance(1, 4) ? 0 : 1; break;
        case 1: len = r.range(1, std::min<uint64_t>(unit, 64)); break;
        case 2: case 3: {   // up to a boundary further on, +- a little
            uint64_t b = r.pick(S.bounds);
            int64_t l = (int64_t)b - (int64_t)off + (int64_t)r.range(0, 4) - 2;
            len = l <= 0 ? r.range(1, unit + 1) : (uint64_t)l;
            break;
        }
        case 4: case 5: len = r.range(1, 4) * unit + r.range(0, 6) - 3; break;
        case 6: len = size - off + (r.chance(1, 2) ? 0 : r.range(0, unit + 3)); break;     // to EOF / past EOF
        case 7: len = size - off - std::min<uint64_t>(size - off, r.range(0, 3)); break;   // just short of EOF
        default: len = r.range(1, cap); break;
        }
        if ((int64_t)len < 0) len = 1;
        if (len > cap + size) len = cap;
        if (len > (1u << 20)) len = 1u << 20;
        if (aligned_shape) {        // a request the aligned adaptor can pass through
            off = off / unit * unit;
            len = std::max<uint64_t>(unit, len / unit * unit);
            if (len > 4 * unit) len = 4 * unit;
        }
        // ---- segmentation
        int nseg = 1;
        if (is_vectored(k)) {
            nseg = r.chance(1, 8) ? 1 : (int)r.range(2, 8);
            if (r.chance(1, 10)) nseg = (int)r.range(9, 27);
            if (c.bigiov && r.chance(1, 6)) nseg = (int)r.range(28, 64);
            if (r.chance(1, 60)) nseg = 0;
        }
        std::vector<uint64_t> cuts;     // segment lengths
        if (nseg == 0) len = 0;
        if (nseg >= 1) {
            if (aligned_shape && is_vectored(k)) {
                nseg = std::min<int>(nseg, len / unit);
                uint64_t left = len / unit;
                for (int i = 0; i < nseg; ++i) {
                    uint64_t u = i == nseg - 1 ? left : r.range(1, left - (nseg - 1 - i));
                    cuts.push_back(u * unit);
                    left -= u;
                }
            } else {
                std::vector<uint64_t> pts;
                for (int i = 0; i < nseg - 1; ++i) pts.push_back(r.chance(1, 12) ? (pts.empty() ? 0 : pts.back()) : r.below(len + 1));
                std::sort(pts.begin(), pts.end());
                uint64_t prev = 0;
                for (auto p : pts) { cuts.push_back(p - prev); prev = p; }
                cuts.push_back(len - prev);
            }
        }
        // ---- buffers
        std::vector<Buf> bufs;
        std::vector<struct iovec> iov;
        int bufmode_all = (int)r.below(4);      // 3 = mixed
        for (auto l : cuts) {
            int mode = bufmode_all == 3 ? (int)r.below(3) : bufmode_all;
            if (aligned_shape && c.align_mem && !r.chance(1, 8)) mode = 1;
            bufs.push_back(make_buf(r, l, c.kind == K_ALIGNED ? c.unit : 64, mode));
            iov.push_back({bufs.back().p, (size_t)l});
        }
        std::vector<uint8_t> wdata;
        if (is_write(k)) {
            wdata.resize(len);
            fill_random(r, wdata.data(), wdata.size());
            uint64_t p = 0;
            for (auto& b : bufs) { if (b.len) memcpy(b.p, wdata.data() + p, b.len); p += b.len; }
        } else
            for (auto& b : bufs) if (b.len) memset(b.p, READ_FILL, b.len);
        H(k); H(off); H(len); H(nseg);
        for (auto l : cuts) H(l);

        // ---- expectation from the reference
        ssize_t exp;
        if (is_write(k)) exp = S.growable() ? (ssize_t)len : (ssize_t)std::min<uint64_t>(len, size - off);
        else exp = (ssize_t)std::min<uint64_t>(len, size - off);

        // ---- classification (rare paths)
        cnt(N_OPS);
        cnt(is_write(k) ? N_WRITES : N_READS);
        if (is_vectored(k)) cnt(N_VECTORED);
        if (len == 0) cnt(N_ZERO_LEN);
        if (nseg >= 28) cnt(N_BIGIOV_OPS);
        if (!is_write(k) && off + len > size) cnt(N_PAST_EOF);
        if (c.kind == K_ALIGNED) {
            uint64_t A = c.unit, end = off + len;
            if (is_write(k) && len) {
                bool first_partial = off % A, last_partial = end % A;
                if (first_partial && last_partial) { cnt(N_RMW_BOTH); seq_rare = true; }
                else if (first_partial || last_partial) cnt(N_RMW_ONE);
                if (end > size) { if (end % A) { cnt(N_EXTEND_PARTIAL); seq_rare = true; } else cnt(N_EXTEND_ALIGNED); }
            }
        } else if (len) {
            uint64_t last = std::min<uint64_t>(off + len, size) - 1;
            uint64_t span = block_of(S, last) - block_of(S, off) + 1;
            if (span >= 3) { cnt(N_SPAN3); seq_rare = true; }
            else if (span == 2) cnt(N_SPAN2);
            if (off + len > size) { cnt(N_CLIPPED); seq_rare = true; }
            if (span >= 2 && nseg >= 2) cnt(N_VEC_CROSS);
        }

        // ---- run
        std::string opdesc = std::string(opkind_name[k]) + "(off=" + std::to_string(off) + ", len=" + std::to_string(len) + ", segs=[";
        for (size_t i = 0; i < cuts.size() && i < 12; ++i) opdesc += std::to_string(cuts[i]) + (i + 1 < cuts.size() ? "," : "");
        if (cuts.size() > 12) opdesc += "...(" + std::to_string(cuts.size()) + ")";
        opdesc += "])";
        g_cur_op = opdesc;
        g_sh->op = opi;
        g_sh->opk = k;
        snprintf(g_sh->desc, sizeof(g_sh->desc), "%s | op %d: %s", c.str().c_str(), opi, opdesc.c_str());
        if (c.kind == K_ALIGNED) {
            // to recognise pass-through: address range of the caller's buffers (single-buffer ops only: exact)
            S.under[0]->user_lo = S.under[0]->user_hi = nullptr;
            if (bufs.size() == 1 && bufs[0].len) { S.under[0]->user_lo = bufs[0].p; S.under[0]->user_hi = bufs[0].p + bufs[0].len; }
        }
        std::vector<struct iovec> iov2;             // the *_mutable variants may modify the array
        iov2.reserve(iov.size() + 1);               // never a null array, even for 0 segments
        iov2 = iov;
        errno = 0;
        ssize_t ret;
        auto f = S.file;
        switch (k) {
        case PREAD: ret = f->pread(bufs[0].p, len, off); break;
        case PWRITE: ret = f->pwrite(bufs[0].p, len, off); break;
        case PREADV: ret = f->preadv(iov2.data(), (int)iov2.size(), off); break;
        case PREADV_MUT: ret = f->preadv_mutable(iov2.data(), (int)iov2.size(), off); break;
        case PREADV2: ret = f->preadv2(iov2.data(), (int)iov2.size(), off, 0); break;
        case PREADV2_MUT: ret = f->preadv2_mutable(iov2.data(), (int)iov2.size(), off, 0); break;
        case PWRITEV: ret = f->pwritev(iov2.data(), (int)iov2.size(), off); break;
        case PWRITEV_MUT: ret = f->pwritev_mutable(iov2.data(), (int)iov2.size(), off); break;
        case PWRITEV2: ret = f->pwritev2(iov2.data(), (int)iov2.size(), off, 0); break;
        default: ret = f->pwritev2_mutable(iov2.data(), (int)iov2.size(), off, 0); break;
        }

        // ---- compare
        std::string kp = std::string(kind_name[c.kind]) + ":" + opfamily(k) + ":";
        if (ret != exp) {
            flag(kp + "count-mismatch", "an operation through the adaptor returned another byte count than the same operation on a plain file",
                 mismatch_witness(S, seq, opi, opdesc, ret, exp));
        } else if (!is_write(k)) {
            uint64_t p = 0;
            for (auto& b : bufs) {
                size_t n = std::min<uint64_t>(b.len, (uint64_t)ret - p);
                if (n && memcmp(b.p, S.ref.data() + off + p, n))
                    for (size_t i = 0; i < n; ++i)
                        if (b.p[i] != S.ref[off + p + i]) {
                            flag(kp + "data-mismatch", "a read through the adaptor returned other data than the same read on a plain file",
                                 mismatch_witness(S, seq, opi, opdesc, ret, exp, (int64_t)(p + i), b.p[i], S.ref[off + p + i]));
                            break;
                        }
                p += n;
                if (g_pending.set || p >= (uint64_t)ret) break;
            }
        }
        if (is_write(k) && !g_pending.set) {
            // the caller's data must not have been modified
            uint64_t p = 0;
            for (auto& b : bufs) {
                if (b.len && memcmp(b.p, wdata.data() + p, b.len))
                    flag(kp + "source-buffer-modified", "a write through the adaptor modified the caller's buffer", mismatch_witness(S, seq, opi, opdesc, ret, exp));
                p += b.len;
            }
            if (exp > 0) {
                if (off + exp > S.ref.size()) S.ref.resize(off + exp, 0);
                memcpy(S.ref.data() + off, wdata.data(), exp);
            }
        }
        for (auto& b : bufs) {
            if (!lead_intact(b))
                flag(kp + "write-before-buffer", "bytes in front of a caller's buffer were modified", mismatch_witness(S, seq, opi, opdesc, ret, exp));
            free(b.block);
        }
    }

    // ---- final state
    if (!g_pending.set) {
        cnt(N_FINAL_CHECKS);
        g_cur_op = "final state check";
        snprintf(g_sh->desc, sizeof(g_sh->desc), "%s | final state check", c.str().c_str());
        g_sh->op = c.nops;
        g_sh->opk = PREAD;
        std::string kp = std::string(kind_name[c.kind]) + ":";
        struct stat st;
        memset(&st, 0, sizeof(st));
        int sr = S.file->fstat(&st);
        if (sr < 0 || (uint64_t)st.st_size != S.ref.size())
            flag(kp + "final-size-mismatch", "the size reported by the adaptor differs from the plain file's after the same sequence",
                 vh::JObj().kv("sequence", seq).kv("config", c.str()).kv("fstat", sr).kv("size", (int64_t)st.st_size).kv("expected", (uint64_t)S.ref.size()).str());
        size_t n = S.ref.size();
        Buf b = make_buf(r, n, 64, 0);
        memset(b.p, READ_FILL, n);
        ssize_t ret = S.file->pread(b.p, n, 0);
        if (ret != (ssize_t)n)
            flag(kp + "final-content-mismatch", "reading the whole file through the adaptor returned a wrong count",
                 vh::JObj().kv("sequence", seq).kv("config", c.str()).kv("returned", (int64_t)ret).kv("expected", (uint64_t)n).str());
        else if (n && memcmp(b.p, S.ref.data(), n))
            for (size_t i = 0; i < n; ++i)
                if (b.p[i] != S.ref[i]) {
                    flag(kp + "final-content-mismatch", "the content read through the adaptor differs from the plain file's after the same sequence",
                         vh::JObj().kv("sequence", seq).kv("config", c.str()).kv("first_bad_byte", (uint64_t)i).kv("got", (int)b.p[i]).kv("want", (int)S.ref[i]).str());
                    break;
                }
        free(b.block);
        auto direct = logical_from_underlays(S);
        if (direct.size() != S.ref.size())
            flag(kp + "underlay-size-mismatch", "the underlying file(s) do not hold a file of the expected size",
                 vh::JObj().kv("sequence", seq).kv("config", c.str()).kv("size", (uint64_t)direct.size()).kv("expected", (uint64_t)S.ref.size()).str());
        else if (direct != S.ref)
            for (size_t i = 0; i < direct.size(); ++i)
                if (direct[i] != S.ref[i]) {
                    flag(kp + "underlay-content-mismatch", "the content of the underlying file(s), mapped by the composition rule, differs from the plain file's",
                         vh::JObj().kv("sequence", seq).kv("config", c.str()).kv("first_bad_byte", (uint64_t)i).kv("got", (int)direct[i]).kv("want", (int)S.ref[i]).str());
                    break;
                }
    }
    nontrivial = seq_rare;
    delete S.file;
    for (auto f : S.under) delete f;
}

// ------------------------------------------------------------------ child / parent protocol
static std::string one_line(std::string s) {
    for (auto& ch : s) if (ch == '\n' || ch == '\t' || ch == '\r') ch = ' ';
    return s;
}
static void child_main(int wfd, uint64_t xseed, uint64_t from, uint64_t to, int force_kind, const std::string& errpath) {
    if (!errpath.empty()) {
        int fd = open(errpath.c_str(), O_WRONLY | O_CREAT | O_TRUNC, 0644);
        if (fd >= 0) { dup2(fd, 2); close(fd); }
    }
    FILE* w = fdopen(wfd, "w");
    for (uint64_t seq = from; seq < to; ++seq) {
        memset(g_ctr, 0, sizeof(g_ctr));
        g_pending = Pending();
        bool nontrivial = false;
        fprintf(w, "B %" PRIu64 "\n", seq);
        fflush(w);
        run_sequence(xseed, seq, force_kind, nontrivial);
        for (int i = 0; i < N_CTR; ++i) if (g_ctr[i]) fprintf(w, "C %d %" PRId64 "\n", i, g_ctr[i]);
        fprintf(w, "I %" PRIu64 " %d\n", g_seq_hash, nontrivial ? 1 : 0);
        if (g_pending.set) fprintf(w, "V %s\t%s\t%s\n", one_line(g_pending.key).c_str(), one_line(g_pending.what).c_str(), one_line(g_pending.witness).c_str());
        if (seq < from + 2 && from == 0) fprintf(w, "S %s\n", one_line(vh::JObj().kv("sequence", seq).kv("config", std::string(g_sh->desc)).str()).c_str());
        fprintf(w, "D %" PRIu64 "\n", seq);
        fflush(w);
    }
    fclose(w);
}

static void apply_line(const std::string& line, uint64_t& begun, uint64_t& done_upto) {
    if (line.size() < 2) return;
    const char* s = line.c_str() + 2;
    switch (line[0]) {
    case 'B': begun = strtoull(s, nullptr, 10); break;
    case 'D': done_upto = strtoull(s, nullptr, 10) + 1; vh::progress(); break;
    case 'C': { char* e; long i = strtol(s, &e, 10); long long v = strtoll(e, nullptr, 10); if (i >= 0 && i < N_CTR) g_named[i]->add(v);
                break; }
    case 'I': { char* e; uint64_t h = strtoull(s, &e, 10); int nt = (int)strtol(e, nullptr, 10); vh::note_input(h, nt); break; }
    case 'V': {
        std::string rest = s;
        auto a = rest.find('\t'), b = rest.find('\t', a == std::string::npos ? 0 : a + 1);
        if (a == std::string::npos || b == std::string::npos) break;
        vh::violation(rest.substr(0, a), rest.substr(a + 1, b - a - 1), rest.substr(b + 1));
        break;
    }
    case 'S': vh::sample(s); break;
    }
}

static std::string read_file(const std::string& p, size_t max) {
    std::string out;
    FILE* f = fopen(p.c_str(), "r");
    if (!f) return out;
    char buf[4096];
    size_t n;
    while ((n = fread(buf, 1, sizeof(buf), f)) > 0 && out.size() < max) out.append(buf, n);
    fclose(f);
    return out;
}
static std::string crash_kind(const std::string& err, int status) {
    auto p = err.find("ERROR: AddressSanitizer: ");
    if (p != std::string::npos) {
        p += strlen("ERROR: AddressSanitizer: ");
        auto e = err.find_first_of(" \n", p);
        return err.substr(p, e - p);
    }
    if (err.find("runtime error:") != std::string::npos) return "ubsan";
    if (WIFSIGNALED(status)) return "signal-" + std::to_string(WTERMSIG(status));
    return "exit-" + std::to_string(WIFEXITED(status) ? WEXITSTATUS(status) : -1);
}
// the innermost frames inside the repository, without addresses and line numbers
static std::string repo_frames(const std::string& err) {
    std::string out;
    size_t pos = 0;
    int n = 0;
    while (n < 4 && (pos = err.find(" in ", pos)) != std::string::npos) {
        auto eol = err.find('\n', pos);
        std::string line = err.substr(pos + 4, eol - pos - 4);
        pos = eol == std::string::npos ? err.size() : eol;
        if (line.find("/repo/") == std::string::npos && line.find("/wt_") == std::string::npos) continue;
        auto sp = line.rfind(" /");
        out += (n ? " <- " : "") + line.substr(0, sp == std::string::npos ? line.size() : sp);
        ++n;
    }
    return out;
}

int main(int argc, char** argv) {
    vh::init(argc, argv);
    auto& A = vh::args();
    for (int i = 0; i < N_CTR; ++i) g_named[i] = new vh::NamedCounter(ctr_name[i]);
    uint64_t nseq = A.geti("sequences", A.thorough() ? 6000 : 1200);
    int force_kind = (int)A.geti("kind", -1);
    // the asan and plain flavors of one check get the same --seed/--exec: give them different sequences
    uint64_t xseed = vh::mix(A.xseed(), vh::hash_bytes(VH_FLAVOR, strlen(VH_FLAVOR)));
    vh::config("sequences", (int64_t)nseq);
    g_sh = (Shared*)mmap(nullptr, sizeof(Shared), PROT_READ | PROT_WRITE, MAP_SHARED | MAP_ANONYMOUS, -1, 0);
    if (g_sh == MAP_FAILED) vh::machinery_failure("mmap failed");
    memset((void*)g_sh, 0, sizeof(Shared));

    uint64_t from = 0, to = nseq;
    if (A.has("seq")) { from = A.geti("seq", 0); to = from + 1; }
    std::string scratch = A.scratch.empty() ? "/tmp" : A.scratch;
    mkdir(scratch.c_str(), 0755);
    int crashes = 0;

    if (A.geti("nofork", 0)) {       // debugging aid: run in this process, results to stdout
        child_main(dup(1), xseed, from, to, force_kind, "");
        return 0;
    }
    while (from < to) {
        int pfd[2];
        if (pipe(pfd) < 0) vh::machinery_failure("pipe failed");
        std::string errpath = scratch + "/child-" + std::to_string(getpid()) + "-" + std::to_string(from) + ".err";
        fflush(stdout);
        fflush(stderr);
        pid_t pid = fork();
        if (pid < 0) vh::machinery_failure("fork failed");
        if (pid == 0) {
            close(pfd[0]);
            child_main(pfd[1], xseed, from, to, force_kind, errpath);
            _exit(0);
        }
        close(pfd[1]);
        uint64_t begun = from, done_upto = from;
        std::string acc;
        bool silent = false;
        char buf[65536];
        for (;;) {
            struct pollfd p = {pfd[0], POLLIN, 0};
            int pr = poll(&p, 1, 300 * 1000);
            if (pr == 0) { silent = true; break; }
            if (pr < 0) { if (errno == EINTR) continue; break; }
            ssize_t n = read(pfd[0], buf, sizeof(buf));
            if (n <= 0) break;
            acc.append(buf, n);
            size_t b = 0, e;
            while ((e = acc.find('\n', b)) != std::string::npos) { apply_line(acc.substr(b, e - b), begun, done_upto); b = e + 1; }
            acc.erase(0, b);
        }
        close(pfd[0]);
        if (silent) kill(pid, SIGKILL);
        int status = 0;
        waitpid(pid, &status, 0);
        if (silent) {
            vh::inconclusive("child silent for 300 s in sequence " + std::to_string(begun) + ": " + std::string(g_sh->desc));
            unlink(errpath.c_str());
            break;
        }
        bool clean = WIFEXITED(status) && WEXITSTATUS(status) == 0 && done_upto >= to;
        if (clean) { unlink(errpath.c_str()); break; }
        // the child died in sequence `begun`
        std::string err = read_file(errpath, 200000);
        unlink(errpath.c_str());
        g_sh->desc[sizeof(g_sh->desc) - 1] = 0;
        std::string kind = crash_kind(err, status);
        int ck = g_sh->kind, ok = g_sh->opk;
        bool in_seq = done_upto <= begun && g_sh->seq == begun;
        std::string key = std::string("crash:") + (in_seq && ck >= 0 && ck < K_N ? kind_name[ck] : "?") + ":" + (in_seq ? opfamily(ok) : "?") + ":" + kind;
        // keep the report out of our own stderr (the driver would report it a second time under another key)
        std::string rep = err.substr(0, 2500);
        vh::violation(key, "the process died inside an adaptor operation",
                      vh::JObj().kv("sequence", begun).kv("during", std::string(g_sh->desc)).kv("kind", kind).kv("frames_in_repo", repo_frames(err))
                          .kv("report_head", rep).kv("replay", "--cfg seq=" + std::to_string(begun)).str());
        g_named[N_CRASHED_SEQ]->add(1);
        vh::note_input(vh::mix(xseed, begun) ^ 0xC2A5, true);
        fprintf(stderr, "[h_fileadapt] child died (%s) in sequence %" PRIu64 ": %s\n", kind.c_str(), begun, g_sh->desc);
        // every crash costs a sanitizer report (seconds under load); a tree on which crashes are this common has
        // been reported already, so stop exploring this execution (not inconclusive: the violations stand)
        if (++crashes >= (int)A.geti("max_crashes", 12 + (int64_t)nseq / 100)) {
            vh::config("stopped_early", "after " + std::to_string(crashes) + " crashing sequences, at sequence " + std::to_string(begun));
            break;
        }
        from = begun + 1;
    }
    // events = operations checked (sent as counter deltas)
    vh::event(g_named[N_OPS]->get());
    return vh::finish();
}
