// C13 - HTTP/1.1 framing: parse independent of fragmentation, body bytes exact
//
// Input-quantified harness. One "input" = (byte string, fragmentation plan); it is parsed by the real
// Request/Response::receive_header + body read/readv on top of a mock ISocketStream that delivers the
// bytes exactly as the plan says and counts the calls made into it.
//
// Oracles (DESIGN.md 3, C13):
//  (1) valid messages: the observed tuple (receive_header status, verb/target/version | version/code/reason,
//      header multimap, body bytes, end-of-body) equals the generator's model, and the raw tuple is identical
//      across all fragmentations of the same bytes;
//  (2) the tuple is identical across different garbage fills of the unused part of the caller-supplied
//      buffer (a difference proves that bytes outside the message influenced the result); every string the
//      API exposes lies inside the bytes received;
//  (3) step bound: calls into the mock <= 8*len+64, else "endless-loop";
//  (4) ASan/UBSan silence / no crash: every item runs in a forked child; a dead child is re-run alone on the
//      item that was in flight and reported with a key naming the failure and its site.
//  Writer->reader: bodies written through the library's fixed-length / chunked write streams into a
//  capturing mock are read back through the reader under several fragmentations.
//  Malformed input (mutations, truncations, random bytes): only (2), (3), (4) and "body not longer than input".
#include "vh.h"
#include <photon/net/socket.h>
#include <photon/net/http/message.h>
#include <sys/mman.h>
#include <sys/wait.h>
#include <sys/stat.h>
#include <fcntl.h>
#include <signal.h>
#include <set>

using namespace photon;
using namespace photon::net;
using namespace photon::net::http;

// a small quarantine: every parse allocates exact-size destination buffers, a 256 MB quarantine only costs page faults
extern "C" const char* __asan_default_options() { return "quarantine_size_mb=16"; }

// ------------------------------------------------------------------ counters (parent side names)
enum Ctr {
    K_PARSES, K_VALID_MSGS, K_VALID_INPUTS, K_MAL_INPUTS, K_WR_CASES, K_WR_INPUTS, K_PROBE_ITEMS,
    K_TERM_SPLIT, K_CHUNKLINE_SPLIT, K_DATACRLF_SPLIT, K_HDR_END_WITH_BODY, K_BIG_CHUNK, K_AFTER_LAST_CHUNK,
    K_ONE_BYTE_PLANS, K_HDR_MULTI_RECV, K_PAIR_PLANS, K_READV_CALLS, K_READ_CALLS,
    K_MAL_HDR_ACCEPTED, K_MAL_HDR_REJECTED, K_MAL_HDR_EOS, K_MAL_BODY_ERROR, K_MAL_BODY_EOF, K_ZERO_WRITE_CASES,
    K_MSG_CL, K_MSG_CHUNKED, K_MSG_CLOSE, K_MSG_NONE, K_MSG_HEAD, K_GUARD_BUFS, K_CHILD_DEATHS, K_NCTR
};
static const char* ctr_name[K_NCTR] = {
    "parses", "valid_messages", "valid_inputs", "malformed_inputs", "roundtrip_cases", "roundtrip_inputs", "probe_items",
    "term_split", "chunkline_split", "datacrlf_split", "hdr_end_with_body", "big_chunk", "after_last_chunk",
    "one_byte_plans", "hdr_multi_recv", "pair_plans", "readv_calls", "read_calls",
    "malformed_hdr_accepted", "malformed_hdr_rejected", "malformed_hdr_end_of_stream", "malformed_body_error",
    "malformed_body_eof", "zero_write_cases",
    "msg_content_length", "msg_chunked", "msg_close_delimited", "msg_no_body", "msg_head_response", "guard_page_buffers",
    "child_deaths"};

// ------------------------------------------------------------------ shared memory between parent and children
struct ShmViol { char key[220]; char what[700]; char witness[7000]; };
constexpr uint32_t MAX_NT = 1 << 17;
struct Shm {
    volatile uint64_t progress;
    volatile int64_t cur, done_upto;
    volatile int32_t stage_plan, stage_fill;
    int64_t ctr[K_NCTR];
    uint64_t events, inputs;
    uint32_t n_nt; uint64_t nt[MAX_NT];
    uint32_t n_viol; ShmViol viol[24];
    uint32_t n_samples; char samples[4][2400];
};
static Shm* g_shm = nullptr;
static bool g_confirm = false;          // re-run of a single item after a death: do not record evidence twice

static void cadd(Ctr c, int64_t n = 1) { if (!g_confirm) g_shm->ctr[c] += n; }
static void put(char* dst, size_t cap, const std::string& s) {
    size_t n = std::min(cap - 1, s.size());
    memcpy(dst, s.data(), n); dst[n] = 0;
}
static void emit_violation(const std::string& key, const std::string& what, const std::string& witness) {
    auto s = g_shm;
    for (uint32_t i = 0; i < s->n_viol; ++i) if (key == s->viol[i].key) return;
    if (s->n_viol >= 24) return;
    auto& v = s->viol[s->n_viol];
    put(v.key, sizeof(v.key), key); put(v.what, sizeof(v.what), what);
    // the witness must stay valid JSON: if it is too long, wrap a truncated copy into a string
    if (witness.size() < sizeof(v.witness)) put(v.witness, sizeof(v.witness), witness);
    else put(v.witness, sizeof(v.witness), vh::jstr(witness.substr(0, 3000)));
    s->n_viol++;
}
static void emit_sample(const std::string& js) {
    auto s = g_shm;
    if (g_confirm || s->n_samples >= 4 || js.size() >= sizeof(s->samples[0])) return;
    put(s->samples[s->n_samples++], sizeof(s->samples[0]), js);
}
static void emit_input(uint64_t h, bool nontrivial) {
    if (g_confirm) return;
    auto s = g_shm;
    s->inputs++;
    if (nontrivial && s->n_nt < MAX_NT) s->nt[s->n_nt++] = h;
}

// ------------------------------------------------------------------ small helpers
static std::string esc(std::string_view s, size_t max = 200) {
    std::string o;
    for (size_t i = 0; i < s.size() && i < max; ++i) {
        unsigned char c = s[i];
        if (c == '\r') o += "\\r"; else if (c == '\n') o += "\\n"; else if (c == '\\') o += "\\\\";
        else if (c < 32 || c > 126) { char b[8]; snprintf(b, sizeof(b), "\\x%02x", c); o += b; }
        else o += (char)c;
    }
    if (s.size() > max) o += "...(" + std::to_string(s.size()) + ")";
    return o;
}
static std::string lower(std::string s) { for (auto& c : s) c = tolower((unsigned char)c); return s; }
static std::string_view trim_ows(std::string_view v) {
    while (!v.empty() && (v.front() == ' ' || v.front() == '\t')) v.remove_prefix(1);
    while (!v.empty() && (v.back() == ' ' || v.back() == '\t')) v.remove_suffix(1);
    return v;
}

// ------------------------------------------------------------------ garbage fills of the caller-supplied buffer
constexpr int NFILL = 8;
static const char* fill_name[NFILL] = {"zero", "CR", "CRLF", "colon", "hexdigit", "0xff", "random", "http-ish"};
static std::vector<std::string> g_fill;
static void make_fills(uint64_t seed) {
    g_fill.assign(NFILL, std::string(65536, '\0'));
    vh::Rng r(seed);
    static const char mix[] = "\r\n\r\n0\r\n\r\n: 7f\r\nA: b\r\n";
    for (size_t i = 0; i < 65536; ++i) {
        g_fill[1][i] = '\r';
        g_fill[2][i] = (i & 1) ? '\n' : '\r';
        g_fill[3][i] = ':';
        g_fill[4][i] = "7a"[i & 1];
        g_fill[5][i] = (char)0xff;
        g_fill[6][i] = (char)(1 + r.below(255));
        g_fill[7][i] = mix[i % (sizeof(mix) - 1)];
    }
}

// caller-supplied buffer: exact-size malloc (ASan red zones) or ending at a PROT_NONE page (catches any
// over-read past the end, also from inside libc)
struct CallerBuf {
    char* p = nullptr; size_t cap = 0; void* map = nullptr; size_t maplen = 0;
    CallerBuf(size_t cap_, bool guard) : cap(cap_) {
        if (guard) {
            size_t pg = 4096, body = (cap + pg - 1) / pg * pg;
            maplen = body + pg;
            map = mmap(nullptr, maplen, PROT_READ | PROT_WRITE, MAP_PRIVATE | MAP_ANONYMOUS, -1, 0);
            if (map == MAP_FAILED) { map = nullptr; p = (char*)malloc(cap); return; }
            mprotect((char*)map + body, pg, PROT_NONE);
            p = (char*)map + body - cap;
        } else {
            p = (char*)malloc(cap);
        }
    }
    ~CallerBuf() { if (map) munmap(map, maplen); else free(p); }
    void fill(int id, bool nul_guard) {
        memcpy(p, g_fill[id].data(), cap);
        // Request::parse_request_line runs strlen() over the caller's buffer (known finding, see the probe
        // items); the last byte is a NUL in all other items so that the rest of the code can be explored
        if (nul_guard) p[cap - 1] = 0;
    }
};

// ------------------------------------------------------------------ fragmentation plan + mock stream
struct Plan {
    std::vector<uint32_t> cuts;      // sorted positions where a recv() result ends
    std::string kind;
    uint64_t hash() const { return vh::hash_bytes(cuts.data(), cuts.size() * 4, 77); }
    std::string json() const {
        vh::JArr a;
        for (size_t i = 0; i < cuts.size() && i < 24; ++i) a.add((int64_t)cuts[i]);
        return vh::JObj().kv("kind", kind).kv("ncuts", (uint64_t)cuts.size()).raw("first_cuts", a.str()).str();
    }
};

struct Mock : public ISocketStream {
    const std::string* in = nullptr;
    const std::vector<uint32_t>* cuts = nullptr;
    size_t pos = 0, ci = 0;
    uint64_t calls = 0, bound = ~0ull, recv_calls = 0;
    bool overrun = false, closed = false;
    std::string out;                 // captured writes
    size_t last_recv_start = 0, last_recv_n = 0;
    uint64_t tmo = -1;

    bool step() {
        if (++calls > bound) { overrun = true; errno = EIO; return false; }
        g_shm->progress++;
        return true;
    }
    ssize_t piece(void* buf, size_t count) {
        if (!in) return 0;
        size_t avail = in->size() - pos;
        while (cuts && ci < cuts->size() && (*cuts)[ci] <= pos) ++ci;
        size_t lim = (cuts && ci < cuts->size()) ? (*cuts)[ci] - pos : avail;
        size_t n = std::min(count, std::min(avail, lim));
        if (n) memcpy(buf, in->data() + pos, n);
        pos += n;
        return n;
    }
    ssize_t recv(void* buf, size_t count, int flags = 0) override {
        if (!step()) return -1;
        recv_calls++;
        last_recv_start = pos;
        auto n = piece(buf, count);
        last_recv_n = n;
        return n;
    }
    ssize_t recv(const struct iovec* iov, int iovcnt, int flags = 0) override {
        for (int i = 0; i < iovcnt; ++i) if (iov[i].iov_len) return recv(iov[i].iov_base, iov[i].iov_len, flags);
        return step() ? 0 : -1;
    }
    ssize_t read(void* buf, size_t count) override {       // fully-read semantics, as the real socket streams
        if (!step()) return -1;
        size_t got = 0;
        while (got < count) {
            auto n = piece((char*)buf + got, count - got);
            if (n <= 0) break;
            got += n;
        }
        return got;
    }
    ssize_t readv(const struct iovec* iov, int iovcnt) override {
        if (!step()) return -1;
        ssize_t s = 0;
        for (int i = 0; i < iovcnt; ++i) {
            size_t got = 0;
            while (got < iov[i].iov_len) {
                auto n = piece((char*)iov[i].iov_base + got, iov[i].iov_len - got);
                if (n <= 0) return s + got;
                got += n;
            }
            s += got;
        }
        return s;
    }
    ssize_t send(const void* buf, size_t count, int flags = 0) override {
        if (!step()) return -1;
        out.append((const char*)buf, count);
        return count;
    }
    ssize_t send(const struct iovec* iov, int iovcnt, int flags = 0) override {
        if (!step()) return -1;
        ssize_t s = 0;
        for (int i = 0; i < iovcnt; ++i) { out.append((const char*)iov[i].iov_base, iov[i].iov_len); s += iov[i].iov_len; }
        return s;
    }
    ssize_t write(const void* buf, size_t count) override { return send(buf, count); }
    ssize_t writev(const struct iovec* iov, int iovcnt) override { return send(iov, iovcnt); }
    ssize_t sendfile(int, off_t, size_t) override { errno = ENOSYS; return -1; }
    int close() override { closed = true; return 0; }
    Object* get_underlay_object(uint64_t) override { return nullptr; }
    int setsockopt(int, int, const void*, socklen_t) override { errno = ENOSYS; return -1; }
    int getsockopt(int, int, void*, socklen_t*) override { errno = ENOSYS; return -1; }
    int getsockname(EndPoint&) override { errno = ENOSYS; return -1; }
    int getpeername(EndPoint&) override { errno = ENOSYS; return -1; }
    int getsockname(char*, size_t) override { errno = ENOSYS; return -1; }
    int getpeername(char*, size_t) override { errno = ENOSYS; return -1; }
    uint64_t timeout() const override { return tmo; }
    void timeout(uint64_t t) override { tmo = t; }
};

// receive_header/send_header are protected (the library's client and server are friends): expose them
struct XReq : public Request {
    using Request::Request;
    using Message::receive_header;
    using Message::send_header;
};
struct XResp : public Response {
    using Response::Response;
    using Message::receive_header;
    using Message::send_header;
};

// ------------------------------------------------------------------ generator of valid messages (the model)
enum Framing { F_NONE = 0, F_CL, F_CHUNKED, F_CLOSE };
static const char* framing_name[] = {"none", "content-length", "chunked", "close"};

struct Wire {
    std::string bytes;               // message (+ optional tail that does not belong to it)
    bool is_req = true;
    int framing = F_NONE;
    Verb verb = Verb::GET;           // request verb / for responses: the verb of the request answered
    std::string verb_s, target, version, reason;
    int code = 0;
    std::vector<std::pair<std::string, std::string>> headers;   // as put on the wire; value without surrounding OWS
    std::string body;
    uint32_t hdr_len = 0, msg_len = 0, term_at = 0;
    std::vector<uint32_t> hdr_crlf, data_crlf;
    std::vector<std::pair<uint32_t, uint32_t>> size_lines;
    uint32_t cl_val_at = 0, cl_val_len = 0;                      // where the Content-Length value sits
    bool big_chunk = false, after_last = false, has_ext = false;
    uint16_t cap = 65535;
    std::string cls_override, cls_suffix;
    std::string cls() const {
        if (!cls_override.empty()) return cls_override;
        return std::string(is_req ? "req-" : "resp-") + framing_name[framing] + (!is_req && verb == Verb::HEAD ? "-head" : "") + cls_suffix;
    }
};

static const char TOKEN[] = "abcdefghijklmnopqrstuvwxyzABCDEFGHIJKLMNOPQRSTUVWXYZ0123456789-_";
static std::string rnd_token(vh::Rng& r, int lo, int hi) {
    std::string s;
    int n = r.range(lo, hi);
    for (int i = 0; i < n; ++i) s += TOKEN[r.below(sizeof(TOKEN) - 1)];
    return s;
}
static std::string rnd_case(vh::Rng& r, std::string s) {
    switch (r.below(4)) {
    case 0: return s;
    case 1: for (auto& c : s) c = tolower((unsigned char)c); return s;
    case 2: for (auto& c : s) c = toupper((unsigned char)c); return s;
    default: for (auto& c : s) c = r.chance(1, 2) ? tolower((unsigned char)c) : toupper((unsigned char)c); return s;
    }
}
static std::string rnd_value(vh::Rng& r, size_t maxlen) {
    size_t n;
    switch (r.below(10)) {
    case 0: n = 0; break;
    case 1: n = r.range(1, 3); break;
    case 2: n = r.range(60, 300); break;
    default: n = r.range(1, 40);
    }
    if (r.chance(1, 40)) n = r.range(300, 6000);
    n = std::min(n, maxlen);
    std::string s;
    for (size_t i = 0; i < n; ++i) {
        auto k = r.below(40);
        if (k == 0) s += ' '; else if (k == 1) s += '\t'; else if (k == 2) s += ':'; else if (k == 3) s += ',';
        else s += (char)r.range(33, 126);
    }
    return std::string(trim_ows(s));
}
static std::string rnd_body(vh::Rng& r, bool thorough) {
    size_t n;
    switch (r.below(16)) {
    case 0: n = 0; break;
    case 1: n = 1; break;
    case 2: n = 2; break;
    case 3: case 4: n = r.range(3, 100); break;
    case 5: case 6: case 7: n = r.range(100, 3000); break;
    case 8: n = 4096 + (int64_t)r.range(0, 6) - 3; break;
    case 9: n = r.range(4000, 12000); break;
    case 10: n = r.range(12000, thorough ? 70000 : 40000); break;
    default: n = r.range(1, 600);
    }
    std::string s(n, '\0');
    int mode = r.below(4);
    static const char tricky[] = "0\r\n\r\n5\r\nab\r\n\r\n\r\n1a;x\r\n";
    for (size_t i = 0; i < n; ++i) {
        if (mode == 0) s[i] = (char)r.below(256);
        else if (mode == 1) s[i] = (char)r.range(32, 126);
        else if (mode == 2) s[i] = tricky[r.below(sizeof(tricky) - 1)];
        else s[i] = "\r\n0aF:"[r.below(6)];
    }
    return s;
}
static size_t rnd_chunk_size(vh::Rng& r, size_t remain) {
    size_t n;
    switch (r.below(12)) {
    case 0: n = 1; break;
    case 1: n = 2; break;
    case 2: n = r.range(15, 17); break;
    case 3: n = r.range(255, 257); break;
    case 4: n = r.range(4095, 4097); break;
    case 5: n = r.range(4096, 20000); break;
    case 6: n = remain; break;
    case 7: n = r.range(1000, 4000); break;
    default: n = r.range(1, 200);
    }
    return std::max<size_t>(1, std::min(n, remain));
}

static const char* COMMON_KEYS[] = {"Accept", "Accept-Encoding", "User-Agent", "X-Request-Id", "Cache-Control", "Cookie", "ETag",
                                    "Date", "Server", "Content-Type", "X-Forwarded-For", "Authorization", "Vary", "Via", "a", "Z"};
static const Verb BODY_VERBS[] = {Verb::POST, Verb::PUT, Verb::PATCH, Verb::DELETE, Verb::PROPFIND, Verb::REPORT, Verb::MSEARCH};
static const Verb ANY_VERBS[] = {Verb::GET, Verb::GET, Verb::HEAD, Verb::POST, Verb::PUT, Verb::DELETE, Verb::OPTIONS, Verb::TRACE,
                                 Verb::COPY, Verb::LOCK, Verb::MKCOL, Verb::MOV, Verb::UNLINK, Verb::PURGE, Verb::CONNECT, Verb::ACL};

static std::string rnd_target(vh::Rng& r) {
    std::string t;
    switch (r.below(8)) {
    case 0: return "/";
    case 1: t = "http://" + lower(rnd_token(r, 1, 12)) + ".example:8080"; break;
    default: break;
    }
    int segs = r.range(1, 5);
    for (int i = 0; i < segs; ++i) {
        t += "/" + rnd_token(r, 0, r.chance(1, 30) ? 300 : 12);
        if (r.chance(1, 8)) t += "%2F";
    }
    if (r.chance(1, 3)) t += "?" + rnd_token(r, 1, 8) + "=" + rnd_token(r, 0, 20) + (r.chance(1, 2) ? "&x=:y" : "");
    return t;
}

static void append_chunked(vh::Rng& r, Wire& w, const std::string& body) {
    auto& b = w.bytes;
    size_t off = 0;
    while (off < body.size()) {
        size_t n = rnd_chunk_size(r, body.size() - off);
        char num[40];
        snprintf(num, sizeof(num), r.chance(1, 2) ? "%zx" : "%zX", n);
        std::string line = num;
        if (r.chance(1, 8)) line = std::string(r.range(1, 3), '0') + line;
        if (r.chance(1, 16)) { line += ";" + rnd_token(r, 1, 8) + (r.chance(1, 2) ? "=" + rnd_token(r, 1, 8) : ""); w.has_ext = true; }
        line += "\r\n";
        w.size_lines.push_back({(uint32_t)b.size(), (uint32_t)(b.size() + line.size())});
        b += line;
        b.append(body, off, n);
        w.data_crlf.push_back(b.size());
        b += "\r\n";
        if (n >= 4096) w.big_chunk = true;
        off += n;
    }
    std::string last = std::string(r.chance(1, 8) ? r.range(2, 4) : 1, '0') + "\r\n";
    w.size_lines.push_back({(uint32_t)b.size(), (uint32_t)(b.size() + last.size())});
    b += last;
    if (r.chance(1, 6)) {        // trailer section
        int n = r.range(1, 2);
        for (int i = 0; i < n; ++i) b += "X-Trailer-" + rnd_token(r, 1, 6) + ": " + rnd_value(r, 30) + "\r\n";
        w.after_last = true;
    }
    b += "\r\n";
}

// `small` keeps the message short (used as base of mutations and for exhaustive split-point pairs)
static Wire gen_valid(vh::Rng& r, bool thorough, bool small, int force_req = -1) {
    Wire w;
    w.is_req = r.chance(1, 2);
    if (force_req >= 0) w.is_req = force_req;
    w.cap = r.pick<uint16_t>({65535, 65535, 65535, 40000, 20000, 12000, 9400});
    // framing
    int fr = r.below(10);
    if (w.is_req) w.framing = fr < 3 ? F_NONE : fr < 6 ? F_CL : F_CHUNKED;
    else w.framing = fr < 1 ? F_NONE : fr < 4 ? F_CL : fr < 8 ? F_CHUNKED : F_CLOSE;
    w.version = "1.1";
    bool head_resp = false;
    if (w.is_req) {
        w.verb = (w.framing == F_NONE) ? ANY_VERBS[r.below(sizeof(ANY_VERBS) / sizeof(Verb))] : BODY_VERBS[r.below(sizeof(BODY_VERBS) / sizeof(Verb))];
        w.verb_s = std::string(verbstr[w.verb]);
        w.target = (w.verb == Verb::OPTIONS && r.chance(1, 2)) ? "*" : (w.verb == Verb::CONNECT ? "host.example:443" : rnd_target(r));
        if (r.chance(1, 10)) w.version = "1.0";
    } else {
        static const int codes[] = {200, 200, 200, 201, 206, 301, 302, 400, 404, 500, 503, 226, 299, 418, 599, 999};
        w.code = codes[r.below(sizeof(codes) / sizeof(int))];
        switch (r.below(5)) {
        case 0: w.reason = ""; break;
        case 1: w.reason = "OK"; break;
        case 2: w.reason = "Not Found"; break;
        case 3: w.reason = rnd_token(r, 1, 10) + " " + rnd_token(r, 1, 10) + " : x"; break;
        default: w.reason = rnd_token(r, 1, 30);
        }
        w.verb = Verb::GET;
        if (w.framing == F_CL && r.chance(1, 6)) { head_resp = true; w.verb = Verb::HEAD; }
        if (w.framing == F_CLOSE && r.chance(1, 3)) w.version = "1.0";
        else if (w.framing != F_CLOSE && w.framing != F_NONE && r.chance(1, 12)) w.version = "1.0";
    }
    w.body = (w.framing == F_NONE) ? "" : rnd_body(r, thorough);
    if (small && w.body.size() > 300) w.body.resize(r.range(0, 300));
    // header fields
    int nh;
    switch (r.below(8)) {
    case 0: nh = 0; break;
    case 1: nh = 1; break;
    case 2: nh = r.range(20, 60); break;
    case 3: nh = 60; break;
    default: nh = r.range(2, 12);
    }
    if (small) nh = std::min<int>(nh, r.range(0, 4));
    std::vector<std::pair<std::string, std::string>> hs;
    // field names over a tiny alphabet in both cases: many near-equal names for the sorted index
    bool tiny_alpha = !small && r.chance(1, 12);
    if (tiny_alpha) { nh = r.range(3, 60); w.cls_suffix = "-similar-names"; }
    for (int i = 0; i < nh; ++i) {
        std::string k;
        if (tiny_alpha) { int n = r.range(1, 14); for (int j = 0; j < n; ++j) k += "yYzZab-A"[r.below(8)]; hs.push_back({k, rnd_value(r, 20)}); continue; }
        if (!hs.empty() && r.chance(1, 6)) k = rnd_case(r, hs[r.below(hs.size())].first);      // duplicate, other case
        else if (r.chance(1, 2)) k = rnd_case(r, COMMON_KEYS[r.below(sizeof(COMMON_KEYS) / sizeof(char*))]);
        else k = rnd_token(r, 1, 24);
        auto lk = lower(k);
        if (lk == "content-length" || lk == "transfer-encoding" || lk == "connection" || lk == "trailer" || lk == "content-range") k += "-x";
        hs.push_back({k, rnd_value(r, small ? 40 : 6000)});
    }
    // framing fields at seeded positions
    auto ins = [&](const std::string& k, const std::string& v) {
        hs.insert(hs.begin() + r.below(hs.size() + 1), {rnd_case(r, k), v});
    };
    size_t cl_announced = w.body.size();
    if (head_resp) { cl_announced = r.range(0, 100000); }
    if (w.framing == F_CL) ins("Content-Length", std::to_string(cl_announced));
    if (w.framing == F_CHUNKED) ins("Transfer-Encoding", "chunked");
    if (w.framing == F_CLOSE && (w.version == "1.1" || r.chance(1, 2))) ins("Connection", "close");
    if ((w.framing == F_CL || w.framing == F_CHUNKED) && r.chance(1, 8)) ins("Connection", r.chance(1, 2) ? "close" : "keep-alive");
    if (w.framing == F_CL && !w.is_req && w.code == 206 && !head_resp && !w.body.empty())
        ins("Content-Range", "bytes 0-" + std::to_string(w.body.size() - 1) + "/" + std::to_string(w.body.size() + r.below(1000)));
    // start line
    auto& b = w.bytes;
    if (w.is_req) b = w.verb_s + " " + w.target + " HTTP/" + w.version;
    else b = "HTTP/" + w.version + " " + std::to_string(w.code) + " " + w.reason;
    w.hdr_crlf.push_back(b.size());
    b += "\r\n";
    // buffer budget: the header must be acceptable whatever amount of body arrives with its last bytes
    // (receive needs cap - size > 4096+1024 before every recv, the chunked reader needs 4096 free bytes after the
    //  bytes received, the index takes 8 bytes per field)
    auto budget_of = [&](size_t cap) { return cap - 8192 - 64 - 200 - 8 * (hs.size() + 1); };
    if (b.size() + 400 > budget_of(w.cap)) w.cap = 65535;
    size_t budget = budget_of(w.cap);
    for (auto& kv : hs) {
        std::string lead = r.pick<const char*>({" ", " ", " ", "", "  ", "\t", " \t "});
        std::string trail = r.chance(1, 12) ? (r.chance(1, 2) ? " " : "\t") : "";
        std::string line = kv.first + ":" + lead + kv.second + trail;
        auto lk = lower(kv.first);
        bool framing_field = lk == "content-length" || lk == "transfer-encoding" || lk == "connection" || lk == "content-range";
        if (framing_field) line = kv.first + ":" + (r.chance(1, 6) ? "" : " ") + kv.second;   // keep what the library compares exactly
        if (!framing_field && b.size() + line.size() + 2 + 2 > budget) continue;   // drop optional fields that do not fit
        if (lk == "content-length") { w.cl_val_at = b.size() + line.size() - kv.second.size(); w.cl_val_len = kv.second.size(); }
        b += line;
        w.hdr_crlf.push_back(b.size());
        b += "\r\n";
        w.headers.push_back(kv);
    }
    w.term_at = b.size() - 2;
    b += "\r\n";
    w.hdr_len = b.size();
    // body
    if (head_resp) { w.body.clear(); }
    else if (w.framing == F_CL || w.framing == F_CLOSE) b += w.body;
    else if (w.framing == F_CHUNKED) append_chunked(r, w, w.body);
    w.msg_len = b.size();
    // bytes after the message (garbage or a pipelined message): they are not part of it
    bool tail_ok = w.framing == F_CL || w.framing == F_CHUNKED;
    if (w.framing == F_NONE && w.version == "1.1") {
        bool conn_close = false;
        for (auto& kv : w.headers) if (lower(kv.first) == "connection") conn_close = true;
        tail_ok = !conn_close;
    }
    if (tail_ok && r.chance(1, 4)) {
        if (r.chance(1, 2)) b += "GET /next HTTP/1.1\r\nHost: x\r\n\r\n";
        else { int n = r.range(1, 40); for (int i = 0; i < n; ++i) b += (char)r.below(256); }
        if (w.framing == F_CHUNKED) w.after_last = true;
    }
    return w;
}

// ------------------------------------------------------------------ fragmentation plans
static Plan plan_whole() { return Plan{{}, "whole"}; }
static Plan plan_cuts(std::vector<uint32_t> c, size_t len, const char* kind) {
    std::sort(c.begin(), c.end());
    c.erase(std::unique(c.begin(), c.end()), c.end());
    std::vector<uint32_t> o;
    for (auto x : c) if (x > 0 && x < len) o.push_back(x);
    return Plan{o, kind};
}
static Plan plan_every(size_t len, size_t step, const char* kind) {
    std::vector<uint32_t> c;
    for (size_t i = step; i < len; i += step) c.push_back(i);
    return Plan{c, kind};
}
// one byte at a time inside [0, upto) and around the given structural offsets, larger pieces elsewhere
static Plan plan_one_byte(size_t len, size_t upto, const std::vector<uint32_t>& zones) {
    std::vector<uint32_t> c;
    for (size_t i = 1; i < std::min(len, upto); ++i) c.push_back(i);
    for (auto z : zones) for (int d = -6; d <= 8; ++d) if ((int64_t)z + d > 0) c.push_back(z + d);
    for (size_t i = upto; i < len; i += 3001) c.push_back(i);
    return plan_cuts(c, len, "one-byte");
}
static Plan plan_random(vh::Rng& r, size_t len) {
    std::vector<uint32_t> c;
    if (len < 2) return plan_whole();
    size_t avg = r.pick<size_t>({2, 5, 17, 100, 700, 3000, 5000});
    size_t pos = 0;
    while (true) {
        pos += 1 + r.below(2 * avg);
        if (pos >= len || c.size() > 40000) break;
        c.push_back(pos);
    }
    Plan p{c, "random"};
    return p;
}
// structural split points of a valid message: around every CRLF of the header, inside the terminator,
// inside every chunk-size line, around the CRLF after chunk data, the first body bytes
static std::vector<uint32_t> structural_points(const Wire& w) {
    std::vector<uint32_t> s;
    for (auto c : w.hdr_crlf) for (int d = -1; d <= 3; ++d) s.push_back(c + d);
    for (int d = 0; d <= 4; ++d) s.push_back(w.term_at + d);
    for (int d = 1; d <= 3; ++d) s.push_back(w.hdr_len + d);
    for (auto& l : w.size_lines) for (uint32_t x = l.first; x <= l.second; ++x) s.push_back(x);
    for (auto c : w.data_crlf) for (int d = -1; d <= 3; ++d) s.push_back(c + d);
    s.push_back(w.msg_len); s.push_back(w.msg_len - 1); s.push_back(w.msg_len + 1);
    std::sort(s.begin(), s.end());
    s.erase(std::unique(s.begin(), s.end()), s.end());
    std::vector<uint32_t> o;
    for (auto x : s) if (x > 0 && x < w.bytes.size()) o.push_back(x);
    return o;
}
// the most delicate ones: inside the terminator and inside chunk-size lines / data CRLFs
static std::vector<uint32_t> critical_points(const Wire& w) {
    std::vector<uint32_t> s;
    for (int d = 1; d <= 3; ++d) s.push_back(w.term_at + d);
    for (auto& l : w.size_lines) for (uint32_t x = l.first + 1; x < l.second; ++x) s.push_back(x);
    for (auto c : w.data_crlf) s.push_back(c + 1);
    return s;
}

struct PlanFacts { bool term_split = false, chunkline_split = false, datacrlf_split = false; };
static PlanFacts plan_facts(const Wire& w, const Plan& p) {
    PlanFacts f;
    auto inside = [&](uint32_t a, uint32_t b) {       // a cut c with a < c < b
        auto it = std::upper_bound(p.cuts.begin(), p.cuts.end(), a);
        return it != p.cuts.end() && *it < b;
    };
    f.term_split = inside(w.term_at, w.term_at + 4);
    for (auto& l : w.size_lines) if (inside(l.first, l.second)) { f.chunkline_split = true; break; }
    for (auto c : w.data_crlf) if (inside(c, c + 2)) { f.datacrlf_split = true; break; }
    return f;
}

// ------------------------------------------------------------------ one parse of one byte string
struct Tuple {
    int rc_hdr = -99;
    std::string start;                                               // request line / status line as the API exposes it
    std::vector<std::pair<std::string, std::string>> hdrs;            // iteration order, raw
    uint64_t body_size_api = 0;
    uint64_t body_len = 0, body_hash = 0;                            // the body bytes read (summary; compared across runs)
    std::string body_head;                                           // first bytes, for witnesses
    int body_rel = -1;                                               // vs the expected payload: 0 equal, 1 proper prefix of it, 2 longer (payload is a prefix), 3 other, -1 n/a
    int end_status = 2;                                              // 0 end-of-body seen, -1 error, 2 body not read
    std::vector<std::pair<int, std::string>> lookups;                 // per probe key: equal_range count, operator[] value
    // not compared:
    uint64_t calls = 0, hdr_consumed = 0, hdr_recvs = 0;
    int index_miss = 0;          // fields that the iteration lists but find() with the identical spelling does not find
    bool raw_equal(const Tuple& o) const {
        return rc_hdr == o.rc_hdr && start == o.start && hdrs == o.hdrs && body_size_api == o.body_size_api &&
               body_len == o.body_len && body_hash == o.body_hash && end_status == o.end_status && lookups == o.lookups;
    }
    std::string first_diff(const Tuple& o) const {
        if (rc_hdr != o.rc_hdr) return "header-status";
        if (start != o.start) return "start-line";
        if (hdrs != o.hdrs) return "headers";
        if (body_size_api != o.body_size_api) return "body-size";
        if (body_len != o.body_len || body_hash != o.body_hash) return "body";
        if (end_status != o.end_status) return "end-of-body";
        if (lookups != o.lookups) return "header-lookup";
        return "";
    }
    std::string json() const {
        vh::JArr h;
        for (size_t i = 0; i < hdrs.size() && i < 8; ++i) h.raw(vh::JArr().add(esc(hdrs[i].first, 60)).add(esc(hdrs[i].second, 60)).str());
        return vh::JObj().kv("rc_header", rc_hdr).kv("start", esc(start, 120)).kv("n_headers", (uint64_t)hdrs.size()).raw("headers_first8", h.str())
            .kv("body_size_api", body_size_api).kv("body_len", body_len).kv("body_head", esc(body_head, 60))
            .kv("body_hash", body_hash).kv("end_status", end_status).kv("mock_calls", calls).kv("index_lookup_misses", index_miss).str();
    }
};

struct ParseCtx {                 // what the violation reports need to know
    std::string family;           // valid | malformed | roundtrip | valid-unterminated-buffer
    std::string cls;              // message class (req-chunked, ...) / mutation class
    const std::string* bytes = nullptr;
    const Plan* plan = nullptr;
    int fill = 0;
    uint16_t cap = 0;
    std::string witness(const std::string& extra = "") const {
        vh::JObj o;
        o.kv("family", family).kv("class", cls).kv("len", (uint64_t)bytes->size()).kv("cap", (unsigned)cap)
         .kv("fill", fill_name[fill]).raw("plan", plan->json()).kv("input_escaped", esc(*bytes, 700)).kv("input_hex", vh::hex(bytes->data(), bytes->size(), 900));
        if (!extra.empty()) o.raw("detail", extra);
        return o.str();
    }
};

static bool view_ok(std::string_view v, const char* buf, size_t cap, size_t received, const ParseCtx& cx, const char* what, bool& copy_ok) {
    copy_ok = true;
    if (v.empty()) return true;
    if (v.data() < buf || v.data() + v.size() > buf + cap) {
        copy_ok = false;
        emit_violation(cx.family + "/exposed-outside-buffer:" + what, "the API exposed a string that lies outside the caller-supplied buffer",
                       cx.witness(vh::JObj().kv("offset", (int64_t)(v.data() - buf)).kv("size", (uint64_t)v.size()).str()));
        return false;
    }
    if (v.data() + v.size() > buf + received) {
        emit_violation(cx.family + "/exposed-outside-message:" + what, "the API exposed bytes of the buffer that were never received",
                       cx.witness(vh::JObj().kv("offset", (int64_t)(v.data() - buf)).kv("size", (uint64_t)v.size()).kv("received", (uint64_t)received).str()));
        return false;
    }
    return true;
}

static const std::vector<std::string>* g_probe_keys = nullptr;     // header names looked up after a successful parse

// rseed drives the sizes of the body reads
static Tuple run_parse(const std::string& bytes, bool is_req, Verb resp_to, uint16_t cap, const Plan& plan, int fill,
                       uint64_t rseed, bool guard, bool nul_guard, ParseCtx cx, const std::string* expect_body = nullptr) {
    cx.bytes = &bytes; cx.plan = &plan; cx.fill = fill; cx.cap = cap;
    g_shm->stage_fill = fill;
    Tuple t;
    // buffers are reused between parses (an exact-size allocation keeps its red zones; fresh 64 KiB blocks for every
    // parse would only exercise the allocator)
    static std::map<std::pair<uint16_t, bool>, CallerBuf*> pool;
    auto& slot = pool[{cap, guard}];
    if (!slot) slot = new CallerBuf(cap, guard);
    CallerBuf& cb = *slot;
    if (guard) cadd(K_GUARD_BUFS);
    cb.fill(fill, nul_guard);
    Mock m;
    m.in = &bytes; m.cuts = &plan.cuts;
    m.bound = 8 * (uint64_t)bytes.size() + 64;
    vh::Rng r(rseed);
    XReq* rq = nullptr; XResp* rs = nullptr;
    Message* msg;
    if (is_req) { rq = new XReq(cb.p, cap); rq->reset(&m, false); msg = rq; }
    else { rs = new XResp(cb.p, cap); rs->reset(cb.p, cap, false, &m, false, resp_to); msg = rs; }
    t.rc_hdr = is_req ? rq->receive_header() : rs->receive_header();
    t.hdr_consumed = m.pos; t.hdr_recvs = m.recv_calls;
    cadd(K_PARSES); if (!g_confirm) g_shm->events++;
    if (t.rc_hdr == 0) {
        bool c;
        auto add = [&](std::string_view v, const char* what) {
            view_ok(v, cb.p, cap, t.hdr_consumed, cx, what, c);
            if (c) t.start.append(v.data(), v.size());
            t.start += '|';
        };
        if (is_req) {
            t.start = std::to_string((int)rq->verb()) + "|";
            add(rq->target(), "target"); add(rq->version(), "version");
        } else {
            add(rs->version(), "version");
            t.start += std::to_string(rs->status_code()) + "|";
            add(rs->status_message(), "status-message");
        }
        size_t guard_n = 0;
        for (auto it = msg->headers.begin(); it != msg->headers.end() && guard_n < 70000; ++it, ++guard_n) {
            auto k = it.first(), v = it.second();
            bool ck, cv;
            view_ok(k, cb.p, cap, t.hdr_consumed, cx, "header-name", ck);
            view_ok(v, cb.p, cap, t.hdr_consumed, cx, "header-value", cv);
            t.hdrs.push_back({ck ? std::string(k) : std::string("?"), cv ? std::string(v) : std::string("?")});
            if (ck && msg->headers.find(k) == msg->headers.end()) t.index_miss++;
        }
        t.body_size_api = msg->body_size();
        if (g_probe_keys)
            for (auto& k : *g_probe_keys) {
                auto er = msg->headers.equal_range(k);
                auto v = msg->headers[k];
                bool cv;
                view_ok(v, cb.p, cap, t.hdr_consumed, cx, "header-value", cv);
                t.lookups.push_back({(int)er.second.i - (int)er.first.i, cv ? std::string(v) : std::string("?")});
            }
        // body: destination buffers are exact-size heap blocks (an overflow of the caller's buffer is visible to ASan);
        // blocks of the recurring sizes are kept and reused, the others are allocated per call
        static std::string acc;
        acc.clear();
        static std::map<size_t, std::vector<char*>> dpool;
        std::vector<std::pair<size_t, char*>> borrowed;
        auto get = [&](size_t cnt) {
            char* d;
            auto& v = dpool[cnt];
            if (!v.empty()) { d = v.back(); v.pop_back(); } else d = (char*)malloc(cnt);
            memset(d, 0xEE, cnt);
            borrowed.push_back({cnt, d});
            return d;
        };
        auto give_back = [&] {
            for (auto& b : borrowed) { if (b.first <= 8 || b.first == 100 || b.first == 64 || b.first >= 1000) dpool[b.first].push_back(b.second); else free(b.second); }
            borrowed.clear();
        };
        size_t limit = bytes.size() + 16;
        bool tiny = bytes.size() <= 3000 && r.chance(1, 3);
        while (true) {
            ssize_t n;
            bool use_v = r.chance(1, 3);
            if (!use_v) {
                size_t cnt = tiny ? r.range(1, 3) : r.chance(1, 8) ? r.range(9, 999) : r.pick<size_t>({1, 7, 100, 1000, 4095, 4096, 4097, 8192, 20000});
                char* d = get(cnt);
                n = msg->read(d, cnt);
                cadd(K_READ_CALLS);
                if (n > (ssize_t)cnt) {
                    emit_violation(cx.family + "/read-returned-more-than-asked", "read() returned more than count", cx.witness());
                    n = cnt;
                }
                if (n > 0) acc.append(d, n);
            } else {
                int k = r.range(1, 4);
                struct iovec iov[4];
                size_t total = 0;
                for (int i = 0; i < k; ++i) {
                    size_t cnt = tiny ? r.range(1, 3) : r.chance(1, 8) ? r.range(9, 999) : r.pick<size_t>({1, 3, 64, 1000, 4096, 5000});
                    iov[i].iov_base = get(cnt); iov[i].iov_len = cnt;
                    total += cnt;
                }
                n = msg->readv(iov, k);
                cadd(K_READV_CALLS);
                if (n > (ssize_t)total) {
                    emit_violation(cx.family + "/read-returned-more-than-asked", "readv() returned more than the iovec holds", cx.witness());
                    n = total;
                }
                ssize_t left = n;
                for (int i = 0; i < k && left > 0; ++i) { size_t c2 = std::min<size_t>(left, iov[i].iov_len); acc.append((char*)iov[i].iov_base, c2); left -= c2; }
            }
            give_back();
            if (n < 0) { t.end_status = -1; break; }
            if (n == 0) {
                t.end_status = 0;
                char x[8];
                auto again = msg->read(x, sizeof(x));
                if (again > 0)
                    emit_violation(cx.family + "/bytes-after-end-of-body", "read() returned 0 (end of body) and then returned more bytes", cx.witness());
                break;
            }
            if (acc.size() > limit) {
                emit_violation(cx.family + "/body-longer-than-input", "the body reader returned more bytes than the whole input contains", cx.witness());
                break;
            }
            if (m.overrun) break;
        }
        t.body_len = acc.size(); t.body_hash = vh::hash_bytes(acc.data(), acc.size()); t.body_head = acc.substr(0, 64);
        if (expect_body) {
            auto& e = *expect_body;
            t.body_rel = acc == e ? 0 : (acc.size() < e.size() && e.compare(0, acc.size(), acc) == 0) ? 1 : (acc.size() > e.size() && acc.compare(0, e.size(), e) == 0) ? 2 : 3;
        }
    }
    t.calls = m.calls;
    if (m.overrun)
        emit_violation(cx.family + "/endless-loop", "more than 8*len+64 calls into the stream for one input",
                       cx.witness(vh::JObj().kv("calls", m.calls).kv("len", (uint64_t)bytes.size()).str()));
    delete msg;
    return t;
}

// ------------------------------------------------------------------ item: one valid message under many fragmentations
static bool g_thorough = false;
static uint64_t g_xseed = 1;

static std::vector<Plan> plans_for_valid(vh::Rng& r, const Wire& w, size_t budget) {
    size_t len = w.bytes.size();
    std::vector<Plan> out;
    out.push_back(plan_whole());
    {
        std::vector<uint32_t> zones;
        for (auto& l : w.size_lines) zones.push_back(l.first);
        out.push_back(len <= 20000 ? plan_one_byte(len, len, {}) : plan_one_byte(len, w.hdr_len + 64, zones));
    }
    out.push_back(plan_cuts({w.term_at + 1, w.term_at + 2, w.term_at + 3}, len, "terminator-3cuts"));
    auto S = structural_points(w);
    auto C = critical_points(w);
    // candidates as (a, b) cut pairs (b == 0: single cut); materialised only when chosen
    struct Cand { uint32_t a, b; bool crit; };
    std::vector<Cand> cand;
    std::set<uint32_t> cs(C.begin(), C.end());
    auto add = [&](uint32_t a, uint32_t b) { cand.push_back({a, b, cs.count(a) || (b && cs.count(b))}); };
    for (auto x : S) add(x, 0);
    if (S.size() <= 26) {
        for (size_t i = 0; i < S.size(); ++i)
            for (size_t j = i + 1; j < S.size(); ++j) add(S[i], S[j]);
    } else {
        for (size_t i = 0; i + 1 < S.size(); ++i) {
            add(S[i], S[i + 1]);
            if (i + 2 < S.size()) add(S[i], S[i + 2]);
        }
        for (size_t i = 0; i < 64 && !C.empty(); ++i) add(C[r.below(C.size())], S[r.below(S.size())]);
    }
    std::vector<Plan> extra;
    static const size_t steps[] = {2, 3, 5, 1000, 4095, 4096, 4097};
    for (int i = 0; i < 2; ++i) {
        size_t st = steps[r.below(7)];
        if (len / st < 50000) extra.push_back(plan_every(len, st, "uniform"));
    }
    if (!C.empty()) { extra.push_back(plan_cuts(C, len, "all-critical")); extra.push_back(plan_cuts(S, len, "all-structural")); }
    for (int i = 0; i < 4; ++i) extra.push_back(plan_random(r, len));
    size_t room = budget > out.size() + extra.size() ? budget - out.size() - extra.size() : 0;
    auto mat = [&](const Cand& c) {
        if (c.b) out.push_back(plan_cuts({c.a, c.b}, len, "pair")); else out.push_back(plan_cuts({c.a}, len, "single"));
    };
    if (cand.size() <= room) { for (auto& c : cand) mat(c); }
    else {
        // half of the room for plans cutting a critical point (inside the terminator / a chunk-size line / a data CRLF)
        for (size_t i = 0; i + 1 < cand.size(); ++i) std::swap(cand[i], cand[i + r.below(cand.size() - i)]);
        size_t taken = 0;
        std::vector<char> used(cand.size(), 0);
        for (size_t i = 0; i < cand.size() && taken < room / 2; ++i) if (cand[i].crit) { mat(cand[i]); used[i] = 1; ++taken; }
        for (size_t i = 0; i < cand.size() && taken < room; ++i) if (!used[i]) { mat(cand[i]); ++taken; }
    }
    for (auto& p : extra) out.push_back(std::move(p));
    return out;
}

static std::string model_start(const Wire& w) {
    if (w.is_req) return std::to_string((int)w.verb) + "|" + w.target + "|" + w.version + "|";
    return w.version + "|" + std::to_string(w.code) + "|" + w.reason + "|";
}
using MMap = std::multiset<std::pair<std::string, std::string>>;
static MMap multimap_of(const std::vector<std::pair<std::string, std::string>>& h) {
    MMap m;
    for (auto& kv : h) m.insert({lower(kv.first), std::string(trim_ows(kv.second))});
    return m;
}

static void check_against_model(const Wire& w, const Tuple& t, const std::vector<std::string>& probes, ParseCtx& cx) {
    // A field that the iteration lists but that find() does not find under its own spelling means that the sorted
    // index of the header is out of order; framing decisions (Content-Length / Transfer-Encoding / Connection lookups)
    // then go wrong as a consequence. Such cases are keyed by this diagnosis instead of the message class.
    auto key = [&](const char* what) {
        if (!t.index_miss) return cx.family + "/" + w.cls() + "/" + what;
        bool body = !strncmp(what, "body-", 5) || !strcmp(what, "no-end-of-body");
        return cx.family + "/header-index-lookup-miss/" + (body ? "body-framing" : what);
    };
    auto wit = [&](const std::string& extra) { return cx.witness(vh::JObj().raw("observed", t.json()).kv("expected_start", esc(model_start(w), 120))
                                               .kv("expected_body_len", (uint64_t)w.body.size()).kv("expected_headers", (uint64_t)w.headers.size()).kv("note", extra).str()); };
    if (t.rc_hdr != 0) { emit_violation(key("header-rejected"), "receive_header failed on a valid message inside the buffer budget", wit("")); return; }
    if (t.start != model_start(w)) emit_violation(key("start-line-mismatch"), "verb/target/version or version/status/reason differ from the bytes on the wire", wit(""));
    if (multimap_of(t.hdrs) != multimap_of(w.headers)) emit_violation(key("headers-mismatch"), "the header multimap (names case-folded, values without surrounding blanks) differs from the fields on the wire", wit(""));
    // (lookups by name are part of the raw tuple compared across fragmentations and fills; whether a lookup finds a
    //  field is decided by the library's case folding, which is not the subject of this property)
    if (t.end_status != 0) emit_violation(key(t.end_status < 0 ? "body-read-error" : "no-end-of-body"), "reading the body of a complete valid message did not end with end-of-body", wit(""));
    else if (t.body_rel != 0) {
        const char* how = t.body_rel == 1 ? "body-short" : t.body_rel == 2 ? "body-long" : "body-mismatch";
        emit_violation(key(how), "the bytes read as body differ from the payload", wit(""));
    }
}

static void count_msg_class(const Wire& w) {
    cadd(K_VALID_MSGS);
    cadd(w.framing == F_CL ? K_MSG_CL : w.framing == F_CHUNKED ? K_MSG_CHUNKED : w.framing == F_CLOSE ? K_MSG_CLOSE : K_MSG_NONE);
    if (!w.is_req && w.verb == Verb::HEAD) cadd(K_MSG_HEAD);
}

static void run_valid_wire(vh::Rng& r, const Wire& w, size_t budget, const char* family, bool nul_guard) {
    auto plans = plans_for_valid(r, w, budget);
    std::vector<std::string> probes;
    for (int i = 0; i < 3 && !w.headers.empty(); ++i) probes.push_back(w.headers[r.below(w.headers.size())].first);
    probes.push_back("x-not-there-" + rnd_token(r, 3, 6));
    g_probe_keys = &probes;
    Tuple ref; bool have_ref = false; std::string ref_desc;
    uint64_t bh = vh::hash_bytes(w.bytes.data(), w.bytes.size());
    for (size_t pi = 0; pi < plans.size(); ++pi) {
        auto& p = plans[pi];
        g_shm->stage_plan = pi;
        auto facts = plan_facts(w, p);
        int f1 = r.below(NFILL), f2 = (f1 + 1 + r.below(NFILL - 1)) % NFILL;
        // (probe items: exact-size heap buffer under ASan, so that the report names the access)
        bool guard = !vh::is_asan() || (nul_guard && r.chance(1, 4));
        uint64_t rseed = r.next();
        bool with_body = false;
        for (int f : {f1, f2}) {
            ParseCtx cx; cx.family = family; cx.cls = w.cls() + "/" + p.kind;
            Tuple t = run_parse(w.bytes, w.is_req, w.verb, w.cap, p, f, f == f1 ? rseed : r.next(), guard, nul_guard, cx, &w.body);
            cx.bytes = &w.bytes; cx.plan = &p; cx.fill = f; cx.cap = w.cap;
            if (!have_ref) { check_against_model(w, t, probes, cx); ref = t; have_ref = true; ref_desc = p.kind + "/" + fill_name[f]; }
            else if (!t.raw_equal(ref)) {
                check_against_model(w, t, probes, cx);        // (a tuple equal to the reference has been checked already)
                emit_violation(std::string(family) + "/" + w.cls() + "/depends-on-fragmentation-or-fill:" + t.first_diff(ref),
                               "the same bytes gave different results under two fragmentations / buffer fills",
                               cx.witness(vh::JObj().raw("this", t.json()).raw("reference", ref.json()).kv("reference_run", ref_desc).str()));
            }
            if (t.rc_hdr == 0 && t.hdr_consumed > w.hdr_len) with_body = true;
            if (t.hdr_recvs > 1) cadd(K_HDR_MULTI_RECV);
        }
        // evidence
        if (facts.term_split) cadd(K_TERM_SPLIT);
        if (facts.chunkline_split) cadd(K_CHUNKLINE_SPLIT);
        if (facts.datacrlf_split) cadd(K_DATACRLF_SPLIT);
        if (with_body) cadd(K_HDR_END_WITH_BODY);
        if (w.big_chunk) cadd(K_BIG_CHUNK);
        if (w.after_last) cadd(K_AFTER_LAST_CHUNK);
        if (p.kind == "one-byte") cadd(K_ONE_BYTE_PLANS);
        if (p.kind == "pair") cadd(K_PAIR_PLANS);
        bool nt = facts.term_split || facts.chunkline_split || facts.datacrlf_split || with_body;
        emit_input(vh::mix(bh, p.hash()), nt);
    }
    g_probe_keys = nullptr;
}

static void item_valid(int64_t idx) {
    vh::Rng r(vh::mix(g_xseed, 0x1000000 + idx));
    bool small = r.chance(1, 3);
    Wire w = gen_valid(r, g_thorough, small);
    count_msg_class(w);
    size_t before = g_shm->inputs;
    run_valid_wire(r, w, g_thorough ? 90 : 40, "valid", true);
    cadd(K_VALID_INPUTS, g_shm->inputs - before);
    if (idx % 16 == 0)
        emit_sample(vh::JObj().kv("kind", "valid").kv("class", w.cls()).kv("len", (uint64_t)w.bytes.size()).kv("headers", (uint64_t)w.headers.size())
                    .kv("chunks", (uint64_t)w.size_lines.size()).kv("body", (uint64_t)w.body.size()).kv("cap", (unsigned)w.cap)
                    .kv("head", esc(w.bytes, 160)).str());
}

// probe: the same with a caller buffer that contains no NUL byte at all
static void item_probe(int64_t idx) {
    vh::Rng r(vh::mix(g_xseed, 0x4000000 + idx));
    Wire w = gen_valid(r, false, true, 1);
    cadd(K_PROBE_ITEMS);
    run_valid_wire(r, w, 6, "valid-unterminated-buffer", false);
}

// ------------------------------------------------------------------ item: writer -> reader
// reference scan of bytes produced by the library's writer: header line ends, terminator, chunk lines
static bool scan_wire(Wire& w) {
    auto& b = w.bytes;
    auto t = b.find("\r\n\r\n");
    if (t == std::string::npos) return false;
    w.term_at = t; w.hdr_len = t + 4; w.msg_len = b.size();
    size_t pos = 0; bool first = true;
    while (pos <= t) {
        auto e = b.find("\r\n", pos);
        if (e == std::string::npos || e > t) break;
        w.hdr_crlf.push_back(e);
        if (!first) {
            auto line = std::string_view(b).substr(pos, e - pos);
            auto c = line.find(':');
            if (c != line.npos) w.headers.push_back({std::string(line.substr(0, c)), std::string(trim_ows(line.substr(c + 1)))});
        }
        first = false;
        pos = e + 2;
    }
    if (w.framing == F_CHUNKED) {
        size_t p = w.hdr_len;
        while (p < b.size()) {
            auto e = b.find("\r\n", p);
            if (e == std::string::npos) break;
            size_t n = strtoull(b.substr(p, e - p).c_str(), nullptr, 16);
            w.size_lines.push_back({(uint32_t)p, (uint32_t)(e + 2)});
            if (n == 0) break;
            if (n >= 4096) w.big_chunk = true;
            p = e + 2 + n;
            if (p + 2 > b.size()) break;
            w.data_crlf.push_back(p);
            p += 2;
        }
    }
    return true;
}

static void item_roundtrip(int64_t idx) {
    vh::Rng r(vh::mix(g_xseed, 0x2000000 + idx));
    bool is_req = r.chance(1, 2), chunked = r.chance(1, 2);
    std::string body = rnd_body(r, g_thorough);
    if (body.size() > 45000) body.resize(45000);
    bool zero_mid = false;
    // pieces
    std::vector<size_t> pieces;
    for (size_t off = 0; off < body.size();) {
        size_t n = std::min(rnd_chunk_size(r, body.size() - off), body.size() - off);
        pieces.push_back(n); off += n;
    }
    // a zero-length write (legal for an IStream, returns 0 = count): strictly inside the body it is its own class,
    // because the chunked writer turns it into the terminating chunk (known finding)
    int zero_at = -1;
    if (r.chance(1, 8) && pieces.size() >= 2) { zero_at = r.range(1, pieces.size() - 1); zero_mid = true; }
    Wire w;
    w.is_req = is_req; w.framing = chunked ? F_CHUNKED : F_CL; w.version = "1.1"; w.body = body; w.cap = 65535;
    w.cls_override = std::string(chunked ? "chunked" : "content-length") + (zero_mid ? "-zero-length-write" : "");
    Mock out;
    out.bound = ~0ull;
    CallerBuf wb(65535, false);
    wb.fill(r.below(NFILL), true);
    bool ok = true; std::string fail;
    auto do_writes = [&](Message* m) {
        size_t off = 0;
        for (size_t i = 0; i < pieces.size() && ok; ++i) {
            if ((int)i == zero_at) {
                auto z = r.chance(1, 2) ? m->write(body.data() + off, 0) : [&] { struct iovec e = {(void*)(body.data() + off), 0}; return m->writev(&e, 1); }();
                if (z != 0) { ok = false; fail = "zero-length write returned " + std::to_string(z); }
            }
            size_t n = pieces[i];
            ssize_t rc;
            if (r.chance(1, 3) && n >= 2) {
                size_t a = r.range(1, n - 1);
                struct iovec iov[3] = {{(void*)(body.data() + off), a}, {(void*)(body.data() + off + a), 0}, {(void*)(body.data() + off + a), n - a}};
                rc = m->writev(iov, 3);
            } else {
                char* tmp = (char*)malloc(n);            // exact-size source: an over-read of the writer is visible to ASan
                memcpy(tmp, body.data() + off, n);
                rc = m->write(tmp, n);
                free(tmp);
            }
            if (rc != (ssize_t)n) { ok = false; fail = "write of " + std::to_string(n) + " bytes returned " + std::to_string(rc); }
            off += n;
        }
    };
    std::string path = "/" + rnd_token(r, 0, 12) + (r.chance(1, 2) ? "/" + rnd_token(r, 1, 8) : "") + (r.chance(1, 3) ? "?q=" + rnd_token(r, 1, 8) : "");
    int nh = r.range(0, 6);
    std::vector<std::pair<std::string, std::string>> custom;
    // (names without y/z: the library's case folding of these two letters is a known finding of the header index, recorded
    //  with the generated valid messages; the round trips are about the body writers)
    for (int i = 0; i < nh; ++i) {
        std::string k = "X-" + rnd_token(r, 1, 10) + std::to_string(i);
        for (auto& c : k) if (c == 'y' || c == 'Y' || c == 'z' || c == 'Z') c = 'q';
        custom.push_back({k, rnd_value(r, 60)});
    }
    if (is_req) {
        w.verb = BODY_VERBS[r.below(sizeof(BODY_VERBS) / sizeof(Verb))];
        w.verb_s = std::string(verbstr[w.verb]); w.target = path;
        XReq* q = new XReq(wb.p, 65535, w.verb, "http://host.example" + path);
        for (auto& kv : custom) q->headers.insert(kv.first, kv.second);
        if (chunked) q->headers.insert("Transfer-Encoding", "chunked"); else q->headers.content_length(body.size());
        if (q->send_header(&out) < 0) { ok = false; fail = "send_header failed"; }
        do_writes(q);
        if (ok && q->send() < 0) { ok = false; fail = "send failed"; }
        delete q;
    } else {
        w.verb = Verb::GET;
        w.code = r.pick({200, 201, 206, 404, 500});
        std::string reason = r.chance(1, 2) ? "" : rnd_token(r, 1, 12);
        w.reason = reason.empty() ? std::string(obsolete_reason(w.code)) : reason;
        XResp* p = new XResp(wb.p, 65535);
        ((Response*)p)->reset(&out, false);
        p->set_result(w.code, reason);
        for (auto& kv : custom) p->headers.insert(kv.first, kv.second);
        if (chunked) p->headers.insert("Transfer-Encoding", "chunked"); else p->headers.content_length(body.size());
        do_writes(p);
        if (ok && p->send() < 0) { ok = false; fail = "send failed"; }
        delete p;
    }
    cadd(K_WR_CASES);
    if (zero_mid) cadd(K_ZERO_WRITE_CASES);
    w.bytes = out.out;
    Plan none = plan_whole();
    ParseCtx cx; cx.family = "roundtrip"; cx.cls = w.cls(); cx.bytes = &w.bytes; cx.plan = &none; cx.cap = 65535;
    if (!ok) {
        emit_violation("roundtrip/" + w.cls() + "/writer-call-failed", "a call of the library's body writer failed: " + fail, cx.witness());
        return;
    }
    if (!scan_wire(w)) {
        emit_violation("roundtrip/" + w.cls() + "/no-header-terminator-written", "the bytes written contain no header terminator", cx.witness());
        return;
    }
    size_t before = g_shm->inputs;
    run_valid_wire(r, w, g_thorough ? 40 : 16, "roundtrip", true);
    cadd(K_WR_INPUTS, g_shm->inputs - before);
    if (idx % 16 == 1)
        emit_sample(vh::JObj().kv("kind", "roundtrip").kv("class", w.cls()).kv("request", is_req).kv("body", (uint64_t)body.size())
                    .kv("writes", (uint64_t)pieces.size()).kv("wire_len", (uint64_t)w.bytes.size()).kv("head", esc(w.bytes, 160)).str());
}

// ------------------------------------------------------------------ item: malformed / truncated / random input
struct Mal { std::string bytes; bool is_req = true; Verb resp_to = Verb::GET; uint16_t cap = 65535; std::string mut; };

static size_t structural_pos(vh::Rng& r, const Wire& w) {
    auto S = structural_points(w);
    if (S.empty() || r.chance(1, 4)) return r.below(w.bytes.size() + 1);
    return S[r.below(S.size())];
}
static char nasty_byte(vh::Rng& r) {
    static const char n[] = {'\r', '\n', ':', ' ', '0', '\0', (char)0xff, '\t', 'f', '-', ';', '/'};
    return r.chance(1, 3) ? (char)r.below(256) : n[r.below(sizeof(n))];
}

static Mal gen_malformed(vh::Rng& r) {
    Mal m;
    int k = r.below(100);
    if (k < 10) {               // random byte strings
        m.is_req = r.chance(1, 2);
        size_t n = r.pick<size_t>({0, 1, 3, 4, 16, 100, 1000, 5000, 12000, r.range(0, 400)});
        static const char alpha[] = "\r\n\r\n: /HTP1.0GE abcf0123456789\r\n";
        int mode = r.below(3);
        for (size_t i = 0; i < n; ++i) m.bytes += mode == 0 ? (char)r.below(256) : alpha[r.below(sizeof(alpha) - 1)];
        if (mode == 2) m.bytes = (m.is_req ? "GET / HTTP/1.1\r\n" : "HTTP/1.1 200 OK\r\n") + m.bytes;
        m.mut = "random-bytes";
        return m;
    }
    Wire w = gen_valid(r, false, r.chance(3, 4));
    m.is_req = w.is_req; m.resp_to = w.verb; m.cap = w.cap;
    auto& b = w.bytes;
    auto replace = [&](size_t at, size_t n, const std::string& with) { b.replace(std::min(at, b.size()), std::min(n, b.size() - std::min(at, b.size())), with); };
    int reps = r.chance(1, 5) ? 2 : 1;
    for (int rep = 0; rep < reps; ++rep) {
        k = r.below(16);
        std::string name;
        switch (k) {
        case 0: name = "truncate"; b.resize(std::min(b.size(), structural_pos(r, w))); break;
        case 1: {
            name = "byte-change";
            int n = r.range(1, 3);
            for (int i = 0; i < n && !b.empty(); ++i) b[std::min(b.size() - 1, structural_pos(r, w))] = nasty_byte(r);
            break;
        }
        case 2: name = "delete-byte"; if (!b.empty()) b.erase(std::min(b.size() - 1, structural_pos(r, w)), 1); break;
        case 3: name = "insert-bytes"; { std::string x; int n = r.range(1, 3); for (int i = 0; i < n; ++i) x += nasty_byte(r); b.insert(std::min(b.size(), structural_pos(r, w)), x); } break;
        case 4: name = "delete-range"; { size_t a = structural_pos(r, w); replace(a, r.range(1, 64), ""); } break;
        case 5: name = "duplicate-range"; { size_t a = std::min(b.size(), structural_pos(r, w)); auto x = b.substr(a, r.range(1, 64)); b.insert(a, x); } break;
        case 6: {
            name = "drop-colon";
            if (w.hdr_crlf.size() >= 2) {
                size_t li = r.chance(1, 2) ? w.hdr_crlf.size() - 2 : r.below(w.hdr_crlf.size() - 1);
                size_t from = w.hdr_crlf[li] + 2, to = w.hdr_crlf[li + 1];
                std::string line = b.substr(from, to - from);
                std::string nl;
                for (char c : line) if (c != ':') nl += c; else if (r.chance(1, 3)) nl += ' ';
                replace(from, to - from, nl);
            }
            break;
        }
        case 7: {
            name = r.chance(1, 2) ? "bare-lf" : "bare-cr";
            std::string o; bool all = r.chance(1, 3);
            for (size_t i = 0; i < b.size(); ++i) {
                if (b[i] == '\r' && i + 1 < b.size() && b[i + 1] == '\n' && (all || r.chance(1, 4))) { o += name == "bare-lf" ? '\n' : '\r'; ++i; }
                else o += b[i];
            }
            b = o;
            break;
        }
        case 8: {
            name = "bad-chunk-size";
            if (!w.size_lines.empty()) {
                auto l = w.size_lines[r.below(w.size_lines.size())];
                std::string old = b.substr(std::min<size_t>(l.first, b.size()), l.second - l.first - 2);
                size_t v = strtoull(old.c_str(), nullptr, 16);
                char t[64];
                std::string nv;
                switch (r.below(12)) {
                case 0: nv = "ffffffffffffffff"; break;
                case 1: nv = "10000000000000000"; break;
                case 2: nv = "-1"; break;
                case 3: nv = "zz"; break;
                case 4: nv = ""; break;
                case 5: snprintf(t, sizeof(t), "%zx", v + r.range(1, 5)); nv = t; break;
                case 6: snprintf(t, sizeof(t), "%zx", v ? v - 1 : 1); nv = t; break;
                case 7: nv = std::string(r.range(20, 200), '1'); break;
                case 8: nv = std::string(r.range(4090, 5000), 'a'); break;
                case 9: nv = "7fffffffffffffff"; break;
                case 10: nv = "0x" + old; break;
                default: nv = " " + old + " ";
                }
                replace(l.first, l.second - l.first - 2, nv);
            } else name = "bad-chunk-size(n/a)";
            break;
        }
        case 9: {
            name = "bad-content-length";
            if (w.cl_val_len) {
                size_t v = strtoull(b.substr(w.cl_val_at, w.cl_val_len).c_str(), nullptr, 10);
                std::string nv;
                switch (r.below(10)) {
                case 0: nv = "18446744073709551615"; break;
                case 1: nv = "99999999999999999999999"; break;
                case 2: nv = "-5"; break;
                case 3: nv = "abc"; break;
                case 4: nv = ""; break;
                case 5: nv = std::to_string(v + r.range(1, 100)); break;
                case 6: nv = std::to_string(v ? v - 1 : 0); break;
                case 7: nv = "9223372036854775808"; break;
                case 8: nv = "0x10"; break;
                default: nv = std::to_string(v) + "," + std::to_string(v);
                }
                replace(w.cl_val_at, w.cl_val_len, nv);
            } else name = "bad-content-length(n/a)";
            break;
        }
        case 10: {
            name = "bad-start-line";
            size_t e = b.find("\r\n");
            if (e == std::string::npos) e = b.size();
            static const char* req[] = {"BREW / HTTP/1.1", "get / HTTP/1.1", "GET", "GET /", "GET  /  HTTP/1.1", "GET / HTTP/1.1.1.1.1", "GET / FTP/1.1", "GET\t/\tHTTP/1.1",
                                        " GET / HTTP/1.1", "GET / HTTP/", "", "GET / HTTP/1.1 extra", "G", "GET /\r /x HTTP/1.1"};
            static const char* rsp[] = {"HTTP/1.1 0 Zero", "HTTP/1.1 1000 Big", "HTTP/1.1 abc OK", "HTTP/1.1 99999999999999999999999 OK", "HTTP/1.1", "HTTP/1.1 200", "HTTP/1.1200 OK",
                                        "HTTP/1.1.1.1.1 200 OK", "FTP/1.1 200 OK", "", "HTTP/ 200 OK", " HTTP/1.1 200 OK", "HTTP/1.1  200  OK", "H", "HTTP/1.1 -200 OK", "HTTP/1.1 2 OK"};
            replace(0, e, m.is_req ? req[r.below(sizeof(req) / sizeof(char*))] : rsp[r.below(sizeof(rsp) / sizeof(char*))]);
            break;
        }
        case 11: {
            name = "header-over-budget";
            // one field that brings the header to (or beyond) the limits of the caller's buffer
            size_t target = r.pick<size_t>({(size_t)m.cap - 8300, (size_t)m.cap - 5200, (size_t)m.cap - 5119, (size_t)m.cap - 4100, (size_t)m.cap - 1030,
                                            (size_t)m.cap - 9, (size_t)m.cap, (size_t)m.cap + 3000, 65536, 70000}) + r.below(12);
            size_t at = w.hdr_crlf.empty() ? 0 : w.hdr_crlf[0] + 2;
            size_t have = w.hdr_len;
            if (target > have + 10 && at <= b.size()) b.insert(at, "X-Big: " + std::string(target - have - 9, 'v') + "\r\n");
            break;
        }
        case 12: {
            name = "very-many-fields";
            size_t n = r.pick<size_t>({500, 2000, 4000, 5100, 6000, 9000});
            std::string x;
            for (size_t i = 0; i < n; ++i) x += r.chance(1, 2) ? "a:b\r\n" : "k" + std::to_string(i % 10) + ":\r\n";
            size_t at = w.hdr_crlf.empty() ? 0 : w.hdr_crlf[0] + 2;
            if (at <= b.size()) b.insert(at, x);
            break;
        }
        case 13: name = "early-terminator"; b.insert(std::min<size_t>(b.size(), r.below(w.hdr_len + 1)), "\r\n\r\n"); break;
        case 14: {
            name = "no-terminator";
            if (w.term_at + 4 <= b.size()) replace(w.term_at, 4, r.pick<const char*>({"\r\n", "\r\n\r", "\n\n", "\r\r\n\n", ""}));
            break;
        }
        default: name = "nul-bytes"; { int n = r.range(1, 3); for (int i = 0; i < n; ++i) b.insert(std::min(b.size(), structural_pos(r, w)), 1, '\0'); } break;
        }
        m.mut += (rep ? "+" : "") + name;
        if (rep == 0 && reps == 2) { w.size_lines.clear(); w.cl_val_len = 0; w.hdr_crlf.resize(std::min<size_t>(w.hdr_crlf.size(), 1)); }   // offsets are stale now
    }
    m.bytes = b;
    return m;
}

// Diagnosis used in the keys of differential violations on malformed input: replay the library's own scanning of the
// start line and the header lines (net/http/parser.h: fields end at ':' and at CR, nothing else) over the bytes that had
// been received when the header was parsed, and tell whether the scan arrives at the end of these bytes while still
// looking for the empty line - the next byte it looks at is then the first byte after the received data.
static bool header_scan_reaches_end(std::string_view b, bool is_req) {
    size_t p = 0, n = b.size();
    auto until = [&](char c) { auto q = b.find(c, p); if (q == b.npos) p = n; else p = q + 1; };
    auto skip_str = [&](std::string_view x) { if (b.substr(p).substr(0, x.size()) == x) p += x.size(); };
    auto skip_ch = [&](char c, bool rep) { while (p < n && b[p] == c) { ++p; if (!rep) return; } };
    if (is_req) { until(' '); until(' '); skip_str("HTTP/"); until('\r'); skip_ch('\n', false); }
    else { skip_str("HTTP/"); until(' '); while (p < n && isdigit((unsigned char)b[p])) ++p; skip_ch(' ', false); until('\r'); skip_ch('\n', false); }
    if (p >= n) return false;          // nothing left: the header scan is not started
    for (int guard = 0; guard < 100000; ++guard) {
        if (p >= n) return true;
        if (b[p] == '\r') return false;
        until(':'); skip_ch(' ', true); until('\r'); skip_ch('\n', false);
    }
    return false;
}
static std::string diagnose(const Mal& m, size_t received) {
    if (header_scan_reaches_end(std::string_view(m.bytes).substr(0, received), m.is_req)) return "header-scan-reaches-end-of-received-bytes";
    auto plus = m.mut.find('+');
    return plus == std::string::npos ? m.mut : "stacked-mutations";
}

static void item_malformed(int64_t idx) {
    vh::Rng r(vh::mix(g_xseed, 0x3000000 + idx));
    Mal m = gen_malformed(r);
    size_t len = m.bytes.size();
    std::vector<Plan> plans;
    plans.push_back(plan_whole());
    plans.push_back(plan_one_byte(len, len <= 8000 ? len : 2000, {}));
    plans.push_back(plan_random(r, len));
    if (g_thorough) plans.push_back(plan_random(r, len));
    auto t4 = m.bytes.find("\r\n\r\n");
    if (t4 != std::string::npos) {
        plans.push_back(plan_cuts({(uint32_t)t4 + 1 + (uint32_t)r.below(3)}, len, "single"));
        plans.push_back(plan_cuts({(uint32_t)t4 + 4}, len, "header-alone"));
        plans.push_back(plan_cuts({(uint32_t)t4 + 4 + (uint32_t)r.range(1, 20)}, len, "header-plus-some-body"));
    }
    uint64_t bh = vh::hash_bytes(m.bytes.data(), len, 99);
    cadd(K_MAL_INPUTS, 0);
    for (size_t pi = 0; pi < plans.size(); ++pi) {
        auto& p = plans[pi];
        g_shm->stage_plan = pi;
        int f2 = 2 + r.below(NFILL - 2), f3 = r.chance(1, 2) ? 0 : (f2 == 7 ? 4 : 7);
        bool guard = !vh::is_asan() || r.chance(1, 4);
        uint64_t rseed = r.next();
        Tuple ref; bool have = false;
        for (int f : {1, f2, f3}) {
            ParseCtx cx; cx.family = "malformed"; cx.cls = m.mut;
            Tuple t = run_parse(m.bytes, m.is_req, m.resp_to, m.cap, p, f, rseed, guard, true, cx);
            cx.bytes = &m.bytes; cx.plan = &p; cx.fill = f; cx.cap = m.cap;
            if (!have) {
                ref = t; have = true;
                if (t.rc_hdr == 0) cadd(K_MAL_HDR_ACCEPTED); else if (t.rc_hdr == 1) cadd(K_MAL_HDR_EOS); else cadd(K_MAL_HDR_REJECTED);
                if (t.end_status == -1) cadd(K_MAL_BODY_ERROR); else if (t.end_status == 0) cadd(K_MAL_BODY_EOF);
            } else if (!t.raw_equal(ref)) {
                emit_violation("malformed/outside-bytes-influence/" + diagnose(m, ref.hdr_consumed),
                               "the result for the same bytes under the same fragmentation differs between two fills of the unused part of the caller's buffer (first difference: " +
                                   t.first_diff(ref) + ")",
                               cx.witness(vh::JObj().kv("mutation", m.mut).raw("this", t.json()).raw("with_fill_CR", ref.json()).str()));
            }
        }
        cadd(K_MAL_INPUTS);
        // non-trivial: the parser proper ran (a header terminator is present), not just "wait for more bytes until EOF"
        emit_input(vh::mix(bh, p.hash()), t4 != std::string::npos);
    }
    if (idx % 16 == 2)
        emit_sample(vh::JObj().kv("kind", "malformed").kv("mutation", m.mut).kv("len", (uint64_t)len).kv("request", m.is_req).kv("head", esc(m.bytes, 160)).str());
}

// ------------------------------------------------------------------ children
enum Kind { KIND_VALID = 0, KIND_ROUNDTRIP, KIND_MALFORMED, KIND_PROBE, KIND_N };
static const char* kind_family[KIND_N] = {"valid", "roundtrip", "malformed", "valid-unterminated-buffer"};
static const char* kind_name[KIND_N] = {"valid", "roundtrip", "malformed", "probe"};
static std::string g_errfile;

static void run_item(int kind, int64_t idx) {
    switch (kind) {
    case KIND_VALID: item_valid(idx); break;
    case KIND_ROUNDTRIP: item_roundtrip(idx); break;
    case KIND_MALFORMED: item_malformed(idx); break;
    case KIND_PROBE: item_probe(idx); break;
    }
}

static void child_main(int kind, int64_t from, int64_t to) {
    int fd = open(g_errfile.c_str(), O_WRONLY | O_CREAT | O_TRUNC, 0644);
    if (fd >= 0) { dup2(fd, 2); close(fd); }
    // the HTTP code runs on photon threads: every child is one vCPU
    if (photon::vcpu_init() < 0) _exit(70);
    for (int64_t i = from; i < to; ++i) {
        g_shm->cur = i;
        run_item(kind, i);
        g_shm->done_upto = i + 1;
    }
    g_shm->cur = -2;
    photon::vcpu_fini();
    _exit(0);
}

static std::string read_file(const std::string& p, size_t max = 200000) {
    std::string s;
    FILE* f = fopen(p.c_str(), "rb");
    if (!f) return s;
    char buf[4096]; size_t n;
    while ((n = fread(buf, 1, sizeof(buf), f)) > 0 && s.size() < max) s.append(buf, n);
    fclose(f);
    return s;
}

struct Death { bool died = false, hung = false; int status = 0; std::string report; };

static Death run_child(int kind, int64_t from, int64_t to, bool confirm) {
    Death d;
    g_shm->cur = -1; g_shm->done_upto = from;
    fflush(nullptr);
    pid_t pid = fork();
    if (pid < 0) vh::machinery_failure("fork failed");
    if (pid == 0) { g_confirm = confirm; child_main(kind, from, to); }
    uint64_t last = g_shm->progress, last_change = vh::mono_ns();
    int64_t last_cur = -1;
    off_t last_esz = 0;
    while (true) {
        int st = 0;
        pid_t w = waitpid(pid, &st, WNOHANG);
        if (w == pid) { d.status = st; break; }
        struct timespec ts = {0, 2000000};
        auto before = vh::mono_ns();
        nanosleep(&ts, nullptr);
        auto now = vh::mono_ns();
        if (now - before > 1000000000ull) { last_change = now; continue; }      // this process was frozen itself
        uint64_t p = g_shm->progress; int64_t c = g_shm->cur;
        struct stat sb;
        off_t esz = stat(g_errfile.c_str(), &sb) == 0 ? sb.st_size : 0;
        if (p != last || c != last_cur || esz != last_esz) { last = p; last_cur = c; last_esz = esz; last_change = now; vh::progress(); continue; }
        // no call into the mock stream and no new item for 30 s: the item in flight does not terminate
        // (a child that has started to write a sanitizer report is dying; symbolising the report can take long on a busy machine)
        if (now - last_change > (esz > 0 ? 600ull : 30ull) * 1000000000ull) {
            kill(pid, SIGKILL);
            waitpid(pid, &st, 0);
            d.status = st; d.hung = true;
            break;
        }
    }
    d.died = d.hung || !(WIFEXITED(d.status) && WEXITSTATUS(d.status) == 0);
    if (d.died) d.report = read_file(g_errfile);
    return d;
}

// what failed (kind of report) and where (innermost frame of the library)
static void classify_death(const Death& d, std::string& kind, std::string& site) {
    auto& s = d.report;
    kind.clear(); site.clear();
    size_t from = std::string::npos;
    auto a = s.find("ERROR: AddressSanitizer: ");
    if (a != std::string::npos) {
        auto e = s.find_first_of(" \n", a + 25);
        kind = "asan-" + s.substr(a + 25, e - (a + 25));
        from = a;
    } else if ((a = s.find("runtime error: ")) != std::string::npos) {
        auto e = s.find('\n', a);
        std::string msg = s.substr(a + 15, std::min<size_t>(e - (a + 15), 70)), o;
        for (size_t i = 0; i < msg.size(); ++i) {
            if (isdigit((unsigned char)msg[i])) { if (o.empty() || o.back() != 'N') o += 'N'; }
            else o += msg[i] == ' ' ? '-' : msg[i];
        }
        kind = "ubsan-" + o;
        from = a;
    } else if (d.hung) kind = "no-termination";
    else if (WIFSIGNALED(d.status)) kind = "signal-" + std::to_string(WTERMSIG(d.status));
    else kind = "exit-" + std::to_string(WEXITSTATUS(d.status));
    if (from == std::string::npos) return;
    size_t pos = from;
    for (int n = 0; n < 40; ++n) {
        auto h = s.find("\n    #", pos);
        if (h == std::string::npos) break;
        auto e = s.find('\n', h + 1);
        std::string line = s.substr(h + 1, e - h - 1);
        pos = h + 1;
        auto in = line.find(" in ");
        if (in == std::string::npos) continue;
        std::string rest = line.substr(in + 4);
        if (rest.find("libsanitizer") != std::string::npos || rest.find("/usr/") != std::string::npos || rest.find("h_http.cpp") != std::string::npos ||
            rest.find("vh.h") != std::string::npos || rest.find("photon::") == std::string::npos)
            continue;
        auto par = rest.find('(');
        site = rest.substr(0, par == std::string::npos ? rest.find(' ') : par);
        break;
    }
}

static std::string describe_item(int kind, int64_t idx) {
    vh::JObj o;
    o.kv("item_kind", kind_name[kind]).kv("item_index", idx);
    if (kind == KIND_MALFORMED) {
        vh::Rng r(vh::mix(g_xseed, 0x3000000 + idx));
        Mal m = gen_malformed(r);
        o.kv("mutation", m.mut).kv("request", m.is_req).kv("cap", (unsigned)m.cap).kv("len", (uint64_t)m.bytes.size())
         .kv("input_escaped", esc(m.bytes, 600)).kv("input_hex", vh::hex(m.bytes.data(), m.bytes.size(), 800));
    } else if (kind == KIND_VALID || kind == KIND_PROBE) {
        vh::Rng r(vh::mix(g_xseed, (kind == KIND_VALID ? 0x1000000 : 0x4000000) + idx));
        Wire w = kind == KIND_VALID ? gen_valid(r, g_thorough, r.chance(1, 3)) : gen_valid(r, false, true, 1);
        o.kv("class", w.cls()).kv("cap", (unsigned)w.cap).kv("len", (uint64_t)w.bytes.size()).kv("input_escaped", esc(w.bytes, 600))
         .kv("input_hex", vh::hex(w.bytes.data(), w.bytes.size(), 800));
    }
    o.kv("plan_index_in_flight", (int64_t)g_shm->stage_plan).kv("fill_in_flight", fill_name[std::max(0, std::min<int>(NFILL - 1, (int)g_shm->stage_fill))]);
    return o.str();
}

static vh::NamedCounter* g_ctr[K_NCTR];

static void merge_results() {
    auto s = g_shm;
    for (int i = 0; i < K_NCTR; ++i) { g_ctr[i]->add(s->ctr[i]); s->ctr[i] = 0; }
    vh::event(s->events); s->events = 0;
    uint64_t nt = s->n_nt, all = s->inputs;
    for (uint32_t i = 0; i < s->n_nt; ++i) vh::note_input(s->nt[i], true);
    for (uint64_t i = nt; i < all; ++i) vh::note_input(0, false);
    s->n_nt = 0; s->inputs = 0;
    for (uint32_t i = 0; i < s->n_viol; ++i) vh::violation(s->viol[i].key, s->viol[i].what, s->viol[i].witness);
    s->n_viol = 0;
    for (uint32_t i = 0; i < s->n_samples; ++i) vh::sample(s->samples[i]);
    s->n_samples = 0;
}

static void run_range(int kind, int64_t from, int64_t to, int64_t batch) {
    while (from < to) {
        int64_t end = std::min(to, from + batch);
        Death d = run_child(kind, from, end, false);
        int64_t bad = g_shm->cur, done = g_shm->done_upto;
        merge_results();
        if (!d.died) {
            if (done != end) vh::machinery_failure("child exited cleanly without finishing its items");
            from = end;
            continue;
        }
        g_ctr[K_CHILD_DEATHS]->add();
        if (bad < from || bad >= end) {
            fprintf(stderr, "[h_http] child died outside an item (cur=%ld):\n%s\n", (long)bad, d.report.substr(0, 3000).c_str());
            vh::machinery_failure("child died outside an item");
        }
        // confirm on the item alone, in a fresh child
        Death d2 = run_child(kind, bad, bad + 1, true);
        std::string item = describe_item(kind, bad);
        merge_results();
        const Death& use = d2.died ? d2 : d;
        std::string k, site;
        classify_death(use, k, site);
        std::string key = std::string(kind_family[kind]) + "/crash/" + k + (site.empty() ? "" : "@" + site);
        auto cut = use.report.find("ERROR: AddressSanitizer");
        if (cut == std::string::npos) cut = use.report.find("runtime error");
        std::string excerpt = use.report.substr(cut == std::string::npos ? 0 : cut, 1800);
        for (auto& c : excerpt) if (c == '=') c = '-';           // do not let the driver's own report scanner match this text
        vh::violation(key, std::string("the process parsing this input died (") + k + (d2.died ? ", reproduced on the item alone" : ", only inside the batch") + ")",
                      vh::JObj().raw("item", item).kv("reproduced_alone", d2.died).kv("report", excerpt).str());
        from = bad + 1;
    }
}

int main(int argc, char** argv) {
    vh::init(argc, argv);
    auto& A = vh::args();
    g_thorough = A.thorough();
    g_xseed = A.xseed();
    for (int i = 0; i < K_NCTR; ++i) g_ctr[i] = new vh::NamedCounter(ctr_name[i]);
    make_fills(vh::mix(g_xseed, 5));
    std::string scratch = A.scratch.empty() ? "/tmp/h_http-" + std::to_string(getpid()) : A.scratch;
    mkdir(scratch.c_str(), 0755);
    g_errfile = scratch + "/child.err";
    g_shm = (Shm*)mmap(nullptr, sizeof(Shm), PROT_READ | PROT_WRITE, MAP_SHARED | MAP_ANONYMOUS, -1, 0);
    if (g_shm == MAP_FAILED) vh::machinery_failure("mmap failed");
    memset((void*)g_shm, 0, sizeof(Shm));

    bool plain = !vh::is_asan();
    int64_t n_valid = A.geti("valid", g_thorough ? 300 : 60) * (plain ? 3 : 1);
    int64_t n_rt = A.geti("roundtrip", g_thorough ? 150 : 40) * (plain ? 3 : 1);
    int64_t n_mal = A.geti("malformed", g_thorough ? 2500 : 400) * (plain ? 3 : 1);
    // the probe items die by design on the pinned tree (known finding) and a sanitizer report costs seconds: few of them
    int64_t n_probe = A.geti("probe", A.exec % 4 == 0 ? 2 : 0);
    vh::config("valid_messages", n_valid); vh::config("roundtrip_cases", n_rt); vh::config("malformed_inputs", n_mal); vh::config("probe_items", n_probe);

    if (A.has("only")) {          // --cfg only=<kind>:<index> : one item, in this process (debugging / replay of a witness)
        auto v = A.gets("only", "");
        int kind = 0;
        for (int i = 0; i < KIND_N; ++i) if (v.compare(0, strlen(kind_name[i]), kind_name[i]) == 0) kind = i;
        int64_t idx = atoll(v.substr(v.find(':') + 1).c_str());
        int64_t cnt = A.geti("count", 1);
        photon::vcpu_init();
        for (int64_t i = idx; i < idx + cnt; ++i) { g_shm->cur = i; run_item(kind, i); }
        photon::vcpu_fini();
        merge_results();
        puts(describe_item(kind, idx).c_str());
        return vh::finish();
    }
    run_range(KIND_VALID, 0, n_valid, 32);
    run_range(KIND_ROUNDTRIP, 0, n_rt, 32);
    run_range(KIND_MALFORMED, 0, n_mal, 128);
    run_range(KIND_PROBE, 0, n_probe, 1);
    unlink(g_errfile.c_str());
    rmdir(scratch.c_str());
    return vh::finish();
}
