// C14 - iovector / iovector_view (common/iovector.h, common/iovector.cpp)
//
// Input-quantified: one input = one seeded *program*: a vector shape (bare iovector_view over an exact-size heap
// iovec array, heap IOVector (IOVectorEntity<32,4>) or new_iovector(capacity, reserve)) plus a sequence of 1..24
// operations with seeded arguments; and the cases of a fixed "empty operand" matrix (see below).
// Oracle: a reference model holding the flat byte string the vector denotes. After every operation
//   return   the returned count equals the one the operation has on the flat string (requests beyond the content
//            are truncated to it),
//   bytes    the bytes produced (destination buffer / sub-vector / contiguous pointer / other operand) equal the model's,
//   remaining  the flattening of the vector equals the model's remaining string,
//   outside-buffers  before any element is read by the harness it is checked to lie inside one of the buffers handed
//            to the library (every element buffer, destination buffer and iovec array is its own exact-size heap
//            block, so ASan additionally reports any access of the library outside them).
// What is deliberately NOT demanded (documented / de-facto contracts, never stricter than the statement):
//   * extract_back(bytes, buf) with bytes > content: the buffer has `bytes` bytes and the extracted bytes may be at
//     its end (what the code does) or at its start - both accepted (counter extract_back_buf_right_aligned);
//   * extract_*(bytes, view*) / slice() into a destination with fewer iovec slots than the source has elements: -1 or
//     a correct prefix is accepted, afterwards the model is re-synchronised from the vector;
//   * view-level *_continuous(): nullptr unless the front/back element alone holds the bytes (documented);
//     iovector-level: nullptr only if the content is shorter or the per-vector allocation table is full;
//   * iovector::slice()/extract_*(0, ...) return 0 without touching the destination; slice of an element-less
//     iovector into an empty view returns -1 (view-level contract "no usable iovec");
//   * shrink_less_than(): memory safety and "result is a prefix" only; truncate() growth: new bytes unspecified;
//   * zero-length elements always carry a non-null base; offsets of slice() are >= 0; operands never overlap;
//   * new_iovector() does not construct its IOAlloc - the harness installs an allocator itself.
// Copy operations (memcpy_*/pipe_*) with an *empty bare view* as operand are first run in a forked child; a child
// that dies becomes the violation "empty-view-operand/<null-iov|past-end-iov|in-bounds-iov>:<memcpy|pipe>:<how>"
// and the rest of the inputs is still explored. A fixed matrix of such cases runs in every execution.
// Non-trivial program: at least one operation whose request ended exactly on an interior element boundary, or a
// copy that straddles misaligned source/destination element boundaries, or a copy with an empty operand.
#include "vh.h"
#include <photon/common/iovector.h>
#include <sys/wait.h>

// ------------------------------------------------------------------ counters
static vh::NamedCounter c_ops("ops_checked"), c_progs("programs"), c_matrix("matrix_cases"), c_probes("forked_probes"),
    c_probe_died("forked_probe_died"), c_boundary("req_ends_on_element_boundary"), c_beyond("req_beyond_content"),
    c_emptyop("copy_with_empty_operand"), c_zerolen("op_on_vector_with_zero_length_element"), c_straddle("copy_straddles_misaligned_boundaries"),
    c_insuff("dest_view_with_too_few_slots"), c_exact_dest("dest_view_with_exactly_the_needed_slots"), c_back_right("extract_back_buf_right_aligned"), c_alloc("allocator_calls"),
    c_alloc_partial("allocator_partial_grants"), c_adopt("continued_on_sub_vector"), c_view_progs("programs_bare_view"),
    c_entity_progs("programs_IOVector"), c_heap_progs("programs_new_iovector"), c_cont_copy("continuous_extract_by_copy"),
    c_skipped("copy_ops_skipped_class_known_to_die");

// ------------------------------------------------------------------ registry of the buffers handed to the library
enum { B_DATA = 1, B_ARR = 2, B_ANY = 3, B_OBJ = 4 };
struct Block { char* start; size_t size; char* real; int kind; };
struct Registry {
    std::vector<Block> b;
    // an exact-size heap block; a zero-size block is the end of a one-byte allocation (any access is out of bounds)
    char* add(size_t size, int kind) {
        char* real = (char*)malloc(size ? size : 1);
        char* start = size ? real : real + 1;
        b.push_back(Block{start, size, real, kind});
        return start;
    }
    void adopt(void* p, size_t size, int kind) { b.push_back(Block{(char*)p, size, nullptr, kind}); }
    const Block* find(const void* p, size_t len) const {
        for (auto& x : b) {
            if ((const char*)p < x.start || len > x.size) continue;
            if ((size_t)((const char*)p - x.start) <= x.size - len) return &x;
        }
        return nullptr;
    }
    const Block* find_kind(const void* p, size_t len, bool array) const {
        for (auto& x : b) {
            if ((const char*)p < x.start || len > x.size) continue;
            if ((size_t)((const char*)p - x.start) > x.size - len) continue;
            bool ok = array ? (x.kind == B_ARR || x.kind == B_ANY || x.kind == B_OBJ) : (x.kind == B_DATA || x.kind == B_ANY);
            if (ok) return &x;
        }
        return nullptr;
    }
    bool remove(void* p) {
        for (size_t i = 0; i < b.size(); ++i)
            if (b[i].start == (char*)p && b[i].real) { free(b[i].real); b[i] = b.back(); b.pop_back(); return true; }
        return false;
    }
    void forget(void* p) {
        for (size_t i = 0; i < b.size(); ++i)
            if (b[i].start == (char*)p) { b[i] = b.back(); b.pop_back(); return; }
    }
    void free_all() {
        for (auto& x : b) if (x.real) free(x.real);
        b.clear();
    }
};
static Registry R;
static vh::Rng* g_rng = nullptr;

static void fill_random(char* p, size_t n) {
    for (size_t i = 0; i < n; ++i) p[i] = (char)g_rng->next();
}

// the allocator given to every owning vector: exact-size registered blocks; ranged requests are sometimes granted partially
static int alloc_cb(void*, IOAlloc::RangeSize sz, void** ptr) {
    int size = sz.max;
    if (sz.max > sz.min && g_rng->chance(1, 2)) { size = sz.min + (int)g_rng->below(sz.max - sz.min + 1); c_alloc_partial.add(); }
    if (size < 0) return -1;
    char* p = R.add((size_t)size, B_ANY);
    fill_random(p, (size_t)size);
    *ptr = p;
    c_alloc.add();
    return size;
}
static int dealloc_cb(void*, void* p) {
    R.remove(p);
    return 0;
}
static IOAlloc my_alloc() {
    IOAlloc a;
    a.allocate.bind((void*)nullptr, &alloc_cb);
    a.deallocate.bind((void*)nullptr, &dealloc_cb);
    return a;
}

// read-only access to the window of an owning vector
struct Peek : public iovector {
    static uint16_t cap(const iovector* v) { return v->*(&Peek::capacity); }
    static uint16_t ib(const iovector* v) { return v->*(&Peek::iov_begin); }
    static uint16_t ie(const iovector* v) { return v->*(&Peek::iov_end); }
    static uint16_t nb(const iovector* v) { return v->*(&Peek::nbases); }
};

// ------------------------------------------------------------------ subjects
enum Kind { K_VIEW = 0, K_ENTITY = 1, K_HEAP = 2 };
static const char* kprefix[] = {"view.", "iovector.", "iovector."};
static const char* kname[] = {"iovector_view", "IOVector", "new_iovector"};

struct BV {                 // a bare view and the bytes it denotes
    iovector_view v;
    std::string m;
};
struct Subj {
    Kind kind = K_VIEW;
    iovector_view v;        // K_VIEW
    iovector* o = nullptr;  // K_ENTITY / K_HEAP
    std::string m;          // the model: the flat byte string
    const struct iovec* iov() const { return kind == K_VIEW ? v.iov : o->iovec(); }
    int cnt() const { return kind == K_VIEW ? v.iovcnt : (int)o->iovcnt(); }
};
template <class F>
static auto with(Subj& S, F f) -> decltype(f(S.v)) {
    if (S.kind == K_VIEW) return f(S.v);
    return f(*S.o);
}

enum { F_BOUNDARY = 1, F_BEYOND = 2, F_EMPTYOP = 4, F_ZEROLEN = 8, F_STRADDLE = 16, F_INSUFF = 32 };

static std::vector<iovector*> g_entities, g_heaps;

struct Prog {
    vh::Rng& r;
    Subj S;
    std::string init, trace;
    uint64_t h = 0;
    unsigned flags = 0;
    bool dead = false, matrix = false;
    int cnt0 = 0;
    size_t len0[64];
    uint64_t ops = 0;
    explicit Prog(vh::Rng& r_) : r(r_) {}
};
static uint64_t g_probe_budget = 0;

static std::string lens_text(const struct iovec* iov, int cnt) {
    std::string s = "[";
    for (int i = 0; i < cnt && i < 64; ++i) { if (i) s += ","; s += std::to_string(iov[i].iov_len); }
    if (cnt > 64) s += ",...";
    return s + "]";
}
static void snapshot(Prog& P) {
    P.cnt0 = P.S.cnt();
    auto iov = P.S.iov();
    for (int i = 0; i < P.cnt0 && i < 64; ++i) P.len0[i] = iov[i].iov_len;
}
static void bad(Prog& P, const std::string& op, const char* aspect, const std::string& what, const std::string& detail = "") {
    std::string before = "[";
    for (int i = 0; i < P.cnt0 && i < 64; ++i) { if (i) before += ","; before += std::to_string(P.len0[i]); }
    before += "]";
    vh::violation(std::string(kprefix[P.S.kind]) + op + "/" + aspect, what,
                  vh::JObj().kv("subject", kname[P.S.kind]).kv("initial_element_lengths", P.init).kv("operations", P.trace)
                      .kv("element_lengths_before_failing_op", before).kv("detail", detail).str());
    P.dead = true;
}

// flatten a window of iovecs; every element is validated against the registry before it is read
static bool flatten(const struct iovec* iov, int cnt, std::string& out, std::string& why) {
    out.clear();
    if (cnt < 0 || cnt > 4096) { why = "element count " + std::to_string(cnt) + " out of range"; return false; }
    if (cnt == 0) return true;
    if (!R.find_kind(iov, (size_t)cnt * sizeof(struct iovec), true)) { why = "the iovec window lies outside the iovec array it was given"; return false; }
    for (int i = 0; i < cnt; ++i) {
        if (!R.find_kind(iov[i].iov_base, iov[i].iov_len, false)) {
            why = "element " + std::to_string(i) + " (length " + std::to_string(iov[i].iov_len) + ") lies outside the buffers handed to the library";
            return false;
        }
        out.append((const char*)iov[i].iov_base, iov[i].iov_len);
    }
    return true;
}
static std::string g_tmp;
static bool check_window(Prog& P, const std::string& op) {
    if (P.S.kind == K_VIEW) return true;
    auto o = P.S.o;
    if (Peek::ib(o) > Peek::ie(o) || Peek::ie(o) > Peek::cap(o)) {
        bad(P, op, "outside-buffers", "the window [iov_begin, iov_end) of the iovector left [0, capacity]",
            "begin=" + std::to_string(Peek::ib(o)) + " end=" + std::to_string(Peek::ie(o)) + " capacity=" + std::to_string(Peek::cap(o)));
        return false;
    }
    return true;
}
// the subject denotes exactly the model string
static bool check_state(Prog& P, const std::string& op) {
    if (!check_window(P, op)) return false;
    std::string why;
    if (!flatten(P.S.iov(), P.S.cnt(), g_tmp, why)) { bad(P, op, "outside-buffers", why); return false; }
    if (g_tmp != P.S.m) {
        bad(P, op, "remaining", "after the operation the vector does not denote the bytes the flat-string model has",
            "model(" + std::to_string(P.S.m.size()) + ")=" + vh::hex(P.S.m.data(), P.S.m.size(), 48) + " vector(" + std::to_string(g_tmp.size()) + ")=" +
                vh::hex(g_tmp.data(), g_tmp.size(), 48) + " elements=" + lens_text(P.S.iov(), P.S.cnt()));
        return false;
    }
    return true;
}
// after a tolerated failure: take the vector's content as the new model (still validated)
static bool resync(Prog& P, const std::string& op) {
    if (!check_window(P, op)) return false;
    std::string why;
    if (!flatten(P.S.iov(), P.S.cnt(), g_tmp, why)) { bad(P, op, "outside-buffers", why); return false; }
    P.S.m = g_tmp;
    return true;
}
static bool check_view_is(Prog& P, const std::string& op, const iovector_view& w, const char* expect, size_t n, const char* role) {
    std::string why, f;
    if (!flatten(w.iov, w.iovcnt, f, why)) { bad(P, op, "outside-buffers", std::string(role) + ": " + why); return false; }
    if (f.size() != n || memcmp(f.data(), expect, n)) {
        bad(P, op, "bytes", std::string(role) + " does not denote the bytes the flat-string model has",
            "model(" + std::to_string(n) + ")=" + vh::hex(expect, n, 48) + " got(" + std::to_string(f.size()) + ")=" + vh::hex(f.data(), f.size(), 48) +
                " elements=" + lens_text(w.iov, w.iovcnt));
        return false;
    }
    return true;
}

// ------------------------------------------------------------------ shapes
struct Shape { int cnt; size_t len[64]; };
static void gen_shape(vh::Rng& r, Shape& s, int maxcnt) {
    int c;
    uint64_t d = r.below(20);
    if (d == 0) c = 0;
    else if (d <= 2) c = 1;
    else if (d <= 14) c = 2 + (int)r.below(5);
    else if (d <= 18) c = 7 + (int)r.below(6);
    else c = 13 + (int)r.below(28);
    if (c > maxcnt) c = maxcnt;
    if (c > 64) c = 64;
    s.cnt = c;
    int style = (int)r.below(4);
    for (int i = 0; i < c; ++i) {
        size_t l;
        switch (style) {
        case 0: l = r.below(5); break;                                       // tiny, many coinciding boundaries
        case 1: l = r.chance(1, 5) ? 0 : 1 + r.below(8); break;
        case 2: l = r.chance(1, 2) ? 0 : 1 + r.below(4); break;              // many zero-length elements
        default: l = r.chance(1, 6) ? 0 : 1 + r.below(40); break;
        }
        s.len[i] = l;
    }
}
static std::string shape_text(const Shape& s) {
    std::string t = "[";
    for (int i = 0; i < s.cnt; ++i) { if (i) t += ","; t += std::to_string(s.len[i]); }
    return t + "]";
}
static const struct iovec POISON = {(void*)0xdead0000beef, 77};

enum Empt { E_NONE = 0, E_NULL, E_PASTEND, E_INBOUNDS };
static void make_view(vh::Rng& r, const Shape& s, BV& w, Empt force = E_NONE) {
    w.m.clear();
    if (s.cnt == 0) {
        Empt e = force != E_NONE ? force : (r.chance(1, 2) ? E_PASTEND : E_INBOUNDS);
        if (e == E_NULL) { w.v = iovector_view(); return; }
        auto arr = (struct iovec*)R.add(sizeof(struct iovec), B_ARR);
        arr[0] = POISON;
        w.v = e == E_PASTEND ? iovector_view(arr + 1, 0) : iovector_view(arr, 0);
        return;
    }
    auto arr = (struct iovec*)R.add(s.cnt * sizeof(struct iovec), B_ARR);
    for (int i = 0; i < s.cnt; ++i) {
        char* p = R.add(s.len[i], B_DATA);
        fill_random(p, s.len[i]);
        arr[i] = {p, s.len[i]};
        w.m.append(p, s.len[i]);
    }
    w.v = iovector_view(arr, s.cnt);
}
static iovector* new_owning(vh::Rng& r, Kind k, int need_slots /* -1: any */, int* reserve_out = nullptr) {
    iovector* o;
    if (k == K_ENTITY) {
        uint16_t res = need_slots >= 0 ? (uint16_t)r.below(32 - need_slots + 1) : r.pick({(uint16_t)4, (uint16_t)4, (uint16_t)0, (uint16_t)r.below(33)});
        auto e = new IOVector(my_alloc(), res);
        R.adopt(e, sizeof(IOVector), B_OBJ);
        g_entities.push_back(e);
        o = e;
        if (reserve_out) *reserve_out = res;
    } else {
        uint16_t cap = need_slots >= 0 ? (uint16_t)(need_slots + r.below(4)) : (uint16_t)r.below(41);
        uint16_t res = need_slots >= 0 ? (uint16_t)r.below(cap - need_slots + 1) : (uint16_t)r.below(cap + 1);
        o = new_iovector(cap, res);
        *o->get_allocator() = my_alloc();       // new_iovector leaves the allocator unconstructed
        R.adopt(o, sizeof(iovector) + sizeof(struct iovec) * cap + sizeof(IOAlloc) + sizeof(void*) * cap, B_OBJ);
        g_heaps.push_back(o);
        if (reserve_out) *reserve_out = res;
    }
    return o;
}
// fill an owning vector with the elements of a shape by push_back / push_front (as far as it has room)
static bool fill_owning(Prog& P, iovector* o, const Shape& s, std::string& m, std::string& realized) {
    realized = "[";
    std::vector<size_t> lens;
    for (int i = 0; i < s.cnt; ++i) {
        bool back_free = o->back_free_iovcnt() > 0, front_free = o->front_free_iovcnt() > 0;
        if (!back_free && !front_free) break;
        bool back = back_free && (!front_free || P.r.chance(3, 4));
        char* p = R.add(s.len[i], B_DATA);
        fill_random(p, s.len[i]);
        size_t ret = back ? (P.r.chance(1, 2) ? o->push_back(p, s.len[i]) : o->push_back({p, s.len[i]}))
                          : (P.r.chance(1, 2) ? o->push_front(p, s.len[i]) : o->push_front({p, s.len[i]}));
        if (ret != s.len[i]) {
            P.S.kind = K_ENTITY;
            bad(P, back ? "push_back(buf,len)" : "push_front(buf,len)", "return", "push into a free slot did not return the element length",
                "returned " + std::to_string(ret) + " for length " + std::to_string(s.len[i]));
            return false;
        }
        if (back) { m.append(p, s.len[i]); lens.push_back(s.len[i]); }
        else { m.insert(0, p, s.len[i]); lens.insert(lens.begin(), s.len[i]); }
        c_ops.add(); vh::event();
    }
    for (size_t i = 0; i < lens.size(); ++i) { if (i) realized += ","; realized += std::to_string(lens[i]); }
    realized += "]";
    return true;
}

// ------------------------------------------------------------------ argument choice
static bool is_boundary(const Prog& P, size_t n, bool from_back) {
    size_t total = P.S.m.size();
    if (n == 0 || n >= total || P.cnt0 < 2) return false;
    size_t acc = 0;
    for (int i = 0; i < P.cnt0 && i < 64; ++i) {
        int k = from_back ? P.cnt0 - 1 - i : i;
        if (k >= 64) continue;
        acc += P.len0[k];
        if (acc == n) return true;
        if (acc > n) return false;
    }
    return false;
}
static size_t pick_n(Prog& P, bool from_back, bool allow_huge, size_t max_beyond) {
    auto& r = P.r;
    size_t total = P.S.m.size();
    size_t n;
    uint64_t d = r.below(100);
    if (d < 7) n = 0;
    else if (d < 40 && P.cnt0 > 0) {              // an element boundary
        int k = 1 + (int)r.below(std::min(P.cnt0, 64));
        n = 0;
        for (int i = 0; i < k; ++i) n += P.len0[from_back ? std::min(P.cnt0, 64) - 1 - i : i];
        if (d < 12 && n > 0) n -= 1;
        else if (d < 17) n += 1;
    } else if (d < 50) n = total;
    else if (d < 62) n = total + 1 + r.below(std::min<size_t>(max_beyond, 70));
    else if (d < 70 && allow_huge) n = r.pick({(size_t)SIZE_MAX, (size_t)SIZE_MAX / 2, (size_t)1 << 40, (size_t)INT32_MAX + 1, (size_t)SSIZE_MAX});
    else n = r.below(total + 1);
    if (max_beyond != SIZE_MAX && n > total + max_beyond) n = total + max_beyond;
    if (!allow_huge && n > total + 4096) n = total;
    if (n > total) { P.flags |= F_BEYOND; c_beyond.add(); }
    if (is_boundary(P, n, from_back)) { P.flags |= F_BOUNDARY; c_boundary.add(); }
    return n;
}
static void note_op(Prog& P, const char* name, uint64_t a = 0, uint64_t b = 0, uint64_t c = 0) {
    P.h = vh::mix(P.h, vh::hash_bytes(name, strlen(name)) ^ vh::mix(a, vh::mix(b, c)));
    for (int i = 0; i < P.cnt0 && i < 64; ++i)
        if (P.len0[i] == 0) { P.flags |= F_ZEROLEN; c_zerolen.add(); break; }
}
static std::string num(size_t n) {
    if (n == SIZE_MAX) return "SIZE_MAX";
    if (n > ((size_t)1 << 36)) { char b[32]; snprintf(b, sizeof(b), "0x%zx", n); return b; }
    return std::to_string(n);
}

// ------------------------------------------------------------------ forked probe
// A sanitizer report costs ~50 ms (symbolisation). In a "fast" child the report hooks leave right after the error kind is
// known; only the first death per violation key is repeated in a normal child to get the full report for the witness.
static volatile int g_child_fast = 0;
#if defined(__SANITIZE_ADDRESS__)
// fork() of an ASan process costs in proportion to its resident heap; nothing here depends on a long quarantine
extern "C" const char* __asan_default_options() { return "quarantine_size_mb=8"; }
extern "C" const char* __asan_get_report_description();
extern "C" void __asan_on_error() {
    if (!g_child_fast) return;
    const char* d = __asan_get_report_description();
    if (d) { (void)!write(2, "ASAN-KIND:", 10); (void)!write(2, d, strlen(d)); }
    _exit(99);
}
extern "C" void __ubsan_get_current_report_data(const char** kind, const char** msg, const char** file, unsigned* line, unsigned* col, char** addr);
extern "C" void __ubsan_on_report() {
    if (!g_child_fast) return;
    const char *kind = nullptr, *msg = nullptr, *file = nullptr;
    unsigned line = 0, col = 0;
    char* addr = nullptr;
    __ubsan_get_current_report_data(&kind, &msg, &file, &line, &col, &addr);
    (void)!write(2, "UBSAN-KIND:", 11);
    if (kind) (void)!write(2, kind, strlen(kind));
    (void)!write(2, ":", 1);
    if (msg) (void)!write(2, msg, strlen(msg));
    _exit(98);
}
#endif
struct ProbeResult { bool died = false; std::string how, report; };
template <class F>
static ProbeResult probe(F f, bool fast) {
    ProbeResult pr;
    int pfd[2];
    if (pipe(pfd) < 0) vh::machinery_failure("pipe failed");
    fflush(stderr);
    pid_t pid = fork();
    if (pid < 0) vh::machinery_failure("fork failed");
    if (pid == 0) {
        close(pfd[0]);
        dup2(pfd[1], 2);
        dup2(pfd[1], 1);
        g_child_fast = fast;
        f();
        _exit(0);
    }
    close(pfd[1]);
    char buf[4096];
    ssize_t k;
    while ((k = read(pfd[0], buf, sizeof(buf))) > 0 || (k < 0 && errno == EINTR))
        if (k > 0 && pr.report.size() < 16384) pr.report.append(buf, k);
    close(pfd[0]);
    int st = 0;
    while (waitpid(pid, &st, 0) < 0 && errno == EINTR) {}
    c_probes.add();
    if (WIFEXITED(st) && WEXITSTATUS(st) == 0) return pr;
    pr.died = true;
    c_probe_died.add();
    auto has = [&](const char* s) { return pr.report.find(s) != std::string::npos; };
    if (has("heap-buffer-overflow")) pr.how = "heap-buffer-overflow";
    else if (has("AddressSanitizer: SEGV") || has("ASAN-KIND:SEGV") || has("null pointer") || has("UBSAN-KIND:null-pointer") || (WIFSIGNALED(st) && (WTERMSIG(st) == SIGSEGV || WTERMSIG(st) == SIGBUS))) pr.how = "crash";
    else if (has("AddressSanitizer:") || has("ASAN-KIND:")) pr.how = "asan-other";
    else if (has("runtime error:") || has("UBSAN-KIND:")) pr.how = "ubsan-other";
    else pr.how = WIFSIGNALED(st) ? "signal-" + std::to_string(WTERMSIG(st)) : "exit-" + std::to_string(WEXITSTATUS(st));
    // keep the informative lines of the report for the witness
    std::string keep;
    size_t pos = 0;
    int lines = 0;
    while (pos < pr.report.size() && lines < 12) {
        size_t e = pr.report.find('\n', pos);
        if (e == std::string::npos) e = pr.report.size();
        std::string ln = pr.report.substr(pos, e - pos);
        if (ln.find("runtime error") != std::string::npos || ln.find("ERROR:") != std::string::npos || ln.find("SUMMARY") != std::string::npos ||
            ln.find("READ of") != std::string::npos || ln.find("WRITE of") != std::string::npos || ln.find("    #0 ") != std::string::npos ||
            ln.find("    #1 ") != std::string::npos || ln.find("    #2 ") != std::string::npos || ln.find("is located") != std::string::npos) {
            keep += ln.substr(0, 240) + " | ";
            ++lines;
        }
        pos = e + 1;
    }
    if (WIFSIGNALED(st)) keep += "killed by signal " + std::to_string(WTERMSIG(st));
    // the driver scans stderr for sanitizer banners; the child's report lives in the witness only
    for (auto& ch : keep) if (ch == '=') ch = ' ';
    size_t p2;
    while ((p2 = keep.find("ERROR: AddressSanitizer")) != std::string::npos) keep.replace(p2, 23, "ASan report");
    while ((p2 = keep.find("runtime error")) != std::string::npos) keep.replace(p2, 13, "UBSan report");
    pr.report = keep;
    return pr;
}
// where the iov pointer of an empty view points: 2 = null, 1 = at/after the end of its array, 0 = at an entry of its array
static int empt_class(const iovector_view& v) {
    if (!v.iov) return 2;
    for (auto& x : R.b)
        if ((x.kind == B_ARR || x.kind == B_ANY || x.kind == B_OBJ) && (char*)v.iov >= x.start && (char*)v.iov <= x.start + x.size)
            return (char*)v.iov + sizeof(struct iovec) <= x.start + x.size ? 0 : 1;
    return 1;
}
static const char* empt_name[] = {"in-bounds-iov", "past-end-iov", "null-iov"};
static std::unordered_set<std::string> g_probe_keys;
static std::map<std::string, bool> g_probe_classes;
// returns false if the operation must not be run in this process (it died in the child, or no budget)
template <class F>
static bool guard_empty_operand(Prog& P, const std::string& op, const char* family, const iovector_view* a, const iovector_view* b, F raw) {
    bool ea = a && a->iovcnt == 0, eb = b && b->iovcnt == 0;
    if (!ea && !eb) return true;
    // both may be empty: name the case after the more dangerous pointer
    int ci = std::max(ea ? empt_class(*a) : 0, eb ? empt_class(*b) : 0);
    P.flags |= F_EMPTYOP;
    c_emptyop.add();
    // one probe per class of case (operation, kind of subject, where each empty operand's iov points); cases of a class
    // that survived run in this process afterwards, cases of a class that died are skipped (already reported)
    int ca = ea ? empt_class(*a) : -1, cb = eb ? empt_class(*b) : -1;
    std::string cls_key = op + "/" + std::to_string(P.S.kind) + "/" + std::to_string(ca) + "/" + std::to_string(cb);
    auto it = g_probe_classes.find(cls_key);
    if (it != g_probe_classes.end()) {
        if (it->second) return true;
        c_skipped.add();
        return false;
    }
    if (!P.matrix) {
        if (g_probe_budget == 0) { c_skipped.add(); return false; }
        --g_probe_budget;
    }
    auto pr = probe(raw, true);
    g_probe_classes[cls_key] = !pr.died;
    if (!pr.died) return true;
    std::string cls = empt_name[ci];
    std::string key = "empty-view-operand/" + cls + ":" + family + ":" + pr.how;
    if (g_probe_keys.insert(key).second) {          // first time: once more with the full report, for the witness
        auto full = probe(raw, false);
        if (full.died) pr.report = full.report;
    }
    vh::violation(key,
                  std::string(family) + " operation with an empty iovector_view operand (" + cls + ") kills the process instead of copying 0 bytes",
                  vh::JObj().kv("subject", kname[P.S.kind]).kv("initial_element_lengths", P.init).kv("operations", P.trace).kv("failing_op", op)
                      .kv("empty_operand", cls).kv("child", pr.how).kv("report", pr.report).str());
    return false;           // the op is skipped, the program continues (nothing happened in this process)
}

// ------------------------------------------------------------------ destination views
struct OutView { iovector_view v; struct iovec* arr = nullptr; int N = 0; bool autoalloc = false; };
static OutView make_out(Prog& P, bool owning_subject, int need) {
    OutView o;
    if (owning_subject && P.r.chance(1, 2)) { o.autoalloc = true; o.v = iovector_view(); return o; }
    int N = P.r.chance(3, 20) && need > 0 ? (int)P.r.below(need) : need + (int)P.r.below(4);
    o.N = N;
    o.arr = (struct iovec*)R.add(std::max(N, 1) * sizeof(struct iovec), B_ARR);
    for (int i = 0; i < std::max(N, 1); ++i) o.arr[i] = POISON;
    o.v = N ? iovector_view(o.arr, N) : iovector_view(o.arr + 1, 0);
    if (owning_subject && N == 0) o.autoalloc = true;       // the iovector wrappers allocate the array whenever iovcnt == 0
    return o;
}
static void maybe_adopt(Prog& P, const OutView& o, const std::string& bytes) {
    if (o.v.iovcnt <= 0 || !P.r.chance(1, 6)) return;
    P.S.kind = K_VIEW;
    P.S.v = o.v;
    P.S.o = nullptr;
    P.S.m = bytes;
    P.trace += " [continue on the sub-vector];";
    c_adopt.add();
}

// ------------------------------------------------------------------ operations
static void op_sum(Prog& P) {
    note_op(P, "sum");
    P.trace += " sum();";
    size_t ret = with(P.S, [&](auto& x) { return x.sum(); });
    if (ret != P.S.m.size()) bad(P, "sum", "return", "sum() differs from the length of the flat string", "returned " + num(ret) + " expected " + num(P.S.m.size()));
}
static void op_shrink_to(Prog& P) {
    size_t n = pick_n(P, false, true, SIZE_MAX), total = P.S.m.size(), e = std::min(n, total);
    note_op(P, "shrink_to", n);
    P.trace += " shrink_to(" + num(n) + ");";
    size_t ret = with(P.S, [&](auto& x) { return x.shrink_to(n); });
    if (ret != e) { bad(P, "shrink_to", "return", "shrink_to(n) did not return min(n, content)", "returned " + num(ret) + " expected " + num(e)); return; }
    P.S.m.resize(e);
    check_state(P, "shrink_to");
}
static void op_shrink_less_than(Prog& P) {
    size_t n = pick_n(P, false, true, SIZE_MAX);
    note_op(P, "shrink_less_than", n);
    P.trace += " shrink_less_than(" + num(n) + ");";
    P.S.v.shrink_less_than(n);
    std::string why;
    if (!flatten(P.S.iov(), P.S.cnt(), g_tmp, why)) { bad(P, "shrink_less_than", "outside-buffers", why); return; }
    if (g_tmp.size() > P.S.m.size() || memcmp(g_tmp.data(), P.S.m.data(), g_tmp.size())) { bad(P, "shrink_less_than", "not-a-prefix", "the result is not a prefix of the previous content"); return; }
    P.S.m = g_tmp;
}
static void op_truncate(Prog& P) {
    size_t n = pick_n(P, false, false, 100), total = P.S.m.size();
    note_op(P, "truncate", n);
    P.trace += " truncate(" + num(n) + ");";
    size_t ret = P.S.o->truncate(n);
    if (!check_window(P, "truncate")) return;
    std::string why;
    if (!flatten(P.S.iov(), P.S.cnt(), g_tmp, why)) { bad(P, "truncate", "outside-buffers", why); return; }
    if (ret != g_tmp.size()) { bad(P, "truncate", "return", "truncate() did not return the resulting size", "returned " + num(ret) + " resulting size " + num(g_tmp.size())); return; }
    size_t keep = std::min(n, total);
    if (g_tmp.size() < keep || memcmp(g_tmp.data(), P.S.m.data(), keep)) { bad(P, "truncate", "remaining", "truncate() did not preserve the first min(n, content) bytes"); return; }
    if (n <= total ? ret != n : (ret < total || ret > n)) { bad(P, "truncate", "return", "truncate(n) result size out of range", "returned " + num(ret) + " n=" + num(n) + " content " + num(total)); return; }
    P.S.m = g_tmp;
}
static void op_extract(Prog& P, bool back) {
    size_t n = pick_n(P, back, true, SIZE_MAX), total = P.S.m.size(), e = std::min(n, total);
    std::string op = back ? "extract_back(n)" : "extract_front(n)";
    note_op(P, op.c_str(), n);
    P.trace += (back ? " extract_back(" : " extract_front(") + num(n) + ");";
    size_t ret = with(P.S, [&](auto& x) { return back ? x.extract_back(n) : x.extract_front(n); });
    if (ret != e) { bad(P, op, "return", "did not return min(n, content)", "returned " + num(ret) + " expected " + num(e)); return; }
    if (back) P.S.m.resize(total - e); else P.S.m.erase(0, e);
    check_state(P, op);
}
static void op_extract_buf(Prog& P, bool back) {
    size_t total = P.S.m.size();
    size_t n = back ? pick_n(P, true, false, 64) : pick_n(P, false, true, SIZE_MAX), e = std::min(n, total);
    std::string op = back ? "extract_back(n,buf)" : "extract_front(n,buf)";
    note_op(P, op.c_str(), n);
    P.trace += (back ? " extract_back(" : " extract_front(") + num(n) + ",buf);";
    // front: the extracted bytes go to the start of buf -> buf has exactly min(n,content) bytes.
    // back:  the code fills buf from its end (buf + n downwards) -> buf has exactly n bytes, either placement is accepted.
    size_t bsz = back ? n : e;
    char* buf = R.add(bsz, B_DATA);
    memset(buf, 0x5a, bsz);
    size_t ret = with(P.S, [&](auto& x) { return back ? x.extract_back(n, buf) : x.extract_front(n, buf); });
    if (ret != e) { bad(P, op, "return", "did not return min(n, content)", "returned " + num(ret) + " expected " + num(e)); return; }
    const char* want = back ? P.S.m.data() + total - e : P.S.m.data();
    bool ok = !memcmp(buf, want, e);
    if (!ok && back && !memcmp(buf + (n - e), want, e)) { ok = true; if (n > e && e) c_back_right.add(); }
    if (!ok) { bad(P, op, "bytes", "the bytes copied out are not the extracted bytes of the flat string", "model=" + vh::hex(want, e, 48) + " buf=" + vh::hex(buf, bsz, 64)); return; }
    if (back) P.S.m.resize(total - e); else P.S.m.erase(0, e);
    check_state(P, op);
}
static void op_extract_view(Prog& P, bool back) {
    size_t n = pick_n(P, back, true, SIZE_MAX), total = P.S.m.size(), e = std::min(n, total);
    bool own = P.S.kind != K_VIEW;
    uint16_t nb0 = own ? Peek::nb(P.S.o) : 0, cap0 = own ? Peek::cap(P.S.o) : 0;
    // the slots this extraction can need at most: one per source element it takes bytes from, plus the empty elements
    // lying between them (they are passed on as empty pieces; a request beyond the content walks over all elements)
    int need_max = 0;
    {
        const struct iovec* sv = P.S.iov();
        int sc = P.S.cnt();
        size_t rem = n;
        for (int k = 0; k < sc && rem > 0; ++k) {
            const struct iovec& el = back ? sv[sc - 1 - k] : sv[k];
            need_max++;
            rem -= std::min(rem, el.iov_len);
        }
    }
    OutView o = make_out(P, own, P.cnt0);
    if (!o.autoalloc && need_max > 0 && P.r.chance(1, 2)) {        // a destination with exactly as many slots as needed (or one more)
        int N = need_max + (int)P.r.below(2);
        o.N = N;
        o.arr = (struct iovec*)R.add(N * sizeof(struct iovec), B_ARR);
        for (int i = 0; i < N; ++i) o.arr[i] = POISON;
        o.v = iovector_view(o.arr, N);
        c_exact_dest.add();
    }
    std::string op = back ? "extract_back(n,view*)" : "extract_front(n,view*)";
    note_op(P, op.c_str(), n, o.autoalloc ? 999 : o.N);
    P.trace += (back ? " extract_back(" : " extract_front(") + num(n) + (o.autoalloc ? ",&empty_view);" : ",&view[" + std::to_string(o.N) + "]);");
    ssize_t ret = with(P.S, [&](auto& x) { return back ? x.extract_back(n, &o.v) : x.extract_front(n, &o.v); });
    if (own && n == 0) {
        if (ret != 0) { bad(P, op, "return", "extracting 0 bytes did not return 0", "returned " + std::to_string(ret)); return; }
        check_state(P, op);
        return;
    }
    if (ret == -1) {
        bool tolerated = o.autoalloc ? nb0 >= cap0 : o.N < need_max;
        if (!tolerated) { bad(P, op, "return", "returned -1 although the destination view has a slot for every piece of the extracted range",
                              "slots " + std::to_string(o.N) + " pieces needed at most " + std::to_string(need_max)); return; }
        P.flags |= F_INSUFF; c_insuff.add();
        resync(P, op);
        return;
    }
    if (ret < 0 || (size_t)ret != e) { bad(P, op, "return", "did not return min(n, content)", "returned " + std::to_string(ret) + " expected " + num(e)); return; }
    std::string part = back ? P.S.m.substr(total - e) : P.S.m.substr(0, e);
    if (!check_view_is(P, op, o.v, part.data(), e, "the extracted sub-vector")) return;
    if (back) P.S.m.resize(total - e); else P.S.m.erase(0, e);
    if (!check_state(P, op)) return;
    maybe_adopt(P, o, part);
}
static void op_extract_iovector(Prog& P, bool back) {
    size_t n = pick_n(P, back, true, SIZE_MAX), total = P.S.m.size(), e = std::min(n, total);
    Kind dk = (P.cnt0 <= 28 && P.r.chance(1, 3)) ? K_ENTITY : K_HEAP;
    iovector* D = new_owning(P.r, dk, P.cnt0);
    std::string op = back ? "extract_back(n,iovector*)" : "extract_front(n,iovector*)";
    note_op(P, op.c_str(), n, dk);
    P.trace += (back ? " extract_back(" : " extract_front(") + num(n) + ",&" + kname[dk] + ");";
    ssize_t ret = back ? P.S.o->extract_back(n, D) : P.S.o->extract_front(n, D);
    if (ret < 0 || (size_t)ret != e) { bad(P, op, "return", "did not return min(n, content)", "returned " + std::to_string(ret) + " expected " + num(e)); return; }
    if (n != 0) {
        if (Peek::ib(D) > Peek::ie(D) || Peek::ie(D) > Peek::cap(D)) { bad(P, op, "outside-buffers", "the destination iovector's window left [0, capacity]"); return; }
        std::string part = back ? P.S.m.substr(total - e) : P.S.m.substr(0, e);
        if (!check_view_is(P, op, D->view(), part.data(), e, "the destination iovector")) return;
    }
    if (back) P.S.m.resize(total - e); else P.S.m.erase(0, e);
    check_state(P, op);
}
static void op_extract_cont(Prog& P, bool back) {
    auto& r = P.r;
    size_t total = P.S.m.size(), n;
    size_t edge = P.cnt0 ? P.len0[back ? std::min(P.cnt0, 64) - 1 : 0] : 0;
    uint64_t d = r.below(10);
    if (d < 4) n = r.below(edge + 1);
    else if (d < 6) n = edge;
    else if (d < 7) n = edge + 1;
    else n = pick_n(P, back, true, SIZE_MAX);
    if (n > total) { P.flags |= F_BEYOND; }
    bool own = P.S.kind != K_VIEW;
    uint16_t nb0 = own ? Peek::nb(P.S.o) : 0, cap0 = own ? Peek::cap(P.S.o) : 0;
    std::string op = back ? "extract_back_continuous(n)" : "extract_front_continuous(n)";
    note_op(P, op.c_str(), n);
    P.trace += (back ? " extract_back_continuous(" : " extract_front_continuous(") + num(n) + ");";
    void* p = with(P.S, [&](auto& x) { return back ? x.extract_back_continuous(n) : x.extract_front_continuous(n); });
    if (!p) {
        bool edge_holds = P.cnt0 > 0 && P.cnt0 <= 64 && edge >= n;
        if (!own && edge_holds) { bad(P, op, "return", "returned nullptr although the front/back element alone holds the requested bytes"); return; }
        if (own && n != 0 && n <= total && (edge_holds || nb0 < cap0)) { bad(P, op, "return", "returned nullptr although the content holds the requested bytes and the allocation table is not full"); return; }
        check_state(P, op);     // nothing may have been extracted
        return;
    }
    if (n > total) { bad(P, op, "return", "returned a pointer although the request exceeds the content", "n=" + num(n) + " content " + num(total)); return; }
    if (!R.find_kind(p, n, false)) { bad(P, op, "outside-buffers", "the returned pointer does not lie in a buffer handed to (or allocated by) the vector"); return; }
    const char* want = back ? P.S.m.data() + total - n : P.S.m.data();
    if (memcmp(p, want, n)) { bad(P, op, "bytes", "the contiguous bytes are not the extracted bytes of the flat string", "model=" + vh::hex(want, n, 48) + " got=" + vh::hex(p, n, 48)); return; }
    if (own && !(P.cnt0 > 0 && P.cnt0 <= 64 && edge >= n)) c_cont_copy.add();
    if (back) P.S.m.resize(total - n); else P.S.m.erase(0, n);
    check_state(P, op);
}
static void op_slice(Prog& P) {
    auto& r = P.r;
    size_t total = P.S.m.size();
    size_t count = pick_n(P, false, true, SIZE_MAX);
    off_t off;
    uint64_t d = r.below(20);
    if (d < 4) off = 0;
    else if (d < 9 && P.cnt0 > 0) { int k = (int)r.below(std::min(P.cnt0, 64)); size_t a = 0; for (int i = 0; i <= k; ++i) a += P.len0[i]; off = (off_t)a - (off_t)r.below(2); if (off < 0) off = 0; }
    else if (d < 11) off = (off_t)total;
    else if (d < 13) off = (off_t)(total + 1 + r.below(9));
    else if (d < 14) off = r.pick({(off_t)1 << 40, (off_t)INT64_MAX, (off_t)INT32_MAX + 1});
    else off = (off_t)r.below(total + 1);
    size_t e = (size_t)off >= total ? 0 : std::min(count, total - (size_t)off);
    bool own = P.S.kind != K_VIEW;
    uint16_t nb0 = own ? Peek::nb(P.S.o) : 0, cap0 = own ? Peek::cap(P.S.o) : 0;
    OutView o = make_out(P, own, std::max(P.cnt0, 1));
    note_op(P, "slice", count, (uint64_t)off, o.autoalloc ? 999 : o.N);
    P.trace += " slice(" + num(count) + "," + num((size_t)off) + (o.autoalloc ? ",&empty_view);" : ",&view[" + std::to_string(o.N) + "]);");
    // interior boundary reached by the end (or the begin) of the slice
    if (e) {
        Prog& Q = P;
        size_t endpos = (size_t)off + e;
        if ((endpos < total && is_boundary(Q, endpos, false)) || is_boundary(Q, (size_t)off, false)) { P.flags |= F_BOUNDARY; c_boundary.add(); }
    }
    ssize_t ret = with(P.S, [&](auto& x) { return x.slice(count, off, &o.v); });
    if (own && count == 0) {
        if (ret != 0) { bad(P, "slice", "return", "an empty slice did not return 0", "returned " + std::to_string(ret)); return; }
        check_state(P, "slice");
        return;
    }
    bool sufficient = o.autoalloc ? true : o.N >= std::max(P.cnt0, 1);
    if (ret == -1) {
        bool tolerated = o.autoalloc ? P.cnt0 == 0 : o.N < std::max(P.cnt0, 1);
        if (!tolerated) { bad(P, "slice", "return", "returned -1 although the destination view has a slot for every element of the source"); return; }
        P.flags |= F_INSUFF; c_insuff.add();
        check_state(P, "slice");
        return;
    }
    if (o.autoalloc && nb0 >= cap0 && ret == 0) { check_state(P, "slice"); return; }       // documented: 0 when the array cannot be allocated
    if (ret < 0 || (size_t)ret > e || (sufficient && (size_t)ret != e)) {
        bad(P, "slice", "return", "slice(count, offset) did not return the number of bytes the flat string has in [offset, offset+count)",
            "returned " + std::to_string(ret) + " expected " + num(e));
        return;
    }
    if (!sufficient) { P.flags |= F_INSUFF; c_insuff.add(); }
    std::string part = e ? P.S.m.substr((size_t)off, (size_t)ret) : std::string();
    if (!check_view_is(P, "slice", o.v, part.data(), (size_t)ret, "the slice")) return;
    if (!check_state(P, "slice")) return;
    maybe_adopt(P, o, part);
}

// boundaries of a view inside the first n bytes
static void boundaries(const struct iovec* iov, int cnt, size_t n, std::vector<size_t>& out) {
    out.clear();
    size_t acc = 0;
    for (int i = 0; i < cnt; ++i) { acc += iov[i].iov_len; if (acc > 0 && acc < n && (out.empty() || out.back() != acc)) out.push_back(acc); if (acc >= n) break; }
}
static std::vector<size_t> g_b1, g_b2;
static void note_straddle(Prog& P, const struct iovec* a, int ac, const struct iovec* b, int bc, size_t n) {
    boundaries(a, ac, n, g_b1);
    boundaries(b, bc, n, g_b2);
    if (!g_b1.empty() && !g_b2.empty() && g_b1 != g_b2) { P.flags |= F_STRADDLE; c_straddle.add(); }
}

enum CopyOp { MEMCPY_TO = 0, MEMCPY_FROM, PIPE_TO, PIPE_FROM };
static const char* copy_name[] = {"memcpy_to", "memcpy_from", "pipe_to", "pipe_from"};

// copy between the subject and a flat buffer
static void op_copy_buf(Prog& P, CopyOp c, size_t n_forced = SIZE_MAX - 1) {
    size_t total = P.S.m.size();
    size_t n = n_forced != SIZE_MAX - 1 ? n_forced : pick_n(P, false, false, 64), e = std::min(n, total);
    std::string op = std::string(copy_name[c]) + "(buf,n)";
    note_op(P, op.c_str(), n);
    P.trace += " " + std::string(copy_name[c]) + "(buf," + num(n) + ");";
    char* buf = R.add(n, B_DATA);       // "a buffer of `size` bytes"
    if (c == MEMCPY_FROM) fill_random(buf, n); else memset(buf, 0x5a, n);
    std::string src_copy(buf, n);
    auto raw = [&]() -> size_t {
        return with(P.S, [&](auto& x) -> size_t {
            switch (c) {
            case MEMCPY_TO: return x.memcpy_to(buf, n);
            case MEMCPY_FROM: return x.memcpy_from(buf, n);
            default: return x.pipe_to(buf, n);
            }
        });
    };
    if (P.S.kind == K_VIEW && !guard_empty_operand(P, op, c == PIPE_TO ? "pipe" : "memcpy", &P.S.v, nullptr, raw)) return;
    size_t ret = raw();
    if (ret != e) { bad(P, op, "return", "did not return min(n, content)", "returned " + num(ret) + " expected " + num(e)); return; }
    if (c == MEMCPY_FROM) {
        if (memcmp(buf, src_copy.data(), n)) { bad(P, op, "bytes", "the source buffer was modified"); return; }
        P.S.m.replace(0, e, buf, e);
    } else {
        if (memcmp(buf, P.S.m.data(), e)) { bad(P, op, "bytes", "the bytes copied out are not the first bytes of the flat string", "model=" + vh::hex(P.S.m.data(), e, 48) + " buf=" + vh::hex(buf, e, 48)); return; }
        if (c == PIPE_TO) P.S.m.erase(0, e);
    }
    check_state(P, op);
}
// copy between the subject and another bare view
static void op_copy_view(Prog& P, CopyOp c, BV& W, size_t n) {
    size_t total = P.S.m.size(), wt = W.m.size(), e = std::min(n, std::min(total, wt));
    std::string op = std::string(copy_name[c]) + "(view*,n)";
    note_op(P, op.c_str(), n, vh::hash_bytes(W.m.data(), W.m.size()), W.v.iovcnt);
    P.trace += " " + std::string(copy_name[c]) + "(&view" + lens_text(W.v.iov, W.v.iovcnt) + "," + num(n) + ");";
    bool use_default = n == SIZE_MAX && P.r.chance(1, 2);
    auto raw = [&]() -> size_t {
        return with(P.S, [&](auto& x) -> size_t {
            switch (c) {
            case MEMCPY_TO: return use_default ? x.memcpy_to(&W.v) : x.memcpy_to(&W.v, n);
            case MEMCPY_FROM: return use_default ? x.memcpy_from(&W.v) : x.memcpy_from(&W.v, n);
            case PIPE_TO: return use_default ? x.pipe_to(&W.v) : x.pipe_to(&W.v, n);
            default: return use_default ? x.pipe_from(&W.v) : x.pipe_from(&W.v, n);
            }
        });
    };
    if (!guard_empty_operand(P, op, c >= PIPE_TO ? "pipe" : "memcpy", P.S.kind == K_VIEW ? &P.S.v : nullptr, &W.v, raw)) return;
    if (total == 0 || wt == 0) { P.flags |= F_EMPTYOP; }
    note_straddle(P, P.S.iov(), P.S.cnt(), W.v.iov, W.v.iovcnt, e);
    size_t ret = raw();
    if (ret != e) { bad(P, op, "return", "did not return min(n, source content, destination room)", "returned " + num(ret) + " expected " + num(e)); return; }
    bool to = c == MEMCPY_TO || c == PIPE_TO;
    if (to) { W.m.replace(0, e, P.S.m, 0, e); if (c == PIPE_TO) P.S.m.erase(0, e); }
    else { P.S.m.replace(0, e, W.m, 0, e); if (c == PIPE_FROM) W.m.erase(0, e); }
    if (!check_view_is(P, op, W.v, W.m.data(), W.m.size(), "the other operand")) return;
    check_state(P, op);
}
// copy between the subject (owning) and another owning vector
static void op_copy_iovector(Prog& P, CopyOp c, iovector* W, std::string& wm, size_t n) {
    size_t total = P.S.m.size(), wt = wm.size(), e = std::min(n, std::min(total, wt));
    std::string op = std::string(copy_name[c]) + "(iovector*,n)";
    note_op(P, op.c_str(), n, vh::hash_bytes(wm.data(), wm.size()), W->iovcnt());
    P.trace += " " + std::string(copy_name[c]) + "(&iovector" + lens_text(W->iovec(), W->iovcnt()) + "," + num(n) + ");";
    note_straddle(P, P.S.iov(), P.S.cnt(), W->iovec(), W->iovcnt(), e);
    if (total == 0 || wt == 0) { P.flags |= F_EMPTYOP; c_emptyop.add(); }
    size_t ret;
    auto o = P.S.o;
    switch (c) {
    case MEMCPY_TO: ret = o->memcpy_to((const iovector*)W, n); break;
    case MEMCPY_FROM: ret = o->memcpy_from((const iovector*)W, n); break;
    case PIPE_TO: ret = o->pipe_to((const iovector*)W, n); break;
    default: ret = o->pipe_from(W, n); break;
    }
    if (ret != e) { bad(P, op, "return", "did not return min(n, source content, destination room)", "returned " + num(ret) + " expected " + num(e)); return; }
    bool to = c == MEMCPY_TO || c == PIPE_TO;
    if (to) { wm.replace(0, e, P.S.m, 0, e); if (c == PIPE_TO) P.S.m.erase(0, e); }
    else { P.S.m.replace(0, e, wm, 0, e); if (c == PIPE_FROM) wm.erase(0, e); }
    if (Peek::ib(W) > Peek::ie(W) || Peek::ie(W) > Peek::cap(W)) { bad(P, op, "outside-buffers", "the other iovector's window left [0, capacity]"); return; }
    if (!check_view_is(P, op, W->view(), wm.data(), wm.size(), "the other operand")) return;
    check_state(P, op);
}
static void op_pop(Prog& P, bool back) {
    if (P.cnt0 == 0 && P.S.kind == K_VIEW) return;          // precondition of iovector_view::pop_*
    std::string op = back ? "pop_back" : "pop_front";
    note_op(P, op.c_str());
    P.trace += " " + op + "();";
    size_t el = P.cnt0 ? P.S.iov()[back ? P.cnt0 - 1 : 0].iov_len : 0;
    if (P.S.kind == K_VIEW) { if (back) P.S.v.pop_back(); else P.S.v.pop_front(); }
    else {
        size_t ret = back ? P.S.o->pop_back() : P.S.o->pop_front();
        if (ret != el) { bad(P, op, "return", "did not return the length of the removed element", "returned " + num(ret) + " expected " + num(el)); return; }
    }
    if (back) P.S.m.resize(P.S.m.size() - el); else P.S.m.erase(0, el);
    check_state(P, op);
}
static void op_push_buf(Prog& P, bool back) {
    auto o = P.S.o;
    size_t len = P.r.chance(1, 5) ? 0 : 1 + P.r.below(12);
    bool room = back ? o->back_free_iovcnt() > 0 : o->front_free_iovcnt() > 0;
    std::string op = back ? "push_back(buf,len)" : "push_front(buf,len)";
    note_op(P, op.c_str(), len);
    P.trace += (back ? " push_back(buf," : " push_front(buf,") + num(len) + ");";
    char* p = R.add(len, B_DATA);
    fill_random(p, len);
    size_t ret = back ? o->push_back(p, len) : o->push_front(p, len);
    size_t e = room ? len : 0;
    if (ret != e) { bad(P, op, "return", room ? "push into a free slot did not return the element length" : "push into a full vector did not return 0", "returned " + num(ret)); return; }
    if (room) { if (back) P.S.m.append(p, len); else P.S.m.insert(0, p, len); }
    check_state(P, op);
}
static void op_push_alloc(Prog& P, bool back) {
    auto o = P.S.o;
    size_t n = 1 + P.r.below(48), total = P.S.m.size();
    bool room = (back ? o->back_free_iovcnt() > 0 : o->front_free_iovcnt() > 0) && Peek::nb(o) < Peek::cap(o);
    std::string op = back ? "push_back(bytes)" : "push_front(bytes)";
    note_op(P, op.c_str(), n);
    P.trace += (back ? " push_back(" : " push_front(") + num(n) + ");";
    size_t ret = back ? o->push_back(n) : o->push_front(n);
    if (!check_window(P, op)) return;
    std::string why;
    if (!flatten(P.S.iov(), P.S.cnt(), g_tmp, why)) { bad(P, op, "outside-buffers", why); return; }
    if (g_tmp.size() != total + ret || ret > n || (room && ret == 0)) {
        bad(P, op, "return", "did not return the number of bytes actually added", "returned " + num(ret) + " size before " + num(total) + " after " + num(g_tmp.size()));
        return;
    }
    if (back ? memcmp(g_tmp.data(), P.S.m.data(), total) : memcmp(g_tmp.data() + ret, P.S.m.data(), total)) { bad(P, op, "remaining", "the previous content was not preserved"); return; }
    P.S.m = g_tmp;
}

// ------------------------------------------------------------------ a program
static void new_subject(Prog& P, Kind k) {
    Shape s;
    gen_shape(P.r, s, 40);
    P.S.kind = k;
    P.S.m.clear();
    if (k == K_VIEW) {
        BV w;
        make_view(P.r, s, w);
        P.S.v = w.v;
        P.S.m = w.m;
        P.init = shape_text(s);
        c_view_progs.add();
    } else {
        int res = 0;
        P.S.o = new_owning(P.r, k, -1, &res);
        std::string realized;
        if (!fill_owning(P, P.S.o, s, P.S.m, realized)) return;
        P.init = realized + " capacity=" + std::to_string(Peek::cap(P.S.o)) + " reserve_front=" + std::to_string(res);
        (k == K_ENTITY ? c_entity_progs : c_heap_progs).add();
    }
    P.h = vh::mix(vh::hash_bytes(P.init.data(), P.init.size()), k);
}
static void cleanup() {
    for (auto e : g_entities) { R.forget(e); delete (IOVector*)e; }
    for (auto h : g_heaps) { R.forget(h); delete_iovector(h); }
    g_entities.clear();
    g_heaps.clear();
    R.free_all();
}
static size_t pick_copy_n(Prog& P, size_t wt) {
    auto& r = P.r;
    size_t total = P.S.m.size();
    uint64_t d = r.below(10);
    if (d < 3) return SIZE_MAX;
    if (d < 4) return 0;
    if (d < 6) return std::min(total, wt);
    if (d < 7) return std::min(total, wt) + 1 + r.below(5);
    return r.below(std::max(total, wt) + 2);
}
static void one_op(Prog& P) {
    auto& r = P.r;
    snapshot(P);
    bool own = P.S.kind != K_VIEW;
    uint64_t d = r.below(own ? 112 : 92);
    if (d < 3) op_sum(P);
    else if (d < 8) op_shrink_to(P);
    else if (d < 13) op_extract(P, false);
    else if (d < 18) op_extract(P, true);
    else if (d < 23) op_extract_buf(P, false);
    else if (d < 28) op_extract_buf(P, true);
    else if (d < 34) op_extract_view(P, false);
    else if (d < 40) op_extract_view(P, true);
    else if (d < 45) op_extract_cont(P, false);
    else if (d < 50) op_extract_cont(P, true);
    else if (d < 58) op_slice(P);
    else if (d < 70) op_copy_buf(P, (CopyOp)r.below(3));
    else if (d < 88) {
        Shape s;
        gen_shape(r, s, 24);
        BV W;
        make_view(r, s, W);
        op_copy_view(P, (CopyOp)r.below(4), W, pick_copy_n(P, W.m.size()));
    } else if (d < 90) op_pop(P, r.chance(1, 2));
    else if (!own) op_shrink_less_than(P);
    else if (d < 94) op_truncate(P);
    else if (d < 98) op_extract_iovector(P, r.chance(1, 2));
    else if (d < 104) {
        Shape s;
        gen_shape(r, s, 24);
        Kind wk = r.chance(1, 2) ? K_ENTITY : K_HEAP;
        iovector* W = new_owning(r, wk, -1);
        std::string wm, realized;
        Kind keep = P.S.kind;
        if (!fill_owning(P, W, s, wm, realized)) { P.S.kind = keep; return; }
        op_copy_iovector(P, (CopyOp)r.below(4), W, wm, pick_copy_n(P, wm.size()));
    } else if (d < 107) op_push_buf(P, r.chance(1, 2));
    else if (d < 110) op_push_alloc(P, r.chance(1, 2));
    else op_pop(P, r.chance(1, 2));
    ++P.ops;
    c_ops.add();
    vh::event();
}
static void finish_input(Prog& P) {
    bool nontrivial = P.flags & (F_BOUNDARY | F_STRADDLE | F_EMPTYOP);
    vh::note_input(P.h, nontrivial);
    if (nontrivial && (P.h & 0x3ff) == 0)
        vh::sample(vh::JObj().kv("subject", kname[P.S.kind]).kv("initial_element_lengths", P.init).kv("operations", P.trace).str());
}
static void run_program(vh::Rng& r) {
    Prog P(r);
    uint64_t d = r.below(10);
    new_subject(P, d < 5 ? K_VIEW : d < 8 ? K_ENTITY : K_HEAP);
    if (!P.dead) {
        snapshot(P);
        if (check_state(P, "construct")) {
            int nops = 1 + (int)r.below(24);
            for (int i = 0; i < nops && !P.dead; ++i) one_op(P);
        }
    }
    finish_input(P);
    c_progs.add();
    cleanup();
}

// ------------------------------------------------------------------ the empty-operand matrix
static void run_matrix(vh::Rng& r) {
    static const size_t ns[] = {0, 7, SIZE_MAX};
    Shape empty{0, {}}, s;
    for (Empt E : {E_NULL, E_PASTEND, E_INBOUNDS}) {
        for (int c = 0; c < 4; ++c)
            for (int combo = 0; combo < 4; ++combo)
                for (size_t n : ns) {
                    Prog P(r);
                    P.matrix = true;
                    do gen_shape(r, s, 6); while (s.cnt == 0);
                    BV sv, W;
                    if (combo <= 1) { make_view(r, empty, sv, E); P.S.kind = K_VIEW; P.S.v = sv.v; P.init = "[]"; }
                    else if (combo == 2) { make_view(r, s, sv); P.S.kind = K_VIEW; P.S.v = sv.v; P.S.m = sv.m; P.init = shape_text(s); }
                    else {
                        P.S.kind = K_ENTITY;
                        P.S.o = new_owning(r, K_ENTITY, -1);
                        std::string realized;
                        fill_owning(P, P.S.o, s, P.S.m, realized);
                        P.init = realized;
                    }
                    if (combo == 0) make_view(r, s, W); else make_view(r, empty, W, E);
                    P.h = vh::mix(0x4d415452, vh::mix(E * 64 + c * 16 + combo, n));
                    snapshot(P);
                    if (!P.dead) op_copy_view(P, (CopyOp)c, W, n);
                    c_ops.add(); vh::event();
                    vh::note_input(P.h, true);
                    c_matrix.add();
                    cleanup();
                }
        for (int c = 0; c < 3; ++c)
            for (size_t n : {(size_t)0, (size_t)7}) {
                Prog P(r);
                P.matrix = true;
                BV sv;
                make_view(r, empty, sv, E);
                P.S.kind = K_VIEW; P.S.v = sv.v; P.init = "[]";
                P.h = vh::mix(0x4d415453, vh::mix(E * 64 + c, n));
                snapshot(P);
                op_copy_buf(P, (CopyOp)c, n);
                c_ops.add(); vh::event();
                vh::note_input(P.h, true);
                c_matrix.add();
                cleanup();
            }
    }
}

int main(int argc, char** argv) {
    vh::init(argc, argv);
    auto& A = vh::args();
    vh::Rng rng(vh::mix(A.xseed(), vh::hash_bytes(VH_FLAVOR, strlen(VH_FLAVOR))));
    g_rng = &rng;
    const bool th = A.thorough();
    const uint64_t nprog = A.geti("progs", th ? 300000 : 25000);
    g_probe_budget = A.geti("probes", 400);
    vh::config("programs", (int64_t)nprog);
    vh::config("probe_budget", (int64_t)g_probe_budget);
    if (A.geti("matrix", 1)) run_matrix(rng);
    vh::progress();
    for (uint64_t i = 0; i < nprog; ++i) {
        run_program(rng);
        if ((i & 0x3ff) == 0) vh::progress();
    }
    return vh::finish();
}
