// C05 - thread lifecycle: each created thread runs exactly once, on one vCPU at a time, is not lost or duplicated by
// migration / cross-vCPU wake-up / work stealing; join returns once, after the entry returned, with its value; stacks are
// released exactly once and not before the thread finished (joinable: not before join was called); vCPU thread counts return.
#include "vh.h"
#include <photon/thread/thread-pool.h>
#include <photon/thread/stack-allocator.h>
#include <photon/thread/go.h>
#include <photon/common/timeout.h>

using namespace photon;

static vh::NamedCounter c_created("threads_created"), c_joined("joins"), c_migr_self("self_migrations"), c_migr_other("other_migrations"),
    c_pool_tasks("pool_tasks"), c_intr("interrupts_sent"), c_ran_elsewhere("slices_on_another_vcpu_than_creator"),
    c_stack_alloc("stack_allocs"), c_stack_free("stack_frees"), c_pause_ws("pause_work_stealing_sections"),
    c_join_other_vcpu("joins_from_another_vcpu"), c_steps("steps");

constexpr int MAXR = 1 << 15;
struct Rec {
    std::atomic<int> runs{0}, done{0}, active{0}, join_called{0}, joined{0}, deallocs{0};
    std::atomic<thread*> th{nullptr};
    std::atomic<void*> stack{nullptr};
    bool joinable = false, pooled = false;
    int depth = 0, creator_vcpu = 0;
    uint64_t seed = 0;
    join_handle* jh = nullptr;
    TPControl* pctl = nullptr;
};
static Rec g_rec[MAXR];
static std::atomic<int> g_nrec{0}, g_done_total{0}, g_mains_done{0};
static vh::VCpus g_vc;
static int g_nv = 1;
static int g_max_depth = 3;
static uint64_t g_steps = 0;
static bool g_any_ws = false;
static uint64_t g_base[8];
static thread_local Rec* tl_creating = nullptr;     // per OS thread: creation never yields
static thread_local int tl_vcpu = -1;
static ThreadPoolBase* g_pool[8] = {nullptr};

// ------------------------------------------------------------------ recording stack allocator
static int g_alloc_mode = 0;    // 0 default, 1 pooled, 2 global pooled
constexpr size_t TBL = 1 << 16;
struct Slot { std::atomic<uint64_t> key{0}; std::atomic<int> rec{-1}; std::atomic<int> live{0}; };
static Slot g_tbl[TBL];
static std::atomic<int64_t> g_live_stacks{0};
static Slot* tbl_find(void* p, bool insert) {
    uint64_t k = (uint64_t)p;
    size_t h = (k >> 12) * 0x9E3779B97F4A7C15ull >> 48;
    for (size_t i = 0; i < TBL; ++i) {
        auto& s = g_tbl[(h + i) & (TBL - 1)];
        uint64_t cur = s.key.load(vh::MO);
        if (cur == k) return &s;
        if (cur == 0) {
            if (!insert) return nullptr;
            uint64_t exp = 0;
            if (s.key.compare_exchange_strong(exp, k, vh::MO)) return &s;
            if (exp == k) return &s;
        }
    }
    return nullptr;
}
struct RecordingAllocator {
    void* alloc(size_t size) {
        void* p = g_alloc_mode == 0 ? default_photon_thread_stack_alloc(nullptr, size)
                : g_alloc_mode == 1 ? pooled_stack_alloc(nullptr, size) : global_pooled_stack_alloc(nullptr, size);
        if (!p) return p;
        c_stack_alloc.add();
        auto s = tbl_find(p, true);
        if (!s) vh::machinery_failure("stack table full");
        if (s->live.exchange(1, vh::MO) != 0)
            vh::violation("stack/allocated-twice", "the stack allocator handed out a block that is still in use", "null");
        Rec* r = tl_creating;
        s->rec.store(r ? (int)(r - g_rec) : -1, vh::MO);
        if (r) r->stack.store(p, vh::MO);
        g_live_stacks.fetch_add(1, vh::MO);
        return p;
    }
    void dealloc(void* p, size_t size) {
        c_stack_free.add();
        auto s = tbl_find(p, false);
        if (!s || s->live.exchange(0, vh::MO) != 1)
            vh::violation("stack/double-or-unknown-free", "a thread stack was released twice (or was never allocated)", "null");
        else {
            g_live_stacks.fetch_sub(1, vh::MO);
            int ri = s->rec.load(vh::MO);
            if (ri >= 0) {
                Rec& r = g_rec[ri];
                if (!r.done.load(vh::MO))
                    vh::violation("stack/freed-before-thread-finished", "a thread's stack was released before its entry function returned",
                                  vh::JObj().kv("joinable", r.joinable).str());
                else if (r.joinable && !r.join_called.load(vh::MO))
                    vh::violation("stack/freed-before-join", "a joinable thread's stack was released before thread_join() was called", "null");
                if (r.deallocs.fetch_add(1, vh::MO) != 0)
                    vh::violation("stack/released-twice", "the stack of one thread was released twice", "null");
            }
        }
        if (g_alloc_mode == 0) default_photon_thread_stack_dealloc(nullptr, p, size);
        else if (g_alloc_mode == 1) pooled_stack_dealloc(nullptr, p, size);
        else global_pooled_stack_dealloc(nullptr, p, size);
    }
    size_t trim(size_t) { return 0; }
    StackPoolStats stats() { return {}; }
};
static RecordingAllocator g_ra;

// ------------------------------------------------------------------ slices
static void slice_enter(Rec& r, const char* after) {
    if (r.active.exchange(1, vh::MO) != 0)
        vh::violation("run/two-vcpus-at-once", "a thread resumed while another vCPU was still executing it", vh::JObj().kv("after", after).str());
    if (r.th.load(vh::MO) != CURRENT)
        vh::violation("run/identity-changed", "photon::CURRENT differs from the thread this entry function was started on", vh::JObj().kv("after", after).str());
    if (tl_vcpu >= 0 && tl_vcpu != r.creator_vcpu) c_ran_elsewhere.add();
}
static void slice_leave(Rec& r) { r.active.store(0, vh::MO); }
#define BLOCKING(r, what, stmt) do { slice_leave(r); stmt; slice_enter(r, what); } while (0)

// the in-library walker of the sleep heaps (structural mode): a thread registered in a vCPU's sleep heap must belong to
// that vCPU - a stealer / migration that moves a thread which is still registered leaves it in two places
static void sleepq_event(uint32_t id, uint64_t a, uint64_t b) {
    if (id != photon::verif::E_SLEEPQ_BAD) return;
    int kind = a & 0xff;
    const char* k = kind == 1 ? "sleepq/back-index-wrong" : kind == 2 ? "sleepq/heap-order-broken"
                  : kind == 5 ? "sleepq/thread-of-another-vcpu-registered" : "sleepq/other";
    vh::violation(k, "sleep-heap invariant violated (walker inside the scheduler): a thread that was moved to another vCPU is still "
                     "registered in the sleep heap of its previous one", vh::JObj().kv("kind", kind).kv("index", b).str());
}

static void* body(void* arg);
static void* ret_of(Rec& r) { return (void*)(uintptr_t)(0x1000 + (&r - g_rec)); }

static Rec* new_rec(vh::Rng& rng, int depth) {
    if (g_nrec.load(vh::MO) >= MAXR - 64) return nullptr;
    int i = g_nrec.fetch_add(1, vh::MO);
    if (i >= MAXR) vh::machinery_failure("record table overflow");
    Rec& r = g_rec[i];
    r.depth = depth;
    r.seed = rng.next();
    r.creator_vcpu = tl_vcpu;
    return &r;
}
// create a child thread by one of the creation paths; returns its record (already running or READY)
static Rec* spawn(vh::Rng& rng, int depth) {
    Rec* c = new_rec(rng, depth);
    if (!c) return nullptr;
    int how = rng.below(10);
    uint64_t flags = rng.chance(2, 3) ? THREAD_ENABLE_WORK_STEALING : 0;
    c->joinable = rng.chance(2, 3);
    c_created.add();
    tl_creating = c;
    thread* th;
    if (how < 5) th = thread_create(body, c, 64 * 1024, 0, flags | (c->joinable ? THREAD_JOINABLE : 0));
    else if (how < 8) { th = thread_create11(64 * 1024, [c] { body(c); }); if (c->joinable) thread_enable_join(th); }
    else { th = go(64 * 1024, [c] { body(c); }); if (c->joinable) thread_enable_join(th); }
    tl_creating = nullptr;
    if (!th) vh::machinery_failure("thread_create failed");
    if (how >= 5) c->seed |= 1ull << 63;              // thread11/go entry: return value is not ours
    c->jh = c->joinable ? (join_handle*)th : nullptr;
    // migrate the READY child right away, sometimes
    if (g_nv > 1 && rng.chance(1, 5)) {
        int tv = rng.below(g_nv);
        if (thread_migrate(th, g_vc.vcpu[tv]) == 0 && tv != tl_vcpu) c_migr_other.add();
    }
    return c;
}
static void join_child(Rec& me, Rec* c) {
    if (!c || !c->joinable) return;
    if (c->join_called.exchange(1, vh::MO) != 0) return;
    void* rv = nullptr;
    if (c->pooled) BLOCKING(me, "pool-join", g_pool[c->creator_vcpu]->join(c->pctl));
    else BLOCKING(me, "join", rv = thread_join(c->jh));
    c_joined.add();
    if (tl_vcpu != c->creator_vcpu) c_join_other_vcpu.add();
    if (!c->done.load(vh::MO))
        vh::violation("join/returned-before-thread-finished", "thread_join() returned although the entry function had not returned yet",
                      vh::JObj().kv("pooled", c->pooled).str());
    if (!c->pooled && !(c->seed >> 63) && rv != ret_of(*c))
        vh::violation("join/wrong-return-value", "thread_join() returned a value different from what the entry function returned", "null");
    if (c->joined.fetch_add(1, vh::MO) != 0)
        vh::violation("join/returned-twice", "two joins returned for one thread", "null");
}

static void* body(void* arg) {
    Rec& r = *(Rec*)arg;
    r.th.store(CURRENT, vh::MO);
    if (r.runs.fetch_add(1, vh::MO) != 0)
        vh::violation("run/entry-ran-twice", "the entry function of one created thread was started twice", "null");
    slice_enter(r, "start");
    vh::Rng rng(r.seed);
    std::vector<Rec*> kids;
    int nsteps = rng.range(2, g_steps);
    for (int s = 0; s < nsteps; ++s) {
        c_steps.add();
        vh::event();
        switch (rng.below(12)) {
        case 0: case 1: case 2: BLOCKING(r, "yield", thread_yield()); break;
        case 3: case 4: BLOCKING(r, "sleep", thread_usleep(rng.range(1, 300))); break;
        case 5:
            if (g_nv > 1 && !r.pooled) {
                int tv = rng.below(g_nv);
                BLOCKING(r, "self-migrate", thread_migrate(CURRENT, g_vc.vcpu[tv]));
                c_migr_self.add();
                if (!g_any_ws && get_vcpu() != g_vc.vcpu[tv])     // with work stealing it may legitimately have moved on
                    vh::violation("migrate/not-on-target-vcpu", "after thread_migrate(CURRENT, v) the thread runs on another vCPU", "null");
            }
            break;
        case 6: {
            SCOPED_PAUSE_WORK_STEALING;
            c_pause_ws.add();
            auto v0 = get_vcpu();
            for (int k = rng.range(1, 4); k > 0; --k) BLOCKING(r, "yield-paused", thread_yield());
            if (get_vcpu() != v0)
                vh::violation("steal/stolen-while-paused", "a thread was moved to another vCPU inside SCOPED_PAUSE_WORK_STEALING", "null");
            break;
        }
        case 7: case 8:
            if (r.depth < g_max_depth && !r.pooled) {
                if (auto c = spawn(rng, r.depth + 1)) kids.push_back(c);
            }
            break;
        case 9:
            if (!kids.empty()) {        // interrupt a joinable child we have not joined yet (its struct is valid until joined)
                auto c = kids[rng.below(kids.size())];
                auto th = c->th.load(vh::MO);
                if (c->joinable && !c->pooled && !c->join_called.load(vh::MO) && th) { thread_interrupt(th, EINTR); c_intr.add(); }
            }
            break;
        default:
            if (!kids.empty()) { auto c = kids.back(); kids.pop_back(); join_child(r, c); }
        }
        vh::progress();
    }
    for (auto c : kids) join_child(r, c);
    slice_leave(r);
    r.done.store(1, vh::MO);
    g_done_total.fetch_add(1, vh::MO);
    return ret_of(r);
}

// One pool-user thread per vCPU: not stealable, never migrates, so the pool is only used from the vCPU that owns it.
// The vCPU main thread interrupts it now and then, also while it is blocked in ThreadPoolBase::join().
struct PoolUser { int v; int tasks; std::atomic<thread*> th{nullptr}; std::atomic<int> finished{0}; };
static void* pool_user(void* arg) {
    auto& pu = *(PoolUser*)arg;
    pu.th.store(CURRENT, vh::MO);
    Rec me;
    me.th.store(CURRENT); me.active.store(1);
    vh::Rng rng(vh::mix(vh::args().xseed(), 900 + pu.v));
    for (int i = 0; i < pu.tasks; ++i) {
        Rec* c = new_rec(rng, g_max_depth);          // depth limit reached: pooled bodies do not spawn
        if (!c) break;
        c->pooled = true;
        c->joinable = rng.chance(2, 3);
        c_created.add(); c_pool_tasks.add();
        c->pctl = g_pool[pu.v]->thread_create_ex(body, c, c->joinable);
        if (rng.chance(1, 2)) BLOCKING(me, "yield", thread_yield());
        join_child(me, c);
        vh::progress();
    }
    pu.finished.store(1, vh::MO);
    return nullptr;
}

static bool on_stuck(std::string& key, std::string& what, std::string& wit) {
    vh::JArr a;
    bool proved = false;
    int n = std::min(g_nrec.load(), MAXR), shown = 0;
    for (int i = 0; i < n; ++i) {
        Rec& r = g_rec[i];
        if (r.done.load()) continue;
        auto th = r.th.load();
        int st = -1;
        // a thread that has not finished is still allocated, so its state can be read
        if (th && !r.pooled) st = (int)thread_stat(th);
        if (shown++ < 20) a.raw(vh::JObj().kv("rec", i).kv("runs", r.runs.load()).kv("pooled", r.pooled).kv("photon_state", st).str());
        if (st == (int)READY || st == (int)STANDBY) {
            proved = true;
            key = "run/runnable-thread-never-scheduled";
            what = "a created thread is runnable (READY/STANDBY) but no vCPU runs it while nothing else makes progress";
        }
    }
    wit = a.str();
    if (!proved) { key = "life-workload"; what = "no progress " + wit; }
    return proved;
}


// ------------------------------------------------------------------ probe: stolen while being switched out
// A context switch marks the outgoing thread READY and releases the run-queue lock before its stack pointer is
// stored. If a stealer may take the thread in that window it resumes it from its previous context: the thread then
// continues from an older suspension point (and two vCPUs use its stack). Threads here suspend at varying stack depth
// and every suspension point knows which suspension (sequence number) it is: coming back from an older one is the
// violation. Fewer threads than vCPUs, so that some idler is always scanning; P_SWITCH_BEFORE_SAVE widens the window.
namespace swprobe {
struct PT { std::atomic<uint64_t> seq{0}; std::atomic<int> active{0}; uint64_t seed = 0; int id = 0; std::atomic<int> done{0}; };
static PT g_pt[16];
static vh::NamedCounter c_susp("probe_suspensions"), c_moved("probe_resumed_on_another_vcpu");
static void stale(PT& t, uint64_t mine, uint64_t now_seq, const char* how) {
    vh::violation("run/resumed-from-stale-context", "a thread came back from a suspension point it had already left (its saved context was "
                  "not the latest one: resumed by another vCPU before the switch away from it had saved it)",
                  vh::JObj().kv("thread", t.id).kv("suspension_returned", mine).kv("latest_suspension", now_seq).kv("how", how).str());
    vh::write_summary();
    _exit(10);          // the stack of this thread is shared with another vCPU by now: nothing more can be trusted
}
__attribute__((noinline)) static void suspend_at(PT& t, vh::Rng& rng, int depth) {
    volatile uint64_t pad[6];
    for (auto& x : pad) x = t.seq.load(vh::MO) ^ depth;
    if (depth > 0) { suspend_at(t, rng, depth - 1); (void)pad[depth % 6]; return; }
    uint64_t mine = t.seq.fetch_add(1, vh::MO) + 1;
    auto v0 = get_vcpu();
    t.active.store(0, vh::MO);
    switch (rng.below(4)) {
    case 0: thread_usleep(rng.range(1, 40)); break;
    default: thread_yield();
    }
    if (t.active.exchange(1, vh::MO) != 0)
        vh::violation("run/two-vcpus-at-once", "a thread resumed while another vCPU was still executing it", vh::JObj().kv("after", "probe-suspend").str());
    uint64_t latest = t.seq.load(vh::MO);
    if (latest != mine) stale(t, mine, latest, "returned");
    if (get_vcpu() != v0) c_moved.add();
    c_susp.add(); vh::event(); vh::progress();
}
static void* body(void* arg) {
    PT& t = *(PT*)arg;
    vh::Rng rng(t.seed);
    t.active.store(1, vh::MO);
    uint64_t n = vh::args().thorough() ? 60000 : 12000;
    if (vh::is_tsan()) n /= 6;
    n = std::max<uint64_t>(500, n / vh::args().shape_div());
    for (uint64_t i = 0; i < n; ++i) suspend_at(t, rng, rng.below(7));
    t.done.store(1, vh::MO);
    return nullptr;
}
static int run(vh::Rng& r) {
    int nv = r.pick({3, 4, 6});
    int nt = std::max(2, nv - (int)r.range(1, 2));
    using namespace photon::verif;
    auto& S = vh::st();
    S.stall_den[P_SWITCH_BEFORE_SAVE] = r.pick({4u, 8u, 32u}); S.stall_max_ns[P_SWITCH_BEFORE_SAVE] = r.pick({5000u, 30000u, 100000u});
    S.stall_den[P_WS_SCAN] = r.pick({0u, 64u, 512u}); S.stall_max_ns[P_WS_SCAN] = 5000;
    S.stall_sleep_den = r.pick({0u, 16u});
    g_hooks.point = &vh::stall_handler;
    vh::config("section", "steal-during-switch-probe"); vh::config("vcpus", nv); vh::config("threads", nt);
    vh::start_supervisor([](std::string& k, std::string& w, std::string&) { k = "life-switch-probe"; w = "probe made no progress"; return false; });
    vh::VCpus vc;
    vc.run(nv, [&](int) { return (uint64_t)(VCPU_ENABLE_ACTIVE_WORK_STEALING | VCPU_ENABLE_PASSIVE_WORK_STEALING); }, [&](int v) {
        if (v != 0) return;
        std::vector<join_handle*> jh;
        for (int i = 0; i < nt; ++i) {
            g_pt[i].id = i; g_pt[i].seed = vh::mix(vh::args().xseed(), 700 + i);
            jh.push_back(thread_enable_join(thread_create(body, &g_pt[i], 256 * 1024, 0, THREAD_ENABLE_WORK_STEALING)));
        }
        for (auto h : jh) thread_join(h);
    });
    for (int i = 0; i < nt; ++i)
        if (!g_pt[i].done.load()) vh::violation("run/thread-lost-or-not-finished", "a probe thread did not finish before its vCPU shut down", "null");
    uint64_t steals = vh::cov(C_STEAL_RUNQ) + vh::cov(C_STEAL_STANDBYQ);
    vh::set_sig("swprobe|v" + std::to_string(nv) + "|" + vh::cov_signature({C_STEAL_RUNQ, C_STEAL_STANDBYQ}), steals > 0);
    vh::sample(vh::JObj().kv("section", "steal-during-switch-probe").kv("vcpus", nv).kv("threads", nt).kv("suspensions", c_susp.get())
                   .kv("steals_runq", vh::cov(C_STEAL_RUNQ)).kv("steals_standbyq", vh::cov(C_STEAL_STANDBYQ)).kv("resumed_on_another_vcpu", c_moved.get())
                   .kv("stalls_fired", (uint64_t)S.stall_fired[P_SWITCH_BEFORE_SAVE].load()).str());
    return vh::finish();
}
}  // namespace swprobe

int main(int argc, char** argv) {
    vh::init(argc, argv);
    vh::Rng r(vh::args().xseed());
    if (vh::args().has("section") ? vh::args().gets("section", "") == "swprobe" : vh::args().exec % 8 == 5) return swprobe::run(r);
    g_nv = vh::args().geti("vcpus", r.pick({1, 2, 3, 4, 6}));
    g_alloc_mode = vh::args().geti("alloc", r.below(3));
    int ws_mode = r.below(4);       // 0 none, 1 all active+passive, 2 random per vCPU, 3 one stealer
    int roots = r.range(4, 24);
    g_steps = vh::args().geti("steps", vh::args().thorough() ? 60 : 30);
    g_max_depth = r.range(1, 3);
    int rounds = vh::args().geti("rounds", vh::args().thorough() ? 12 : 4);
    if (vh::is_tsan()) rounds = std::max(1, rounds / 3);
    rounds = std::max<int>(1, rounds / vh::args().shape_div());
    bool use_pool = r.chance(1, 2);
    std::vector<uint64_t> flags(g_nv, 0);
    for (int i = 0; i < g_nv; ++i) {
        if (ws_mode == 1) flags[i] = VCPU_ENABLE_ACTIVE_WORK_STEALING | VCPU_ENABLE_PASSIVE_WORK_STEALING;
        else if (ws_mode == 2) flags[i] = r.below(4);
        else if (ws_mode == 3) flags[i] = i == 0 ? VCPU_ENABLE_PASSIVE_WORK_STEALING : VCPU_ENABLE_ACTIVE_WORK_STEALING;
    }
    for (auto f : flags) if (f) g_any_ws = true;
    if (g_alloc_mode == 2 && use_global_pooled_stack_allocator() != 0) vh::machinery_failure("global stack pool init failed");
    // the per-vCPU pool gives stacks back to the heap once it holds more than its trim threshold (1 GiB by default,
    // never reached here): a small threshold puts that branch of dealloc on the path of every few thread exits
    uint64_t trim_thr = 0;
    if (g_alloc_mode == 1) { vh::Rng rt(vh::mix(vh::args().xseed(), 911)); if (rt.chance(2, 3)) { trim_thr = rt.pick({2u, 4u, 8u, 32u}) * 64 * 1024; pooled_stack_trim_threshold(trim_thr); } }
    vh::config("pooled_trim_threshold", trim_thr);
    if (set_photon_thread_stack_allocator(g_ra) != 0) vh::machinery_failure("cannot install recording stack allocator");
    using namespace photon::verif;
    g_hooks.tunable[T_SLEEPQ_WALK].store(1);
    g_hooks.event = &sleepq_event;
    vh::arm_stalls(r, {P_WS_SCAN, P_MIGRATE, P_DIE_AFTER_NOTIFY, P_JOIN, P_PRELOCKED_INTERRUPT, P_RESUME_BEFORE_LOCK, P_INTERRUPT_BEFORE_LOCK, P_WAITQ_RESUME, P_SWITCH_BEFORE_SAVE});
    std::string fl;
    for (auto f : flags) fl += std::to_string(f);
    vh::config("vcpus", g_nv); vh::config("alloc", g_alloc_mode == 0 ? "default" : g_alloc_mode == 1 ? "pooled" : "global-pooled");
    vh::config("ws_flags", fl); vh::config("roots", roots); vh::config("rounds", rounds); vh::config("thread_pool", use_pool);
    vh::start_supervisor(on_stuck);

    std::atomic<int> base_ok{0};
    g_vc.run(g_nv, [&](int i) { return flags[i]; }, [&](int v) {
        tl_vcpu = v;
        auto base = g_base[v];
        if (use_pool) g_pool[v] = new_thread_pool(8, 64 * 1024);
        vh::Rng rr(vh::mix(vh::args().xseed(), 50 + v));
        // imbalance: most roots start on vCPU 0, so that the others have a reason to steal
        int my_roots = v == 0 ? roots : roots / 6;
        Rec me;                      // the vCPU main thread acts as the joiner of its roots
        me.th.store(CURRENT); me.active.store(1);
        PoolUser pu{v, use_pool ? (int)rr.range(20, 100) * rounds : 0};
        join_handle* puh = nullptr;
        if (use_pool) puh = thread_enable_join(thread_create(pool_user, &pu, 128 * 1024));
        for (int round = 0; round < rounds; ++round) {
            std::vector<Rec*> rs;
            for (int i = 0; i < my_roots; ++i) {
                Rec* c = new_rec(rr, 0);
                if (!c) break;
                c->joinable = true;
                c_created.add();
                tl_creating = c;
                auto th = thread_create(body, c, 64 * 1024, 0, THREAD_JOINABLE | (rr.chance(2, 3) ? THREAD_ENABLE_WORK_STEALING : 0));
                tl_creating = nullptr;
                c->jh = (join_handle*)th;
                rs.push_back(c);
            }
            for (auto c : rs) {
                if (puh && !pu.finished.load(vh::MO) && rr.chance(1, 3)) { if (auto t = pu.th.load(vh::MO)) { thread_interrupt(t, EINTR); c_intr.add(); } }
                join_child(me, c);
            }
        }
        if (puh) {
            while (!pu.finished.load(vh::MO)) { if (auto t = pu.th.load(vh::MO)) { thread_interrupt(t, EINTR); c_intr.add(); } thread_usleep(rr.range(50, 2000)); }
            thread_join(puh);
        }
        // wait until every thread this process created has finished (non-joinable ones included)
        g_mains_done.fetch_add(1, vh::MO);
        // (liveness of the created threads themselves is watched through their own progress ticks)
        while (g_mains_done.load(vh::MO) < g_nv || g_done_total.load(vh::MO) < g_nrec.load(vh::MO)) thread_usleep(300);
        if (g_pool[v]) { delete_thread_pool(g_pool[v]); g_pool[v] = nullptr; }
        // threads that set `done` may still be on their way out: give them scheduling rounds, never a tight deadline
        uint64_t now_n = 0;
        for (int i = 0; i < 5000 && (now_n = get_info(INFO_THREAD_NUM)) != base; ++i) { thread_usleep(1000); vh::progress(); }
        if (now_n != base)
            vh::violation("count/vcpu-thread-count-not-restored", "INFO_THREAD_NUM of a vCPU did not return to its initial value after all created threads finished",
                          vh::JObj().kv("initial", base).kv("now", now_n).kv("vcpu", v).str());
    }, [&](int v) { g_base[v] = get_info(INFO_THREAD_NUM); }, nullptr);

    // all vCPUs are gone: every thread must have run once and finished, every direct stack released once
    int n = std::min(g_nrec.load(), MAXR);
    int lost = 0, twice = 0, unreleased = 0;
    for (int i = 0; i < n; ++i) {
        Rec& rc = g_rec[i];
        if (rc.runs.load() != 1 || !rc.done.load()) lost++;
        if (!rc.pooled && rc.deallocs.load() != 1) unreleased++;
    }
    if (lost)
        vh::violation("run/thread-lost-or-not-finished", "a created thread never ran, or did not finish before its vCPU shut down", vh::JObj().kv("count", lost).kv("created", n).str());
    if (unreleased)
        vh::violation("stack/not-released-exactly-once", "the stack of a finished thread was not released exactly once", vh::JObj().kv("count", unreleased).kv("created", n).str());
    uint64_t steals = vh::cov(C_STEAL_RUNQ) + vh::cov(C_STEAL_STANDBYQ);
    bool nontrivial = n > 10 && c_joined.get() > 0 && (g_nv == 1 || c_migr_self.get() + c_migr_other.get() + steals > 0);
    vh::set_sig("v" + std::to_string(g_nv) + "|a" + std::to_string(g_alloc_mode) + "|ws" + fl + "|p" + std::to_string(use_pool) + "|" +
                    vh::cov_signature({C_STEAL_RUNQ, C_STEAL_STANDBYQ, C_MIGRATE, C_JOIN_WAITED, C_CROSS_VCPU_WAKE, C_RESUME_FOUND_STANDBY}),
                nontrivial);
    vh::sample(vh::JObj().kv("vcpus", g_nv).kv("alloc", g_alloc_mode).kv("ws_flags", fl).kv("threads", n).kv("joins", c_joined.get())
                   .kv("self_migrations", c_migr_self.get()).kv("steals_runq", vh::cov(C_STEAL_RUNQ)).kv("steals_standbyq", vh::cov(C_STEAL_STANDBYQ))
                   .kv("pool_tasks", c_pool_tasks.get()).kv("slices_on_other_vcpu", c_ran_elsewhere.get()).str());
    return vh::finish();
}
