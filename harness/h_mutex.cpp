// C01 - mutex / recursive_mutex / spinlock / ticket_spinlock / qspinlock
// Oracles (DESIGN.md 3, C01): exclusion by conservative occupancy monitor, result <=> ownership,
// errno contract (ETIMEDOUT only after the deadline; otherwise the code of an unconsumed interrupt
// sent to this thread), not left stuck (supervisor + quiescence), plain payload under sanitizers.
#include "vh.h"
#include <photon/common/timeout.h>
#include <emmintrin.h>

using namespace photon;

static vh::NamedCounter c_lock_ok("lock_ok"), c_lock_timeout("lock_timeout"), c_lock_intr("lock_interrupted"),
    c_try_ok("try_ok"), c_try_fail("try_fail"), c_intr_sent("interrupts_sent"), c_intr_os("interrupts_from_os_thread"),
    c_hold_intr("hold_sleep_interrupted"), c_recursed("recursive_nested"), c_spin_acq("spin_acquired"),
    c_spin_try_fail("spin_try_fail"), c_zero_timeout("lock_zero_timeout"), c_redelivered("interrupt_code_seen_again");

struct XMutex : public photon::mutex {
    using mutex::mutex;
    thread* get_owner() { return owner.load(std::memory_order_relaxed); }
};
struct XRec : public photon::recursive_mutex {
    using recursive_mutex::recursive_mutex;
    thread* get_owner() { return owner.load(std::memory_order_relaxed); }
};

enum Kind { K_MUTEX = 0, K_SEQ, K_CONTEND, K_REC, K_NKIND };
static const char* kind_name[] = {"mutex", "mutex(retries=0)", "mutex(contending)", "recursive_mutex"};

struct LockObj {
    Kind kind;
    XMutex* m = nullptr;
    XRec* r = nullptr;
    std::atomic<void*> holder{nullptr};     // monitor: set after acquire, cleared before release
    int depth = 0;                          // only touched by the holder
    uint64_t payload = 0;                   // plain memory protected by the lock
    std::atomic<uint64_t> acquisitions{0};
    int lock(Timeout t) { return m ? m->lock(t) : r->lock(t); }
    int try_lock() { return m ? m->try_lock() : r->try_lock(); }
    void unlock() { m ? m->unlock() : r->unlock(); }
    thread* owner() { return m ? m->get_owner() : r->get_owner(); }
    bool locked() { return owner() != nullptr; }
};

constexpr int MAXT = 64;
constexpr int MAXCODES = 1 << 14;
constexpr int CODE_BASE = 100000;

struct Worker {
    int id = 0, vcpu = 0;
    std::atomic<thread*> th{nullptr};
    std::atomic<int> blocked_on{-1};        // lock index while inside an untimed lock()
    std::atomic<bool> done{false};
    std::atomic<uint8_t>* codes = nullptr;  // 0 none, 1 sent, 2 consumed
    std::atomic<int> next_code{0};
    uint64_t ops = 0;
};

static std::vector<LockObj*> g_locks;
static Worker g_workers[MAXT];
static int g_nworkers = 0;
static std::atomic<int> g_workers_done{0};
static std::atomic<bool> g_interrupters_stop{false};
static std::atomic<int> g_interrupters_running{0};
static uint64_t g_ops_per_thread = 0;

static int code_of(int wid, int k) { return CODE_BASE + wid * MAXCODES + k; }

// an error return carrying `e` must match an interrupt sent to this worker and not yet consumed
static void check_interrupt_errno(Worker& w, int e, const char* where) {
    int k = e - code_of(w.id, 0);
    if (e < CODE_BASE || k < 0 || k >= MAXCODES) {
        vh::violation(std::string("errno/unexplained:") + where, "a blocking call failed with an errno that is neither ETIMEDOUT nor an interrupt code sent to this thread",
                      vh::JObj().kv("errno", e).kv("worker", w.id).str());
        return;
    }
    uint8_t s = w.codes[k].load(vh::MO);
    if (s == 2) {
        // the same interrupt reported by a second call: that is the business of C04 (h_sleep), which
        // decides the interrupt contract; here it is only counted
        c_redelivered.add();
        return;
    }
    if (s != 1) {
        vh::violation(std::string("interrupt/never-sent:") + where, "an interrupt code was reported before it was sent",
                      vh::JObj().kv("errno", e).kv("worker", w.id).kv("state", (int)s).str());
        return;
    }
    w.codes[k].store(2, vh::MO);
}

static void hold(vh::Rng& r, Worker& w) {
    switch (r.below(4)) {
    case 0: break;
    case 1: {
        int e = thread_yield();
        if (e) check_interrupt_errno(w, e, "yield-in-hold");
        break;
    }
    default: {
        int ret = thread_usleep(r.range(1, 50));
        if (ret < 0) { c_hold_intr.add(); check_interrupt_errno(w, errno, "sleep-in-hold"); }
    }
    }
}

static void enter(LockObj& L, Worker& w, int li, const char* how) {
    auto me = (void*)CURRENT;
    if (L.owner() != CURRENT)
        vh::violation(std::string("ownership/success-without-owner:") + kind_name[L.kind],
                      "lock returned 0 but the mutex owner is not the caller",
                      vh::JObj().kv("how", how).kv("lock", li).kv("worker", w.id).str());
    void* prev = L.holder.exchange(me, vh::MO);
    if (L.kind == K_REC && prev == me) {
        L.depth++;
    } else {
        if (prev != nullptr)
            vh::violation(std::string("exclusion/two-holders:") + kind_name[L.kind],
                          "a thread acquired the mutex while another one was inside the critical section",
                          vh::JObj().kv("how", how).kv("lock", li).kv("worker", w.id).str());
        L.depth = 1;
    }
    L.payload++;
    L.acquisitions.fetch_add(1, vh::MO);
}
static void leave(LockObj& L) {
    if (--L.depth == 0) L.holder.store(nullptr, vh::MO);
    L.unlock();
}

static void failed(LockObj& L, Worker& w, int li, int e, bool timed, Timeout tmo, const char* how, bool held_before) {
    if (!held_before && L.owner() == CURRENT)
        vh::violation(std::string("ownership/failure-but-owner:") + kind_name[L.kind],
                      "lock failed but the caller is recorded as the owner",
                      vh::JObj().kv("how", how).kv("lock", li).kv("errno", e).str());
    if (!strcmp(how, "try_lock")) return;
    if (e == ETIMEDOUT) {
        c_lock_timeout.add();
        auto nowrt = vh::boottime_us();
        if (!timed)
            vh::violation(std::string("timeout/untimed-lock-timed-out:") + kind_name[L.kind], "lock() without timeout returned ETIMEDOUT", "null");
        else if (tmo.expiration() != 0 && nowrt < tmo.expiration())
            vh::violation(std::string("timeout/early:") + kind_name[L.kind], "ETIMEDOUT before the deadline",
                          vh::JObj().kv("expiration", tmo.expiration()).kv("clock", nowrt).str());
    } else {
        c_lock_intr.add();
        check_interrupt_errno(w, e, "lock");
    }
}

static void* worker_main(void* arg) {
    auto& w = *(Worker*)arg;
    w.th.store(CURRENT, std::memory_order_release);
    vh::Rng r(vh::mix(vh::args().xseed(), 7000 + w.id));
    for (uint64_t op = 0; op < g_ops_per_thread; ++op) {
        int li = r.below(g_locks.size());
        auto& L = *g_locks[li];
        int how = r.below(10);
        vh::event();
        if (how < 3) {                      // untimed lock
            w.blocked_on.store(li, vh::MO);
            int ret = L.lock(Timeout());
            int e = errno;
            w.blocked_on.store(-1, vh::MO);
            if (ret == 0) { c_lock_ok.add(); enter(L, w, li, "lock"); }
            else { failed(L, w, li, e, false, Timeout(), "lock", false); vh::progress(); continue; }
        } else if (how < 7) {               // timed lock
            uint64_t us = r.pick<uint64_t>({0, 0, 1, r.range(10, 500), r.range(10, 500), r.range(1000, 3000)});
            Timeout t(us);
            if (us == 0) c_zero_timeout.add();
            int ret = L.lock(t);
            int e = errno;
            if (ret == 0) { c_lock_ok.add(); enter(L, w, li, "timed-lock"); }
            else { failed(L, w, li, e, true, t, "timed-lock", false); vh::progress(); continue; }
        } else {
            int ret = L.try_lock();
            if (ret == 0) { c_try_ok.add(); enter(L, w, li, "try_lock"); }
            else { c_try_fail.add(); failed(L, w, li, 0, false, Timeout(), "try_lock", false); vh::progress(); continue; }
        }
        // inside
        hold(r, w);
        if (L.kind == K_REC && r.chance(1, 3)) {
            // nested acquisition by the owner must succeed at once, whatever the method
            int ret = r.chance(1, 2) ? L.lock(Timeout(r.below(3))) : L.try_lock();
            if (ret != 0)
                vh::violation("recursive/nested-lock-failed", "the owner of a recursive_mutex could not lock it again", "null");
            else { c_recursed.add(); enter(L, w, li, "nested"); hold(r, w); leave(L); }
        }
        if (L.holder.load(vh::MO) != (void*)CURRENT)
            vh::violation(std::string("exclusion/holder-changed:") + kind_name[L.kind],
                          "the monitor's holder changed while this thread was inside", vh::JObj().kv("lock", li).str());
        leave(L);
        vh::progress();
        if (r.chance(1, 8)) thread_yield();
    }
    w.done.store(true, std::memory_order_release);
    g_workers_done.fetch_add(1, std::memory_order_acq_rel);
    // stay alive while interrupters may still target this thread
    while (g_interrupters_running.load(std::memory_order_acquire) > 0 || !g_interrupters_stop.load(std::memory_order_acquire)) {
        int ret = thread_usleep(300);
        if (ret < 0) check_interrupt_errno(w, errno, "final-sleep");
    }
    return nullptr;
}

static void interrupt_one(vh::Rng& r, bool from_os) {
    auto& w = g_workers[r.below(g_nworkers)];
    auto th = w.th.load(std::memory_order_acquire);
    if (!th) return;
    int k = w.next_code.fetch_add(1, vh::MO);
    if (k >= MAXCODES) return;
    w.codes[k].store(1, vh::MO);            // recorded as sent before the call
    c_intr_sent.add();
    if (from_os) c_intr_os.add();
    thread_interrupt(th, code_of(w.id, k));
}

static void* interrupter_main(void* arg) {
    vh::Rng r(vh::mix(vh::args().xseed(), 9000 + (uint64_t)arg));
    uint64_t gap = r.pick<uint64_t>({20, 100, 400});
    while (g_workers_done.load(std::memory_order_acquire) < g_nworkers) {
        interrupt_one(r, false);
        thread_usleep(r.range(1, gap));
    }
    g_interrupters_running.fetch_sub(1, std::memory_order_acq_rel);
    return nullptr;
}

static bool on_stuck(std::string& key, std::string& what, std::string& wit) {
    // wake condition: nobody is inside lock l (monitor) and a thread is blocked in an untimed lock(l)
    vh::JArr blocked;
    bool proved = false;
    for (int i = 0; i < g_nworkers; ++i) {
        int li = g_workers[i].blocked_on.load();
        if (li < 0) continue;
        auto& L = *g_locks[li];
        auto h = L.holder.load();
        auto o = L.owner();
        blocked.raw(vh::JObj().kv("worker", i).kv("lock", li).kv("kind", kind_name[L.kind])
                        .kv("monitor_holder", (uint64_t)h).kv("owner", (uint64_t)o).str());
        if (h == nullptr) {
            proved = true;
            key = std::string(o ? "stuck/owner-set-nobody-inside:" : "stuck/lost-wakeup:") + kind_name[L.kind];
            what = "a thread stays blocked in lock() although no thread is inside the critical section";
        }
    }
    wit = blocked.str();
    if (!proved) { key = "mutex-workload"; what = "no worker progress; blocked=" + wit; }
    return proved;
}

static int run_mutex_section() {
    vh::Rng r(vh::args().xseed());
    int nv = vh::args().geti("vcpus", r.pick({1, 2, 2, 3, 4, 6}));
    int tpv = vh::args().geti("threads", r.range(2, 8));
    if (nv * tpv > MAXT - 8) tpv = (MAXT - 8) / nv;
    int nlocks = r.range(1, 3);
    bool with_intr = r.chance(3, 4);
    bool os_intr = with_intr && r.chance(1, 2);
    g_ops_per_thread = vh::args().geti("ops", vh::args().thorough() ? 20000 : 4000);
    if (vh::is_tsan()) g_ops_per_thread /= 4;
    g_ops_per_thread /= vh::args().shape_div();
    std::string kinds;
    for (int i = 0; i < nlocks; ++i) {
        auto L = new LockObj;
        L->kind = (Kind)r.below(K_NKIND);
        switch (L->kind) {
        case K_MUTEX: L->m = new XMutex(r.pick({100, 100, 3, 1})); break;
        case K_SEQ: L->m = new XMutex(0); break;
        case K_CONTEND: L->m = new XMutex(r.pick({0, 2, 100}), true); break;
        default: L->r = new XRec(r.pick({0, 100})); break;
        }
        g_locks.push_back(L);
        kinds += std::string(kind_name[L->kind]) + ";";
    }
    g_nworkers = nv * tpv;
    for (int i = 0; i < g_nworkers; ++i) {
        g_workers[i].id = i;
        g_workers[i].vcpu = i % nv;
        g_workers[i].codes = new std::atomic<uint8_t>[MAXCODES];
        for (int k = 0; k < MAXCODES; ++k) g_workers[i].codes[k].store(0);
    }
    vh::config("section", "mutex");
    vh::config("vcpus", nv); vh::config("threads_per_vcpu", tpv); vh::config("locks", kinds);
    vh::config("interrupters", with_intr ? (os_intr ? "photon+os" : "photon") : "none");
    vh::config("ops_per_thread", g_ops_per_thread);
    using namespace photon::verif;
    vh::arm_stalls(r, {P_MUTEX_LOCK_AFTER_WAKE, P_MUTEX_UNLOCK, P_INTERRUPT_BEFORE_LOCK, P_RESUME_BEFORE_LOCK,
                       P_PRELOCKED_INTERRUPT, P_WAITQ_RESUME});
    vh::start_supervisor(on_stuck);

    int n_intr = with_intr ? nv : 0;
    g_interrupters_running.store(n_intr);
    std::thread os_thread;
    std::atomic<bool> os_stop{false};
    if (os_intr) {
        os_thread = std::thread([&] {
            vh::Rng rr(vh::mix(vh::args().xseed(), 4242));
            while (g_workers_done.load(std::memory_order_acquire) < g_nworkers) {
                interrupt_one(rr, true);
                struct timespec ts = {0, (long)rr.range(1000, 200000)};
                nanosleep(&ts, nullptr);
            }
            os_stop.store(true);
        });
    } else os_stop.store(true);

    vh::VCpus vc;
    vc.run(nv, nullptr, [&](int v) {
        std::vector<join_handle*> jh;
        for (int i = v; i < g_nworkers; i += nv)
            jh.push_back(thread_enable_join(thread_create(worker_main, &g_workers[i], 256 * 1024)));
        join_handle* ih = nullptr;
        if (with_intr) ih = thread_enable_join(thread_create(interrupter_main, (void*)(uint64_t)v, 128 * 1024));
        if (ih) thread_join(ih);
        if (v == 0) {
            while (g_interrupters_running.load(std::memory_order_acquire) > 0 || !os_stop.load()) thread_usleep(200);
            g_interrupters_stop.store(true, std::memory_order_release);
        }
        for (auto h : jh) thread_join(h);
    });
    if (os_thread.joinable()) os_thread.join();

    // quiescence
    for (size_t i = 0; i < g_locks.size(); ++i) {
        auto& L = *g_locks[i];
        if (L.locked())
            vh::violation(std::string("stuck/locked-at-quiescence:") + kind_name[L.kind], "mutex still locked after all threads finished",
                          vh::JObj().kv("lock", (int)i).str());
        if (L.payload != L.acquisitions.load())
            vh::violation(std::string("exclusion/lost-update:") + kind_name[L.kind], "plain counter under the mutex lost updates",
                          vh::JObj().kv("payload", L.payload).kv("acquisitions", L.acquisitions.load()).str());
    }
    uint64_t handoff = vh::cov(C_MUTEX_HANDOFF);
    bool nontrivial = handoff > 0 && (c_lock_timeout.get() + c_lock_intr.get() > 0);
    vh::set_sig("mutex|v" + std::to_string(nv) + "|t" + std::to_string(tpv) + "|" + kinds + "|" +
                    vh::cov_signature({C_MUTEX_HANDOFF, C_MUTEX_TIMEOUT_RET, C_MUTEX_CONTEND_AGAIN, C_INDIRECT_LOCK_RETRY,
                                       C_CROSS_VCPU_WAKE, C_INTERRUPT_POSTLOCK_OUT}) +
                    "intr:" + std::to_string(vh::log2bucket(c_lock_intr.get())),
                nontrivial);
    vh::sample(vh::JObj().kv("section", "mutex").kv("vcpus", nv).kv("threads_per_vcpu", tpv).kv("locks", kinds)
                   .kv("lock_ok", c_lock_ok.get()).kv("timeouts", c_lock_timeout.get()).kv("interrupted", c_lock_intr.get())
                   .kv("handoffs", handoff).str());
    return 0;
}

// ---------------------------------------------------------------- spinlocks between OS threads
template <typename L, bool HAS_TRY>
static void spin_section(const char* name, int nthreads, uint64_t ops, vh::Rng& r0) {
    L lock;
    std::atomic<int> inside{0};
    uint64_t payload = 0;
    std::atomic<uint64_t> acquired{0};
    std::vector<std::thread> ths;
    std::atomic<int> go{0};
    for (int t = 0; t < nthreads; ++t) {
        uint64_t seed = r0.next();
        ths.emplace_back([&, seed] {
            vh::Rng r(seed);
            go.fetch_add(1);
            while (go.load() < nthreads) _mm_pause();
            for (uint64_t i = 0; i < ops; ++i) {
                vh::event();
                if (HAS_TRY && r.chance(1, 4)) {
                    if (lock.try_lock() != 0) { c_spin_try_fail.add(); vh::progress(); continue; }
                } else lock.lock();
                int prev = inside.fetch_add(1, vh::MO);
                if (prev != 0)
                    vh::violation(std::string("exclusion/two-holders:") + name, "two OS threads inside a spinlock-protected region",
                                  vh::JObj().kv("inside_before", prev).str());
                payload++;
                if (r.chance(1, 64)) { for (int k = 0; k < 200; ++k) _mm_pause(); }
                if (r.chance(1, 4096)) sched_yield();
                inside.fetch_sub(1, vh::MO);
                acquired.fetch_add(1, vh::MO);
                c_spin_acq.add();
                lock.unlock();
                vh::progress();
            }
        });
    }
    for (auto& t : ths) t.join();
    if (payload != acquired.load())
        vh::violation(std::string("exclusion/lost-update:") + name, "plain counter under the spinlock lost updates",
                      vh::JObj().kv("payload", payload).kv("acquired", acquired.load()).str());
}
struct TicketNoTry : public photon::ticket_spinlock { int try_lock() { return -1; } };

static int run_spin_section() {
    vh::Rng r(vh::args().xseed());
    int nthreads = r.pick({2, 3, 4, 8});
    uint64_t ops = vh::args().geti("ops", vh::args().thorough() ? 80000 : 40000);
    if (vh::is_tsan()) ops /= 4;
    vh::config("section", "spin"); vh::config("os_threads", nthreads); vh::config("ops_per_thread", ops);
    vh::start_supervisor([](std::string& k, std::string& w, std::string&) {
        k = "stuck/spinlock"; w = "OS threads made no progress on a spinlock for the silence window"; return true; }, 20000);
    spin_section<photon::spinlock, true>("spinlock", nthreads, ops, r);
    // queue locks convoy badly when a waiter is preempted: fewer operations
    spin_section<TicketNoTry, false>("ticket_spinlock", nthreads, ops / 16, r);
    spin_section<photon::qspinlock, true>("qspinlock", nthreads, ops / 16, r);
    vh::set_sig("spin|t" + std::to_string(nthreads) + "|tryfail:" + std::to_string(vh::log2bucket(c_spin_try_fail.get())),
                c_spin_acq.get() > 0 && nthreads >= 2);
    vh::sample(vh::JObj().kv("section", "spin").kv("os_threads", nthreads).kv("acquired", c_spin_acq.get())
                   .kv("try_fail", c_spin_try_fail.get()).str());
    return 0;
}

int main(int argc, char** argv) {
    vh::init(argc, argv);
    bool spin = vh::args().has("section") ? vh::args().gets("section", "") == "spin" : (vh::args().exec % 4 == 3);
    if (spin) run_spin_section(); else run_mutex_section();
    return vh::finish();
}
