// C19 - ObjectCache: one live object per key, never destroyed while borrowed.
//
// All three classes are meant to be shared between vCPUs (common/test/test_objcache.cpp drives ObjectCache
// and ObjectCacheV2 from 10 vCPUs; ObjectCacheBase guards its index with photon::spinlock, a per-item
// photon::mutex and a condition variable, ObjectCacheV2 uses photon::mutex + atomics), so every section runs
// photon threads on 1-4 vCPUs against one cache object created on vCPU 0 (its expiry timer lives there; every
// acquire/release on any vCPU also calls expire()).
//
// Sections (one per execution, by exec index): ptr = ObjectCache<int, Obj*>, list = ObjectCache<int,
// intrusive_list<Obj>>, v2 = ObjectCacheV2<int, Obj*> (borrow only / borrow+recycle+update / a mode that
// widens the window between Box::release() and the rc==0 re-check with long OS-level stalls).
//
// Objects are heap objects (exact size) carrying an id; all bookkeeping lives in a side table indexed by the
// id (relaxed atomics), so it stays readable after the object is gone:
//   holders   harness-side reference count: +1 after an acquire returned the object, -1 before the release
//             is called (a sub-interval of the true holding time)
// Oracles
//   ctor/concurrent-for-key      per key constructing.fetch_add(1)==0 at constructor entry
//   sharing/two-live-objects     per key (object id, holders) word: an acquirer that gets object B while the word
//                                says another thread holds A != B
//   destroy/while-borrowed       ~Obj with holders > 0;   destroy/twice
//   moveout/while-borrowed       release(recycle, !destroy) handed the object out while holders > 0
//   recycle/returned-while-held  a recycling release returned while holders > 0 (":concurrent-recyclers" when
//                                another recycling release of the same object overlapped in time)
//   expire/before-lifespan       expiry destroyed an object earlier than lifespan (minus 1 s slack, only
//                                evaluated in the long-lifespan configurations) after its last release
//   acquire/null-after-successful-ctor, acquire/dead-or-foreign-object
//   cooldown/poisoned-beyond-cooldown   null without calling the constructor although no failure of that key
//                                is pending and the last one is older than cool-down + 1 s
//   stuck/*                      supervisor: recycler blocked with holders==0 / acquirer blocked with no
//                                constructor running and no recycler active for the key
//   ASan/TSan on the object bytes (read while held) and inside the library.
#include "vh.h"
#include <signal.h>
#include <photon/common/expirecontainer.h>
#include <photon/common/objectcachev2.h>

using namespace photon;

static vh::NamedCounter c_acq_ok("acquire_ok"), c_acq_null("acquire_null"), c_ctor("ctor_calls"), c_ctor_fail("ctor_failed"),
    c_ctor_slept("ctor_slept"), c_dtor("destroyed"), c_dtor_expire("destroyed_by_expiry"), c_dtor_recycle("destroyed_by_recycler"),
    c_rel_plain("release_plain"), c_rel_recycle("release_recycle"), c_rel_moveout("release_moveout"), c_moved_out("moved_out_objects"),
    c_recycle_demoted("recycle_overlapped_by_other_recycler"), c_shared("acquired_while_held_by_other"), c_refused("refused_in_cooldown"),
    c_fail_masked("failed_ctor_but_got_peer_object"), c_probe("cooldown_probe_ok"), c_cd_probe("scripted_cooldown_probe_ok"), c_borrow("via_borrow"), c_refacq("via_ref_acquire"),
    c_waited_recycler("recycler_waited_for_holders"), c_update("v2_update"), c_v2_recycle("v2_recycle"), c_longstall("long_stalls"),
    c_reacquired_after_expiry("constructed_again_after_destroy");

constexpr uint32_t MAXOBJ = 1 << 19;
constexpr int MAXKEYS = 64, MAXW = 40;
constexpr uint64_t MAGIC_LIVE = 0x4c4956454f424a21ull, MAGIC_DEAD = 0xdeaddeaddeaddeadull;
constexpr uint64_t SLACK_US = 1000 * 1000;      // slack for the coarse photon::now (see DESIGN 2.4)

struct ObjInfo {
    std::atomic<int> holders{0};
    std::atomic<int> state{0};                  // 0 none, 1 live, 2 destroyed
    std::atomic<int> recycle_expected{0};       // a recycling release of this object was issued
    std::atomic<uint64_t> rec_word{0};           // (recycling releases started << 32) | recycling releases in progress: one RMW per transition
    std::atomic<int> moved{0};                  // handed out to the harness by a move-out release
    std::atomic<uint64_t> max_release_now{0};   // photon::now read before the latest release
    std::atomic<int> key{0};
};
static ObjInfo* g_info;
static std::atomic<uint32_t> g_next_id{1};

struct KeyState {
    std::atomic<int> constructing{0};
    std::atomic<uint64_t> cur{0};               // (object id << 16) | harness-side holders of that object
    std::atomic<uint64_t> fail_seq{0};
    std::atomic<int> fail_pending{0};
    std::atomic<uint64_t> last_fail_upper{0};   // boottime read after the latest failed acquire returned
    std::atomic<int> recyclers{0};
    std::atomic<uint32_t> destroyed_seen{0};
};
static KeyState g_key[MAXKEYS];

static std::string g_section;
static std::atomic<bool> g_teardown{false};
static uint64_t g_lifespan = 0, g_cooldown = 0, g_num_limit = -1ULL;
static bool g_lifespan_oracle = false, g_share_oracle = true;
static int g_nkeys = 1;
static uint64_t g_ops = 0;
static int g_fail_den = 0;                      // a constructor fails with probability 1/g_fail_den (0 = never)

struct Obj : public intrusive_list_node<Obj> {
    uint64_t magic;
    uint32_t id;
    int32_t key;
    uint64_t body[3];
    Obj(uint32_t id_, int key_) : magic(MAGIC_LIVE), id(id_), key(key_) {
        body[0] = id_; body[1] = ~(uint64_t)id_; body[2] = key_;
    }
    ~Obj() {
        auto& I = g_info[id];
        c_dtor.add();
        int st = I.state.exchange(2, vh::MO);
        if (st != 1)
            vh::violation("destroy/twice:" + g_section, "an object was destroyed twice", vh::JObj().kv("id", id).kv("key", key).str());
        int h = I.holders.load(vh::MO);
        if (h > 0)
            vh::violation("destroy/while-borrowed:" + g_section, "an object was destroyed while an acquirer still holds a reference",
                          vh::JObj().kv("id", id).kv("key", key).kv("holders", h).kv("teardown", g_teardown.load()).str());
        bool by_recycler = I.recycle_expected.load(vh::MO) > 0, moved = I.moved.load(vh::MO);
        if (by_recycler) c_dtor_recycle.add();
        else if (!moved && !g_teardown.load(vh::MO)) {
            c_dtor_expire.add();
            if (g_lifespan_oracle) {
                uint64_t rel = I.max_release_now.load(vh::MO), n = photon::now;
                if (rel != 0 && n + SLACK_US < rel + g_lifespan)
                    vh::violation("expire/before-lifespan:" + g_section, "expiry destroyed an object whose lifespan had not passed since its last release",
                                  vh::JObj().kv("id", id).kv("key", key).kv("now", n).kv("last_release_now", rel).kv("lifespan_us", g_lifespan).str());
            }
        }
        if (key >= 0 && key < MAXKEYS) g_key[key].destroyed_seen.fetch_add(1, vh::MO);
        magic = MAGIC_DEAD;
    }
};

struct Plan { bool fail = false; int sleep_mode = 0; uint64_t sleep_us = 0; };

struct Worker {
    int id = 0;
    std::atomic<int> blk_kind{0};               // 1 acquire, 2 recycling release
    std::atomic<int> blk_key{0};
    std::atomic<uint32_t> blk_obj{0};
    bool ctor_called = false, ctor_failed = false, ctor_tracked = false;
    uint64_t lifetime_dtor_seen = 0;
};
static Worker g_w[MAXW];

static void atomic_max(std::atomic<uint64_t>& a, uint64_t v) {
    uint64_t c = a.load(vh::MO);
    while (c < v && !a.compare_exchange_weak(c, v, vh::MO)) {}
}

// the constructor body shared by all sections (runs inside the library's callback)
static Obj* construct(Worker& w, int k, const Plan& pl, bool counted = true) {
    auto& K = g_key[k];
    w.ctor_called = true;
    c_ctor.add();
    if (counted && K.constructing.fetch_add(1, vh::MO) != 0)
        vh::violation("ctor/concurrent-for-key:" + g_section, "two constructors ran at the same time for one key", vh::JObj().kv("key", k).kv("worker", w.id).str());
    // the cool-down reference: a failed construction; in ObjectCacheV2 any construction (Box::lastcreate is set by
    // successful ones and by update() as well, and a concurrent recycle can leave the box empty with that timestamp)
    if (pl.fail || g_section == "v2") { K.fail_pending.fetch_add(1, vh::MO); K.fail_seq.fetch_add(1, vh::MO); w.ctor_tracked = true; }
    if (pl.fail) w.ctor_failed = true;
    if (pl.sleep_mode == 1) thread_yield();
    else if (pl.sleep_mode == 2) { c_ctor_slept.add(); thread_usleep(pl.sleep_us); }
    Obj* o = nullptr;
    if (!pl.fail) {
        uint32_t id = g_next_id.fetch_add(1, vh::MO);
        if (id >= MAXOBJ) vh::machinery_failure("object table exhausted");
        g_info[id].key.store(k, vh::MO);
        g_info[id].state.store(1, vh::MO);
        o = new Obj(id, k);
        if (K.destroyed_seen.load(vh::MO) > 0) c_reacquired_after_expiry.add();
    } else c_ctor_fail.add();
    if (counted) K.constructing.fetch_sub(1, vh::MO);
    return o;
}

static Plan make_plan(vh::Rng& r) {
    Plan p;
    p.fail = g_fail_den && r.chance(1, g_fail_den);
    int m = r.below(8);
    if (m < 4) p.sleep_mode = 0;
    else if (m < 7) p.sleep_mode = 1;
    else { p.sleep_mode = 2; p.sleep_us = r.pick<uint64_t>({1, 20, 100, 500, r.range(100, 1500)}); }
    return p;
}

struct AcqCtx {                                  // snapshot taken before an acquire, for the cool-down oracle
    uint64_t fs0, lfu0, t_start;
    int fp0;
};
static AcqCtx before_acquire(Worker& w, int k) {
    auto& K = g_key[k];
    AcqCtx c;
    c.fs0 = K.fail_seq.load(vh::MO);
    c.fp0 = K.fail_pending.load(vh::MO);
    c.lfu0 = K.last_fail_upper.load(vh::MO);
    c.t_start = vh::boottime_us();
    w.ctor_called = false; w.ctor_failed = false; w.ctor_tracked = false;
    w.blk_key.store(k, vh::MO);
    w.blk_kind.store(1, std::memory_order_release);
    vh::event();
    return c;
}

// o == nullptr: the acquire reported failure. Returns true if the caller now holds o.
static bool after_acquire(Worker& w, int k, const Plan& pl, const AcqCtx& c, Obj* o, const char* how) {
    auto& K = g_key[k];
    w.blk_kind.store(0, std::memory_order_release);
    if (w.ctor_tracked) {
        atomic_max(K.last_fail_upper, vh::boottime_us());
        K.fail_pending.fetch_sub(1, vh::MO);
    }
    if (!o) {
        c_acq_null.add();
        if (w.ctor_called && !w.ctor_failed)
            vh::violation("acquire/null-after-successful-ctor:" + g_section, "the constructor succeeded but its acquirer got nothing",
                          vh::JObj().kv("key", k).kv("how", how).str());
        if (!w.ctor_called) {
            bool quiet = c.fp0 == 0 && K.fail_seq.load(vh::MO) == c.fs0;
            if (quiet && c.t_start > c.lfu0 + g_cooldown + SLACK_US)
                vh::violation("cooldown/poisoned-beyond-cooldown:" + g_section,
                              "an acquire returned nothing without calling the constructor although the last failed construction of the key is older than the cool-down",
                              vh::JObj().kv("key", k).kv("how", how).kv("start_us", c.t_start).kv("last_failure_not_after_us", c.lfu0).kv("cooldown_us", g_cooldown).str());
            else c_refused.add();
        }
        vh::progress();
        return false;
    }
    c_acq_ok.add();
    if (w.ctor_failed) c_fail_masked.add();     // own construction failed, a peer's object was returned (see report)
    // touching the bytes: ASan sees a freed object here
    uint64_t m = o->magic; uint32_t id = o->id; int key = o->key;
    if (m != MAGIC_LIVE || id == 0 || id >= MAXOBJ || key != k || g_info[id].state.load(vh::MO) != 1 || o->body[1] != ~(uint64_t)id) {
        vh::violation("acquire/dead-or-foreign-object:" + g_section, "an acquire returned an object that is destroyed or belongs to another key",
                      vh::JObj().kv("key", k).kv("how", how).kv("magic", m).kv("id", id).kv("obj_key", key).str());
        vh::progress();
        return true;
    }
    if (g_share_oracle) {
        uint64_t cur = K.cur.load(vh::MO);
        for (;;) {
            uint64_t cid = cur >> 16, n = cur & 0xffff, nw;
            if (n == 0) nw = ((uint64_t)id << 16) | 1;
            else if (cid == id) { nw = cur + 1; }
            else {
                vh::violation("sharing/two-live-objects-for-key:" + g_section, "two acquirers hold different objects of one key at the same time",
                              vh::JObj().kv("key", k).kv("how", how).kv("mine", id).kv("other", cid).kv("other_holders", n).str());
                nw = cur;
                break;
            }
            if (K.cur.compare_exchange_weak(cur, nw, vh::MO)) { if (n > 0) c_shared.add(); break; }
        }
    }
    g_info[id].holders.fetch_add(1, vh::MO);
    vh::progress();
    return true;
}

static void touch(Obj* o, int k, const char* where) {
    if (o->magic != MAGIC_LIVE || o->key != k || o->body[0] != o->id)
        vh::violation("held/object-changed:" + g_section, "a held object was destroyed or overwritten", vh::JObj().kv("key", k).kv("where", where).kv("magic", o->magic).str());
}

static void hold(vh::Rng& r, Obj* o, int k) {
    touch(o, k, "after-acquire");
    switch (r.below(12)) {
    case 0: case 1: case 2: case 3: break;
    case 4: case 5: case 6: thread_yield(); break;
    case 7: case 8: case 9: thread_usleep(r.range(1, 100)); break;
    case 10: thread_usleep(r.range(100, 600)); break;
    default: thread_usleep(r.range(600, 2500));
    }
    touch(o, k, "before-release");
}

// bookkeeping before any release of object id
static void before_release(int k, uint32_t id) {
    auto& K = g_key[k];
    if (g_share_oracle) {
        uint64_t cur = K.cur.load(vh::MO);
        while ((cur >> 16) == id && (cur & 0xffff) > 0 && !K.cur.compare_exchange_weak(cur, cur - 1, vh::MO)) {}
    }
    g_info[id].holders.fetch_sub(1, vh::MO);
    atomic_max(g_info[id].max_release_now, photon::now);
    vh::event();
}

struct RecCtx { uint32_t a0, s0; };
static RecCtx before_recycle(Worker& w, int k, uint32_t id) {
    auto& I = g_info[id];
    I.recycle_expected.fetch_add(1, vh::MO);
    g_key[k].recyclers.fetch_add(1, vh::MO);
    RecCtx c;
    uint64_t prev = I.rec_word.fetch_add((1ull << 32) + 1, vh::MO);     // start and "in progress" in one step
    c.a0 = (uint32_t)prev;
    c.s0 = (uint32_t)(prev >> 32) + 1;
    if (I.holders.load(vh::MO) > 0) c_waited_recycler.add();
    w.blk_obj.store(id, vh::MO);
    w.blk_key.store(k, vh::MO);
    w.blk_kind.store(2, std::memory_order_release);
    return c;
}
static void after_recycle(Worker& w, int k, uint32_t id, const RecCtx& c, const char* how) {
    auto& I = g_info[id];
    w.blk_kind.store(0, std::memory_order_release);
    int h = I.holders.load(vh::MO);
    uint64_t endw = I.rec_word.fetch_sub(1, vh::MO);
    // another recycling release of this object was in progress when this one started, or started before this one ended
    bool overlapped = c.a0 > 0 || (uint32_t)(endw >> 32) != c.s0;
    g_key[k].recyclers.fetch_sub(1, vh::MO);
    if (overlapped) c_recycle_demoted.add();
    if (h > 0)
        vh::violation(std::string("recycle/returned-while-held") + (overlapped ? ":concurrent-recyclers:" : ":") + g_section,
                      overlapped ? "a recycling release returned while another acquirer still holds the object (another recycling release of the same object was in progress)"
                                 : "a recycling release returned while another acquirer still holds the object",
                      vh::JObj().kv("key", k).kv("id", id).kv("holders", h).kv("how", how).str());
    vh::progress();
}

static void idle(vh::Rng& r) {
    int m = r.below(32);
    if (m < 16) return;
    if (m < 24) { thread_yield(); return; }
    if (m < 31) { thread_usleep(r.range(1, 300)); return; }
    thread_usleep(std::min<uint64_t>(g_lifespan * 2 + 100, 12000));      // let things expire
}

// ------------------------------------------------------------------------------------------ section: ptr
typedef ObjectCache<int, Obj*> PtrCache;
static PtrCache* g_ptr;

static void ptr_worker(Worker& w) {
    vh::Rng r(vh::mix(vh::args().xseed(), 500 + w.id));
    for (uint64_t op = 0; op < g_ops; ++op) {
        int k = r.below(g_nkeys);
        Plan pl = make_plan(r);
        auto ctor = [&]() -> Obj* { return construct(w, k, pl); };
        int how = r.below(10);
        if (how < 3) {
            // RAII form
            c_borrow.add();
            auto c = before_acquire(w, k);
            uint32_t id = 0; RecCtx rc{}; bool rec = false;
            {
                auto b = g_ptr->borrow(k, ctor, g_cooldown);
                Obj* o = b ? &*b : nullptr;
                if (after_acquire(w, k, pl, c, o, "borrow")) {
                    id = o->id;
                    hold(r, o, k);
                    rec = r.chance(1, 5);
                    before_release(k, id);
                    if (rec) { b.recycle(true); c_rel_recycle.add(); rc = before_recycle(w, k, id); } else c_rel_plain.add();
                }
            }
            if (rec) after_recycle(w, k, id, rc, "~Borrow(recycle)");
            else vh::progress();
        } else {
            bool by_item = how < 5;
            PtrCache::ItemPtr item = nullptr;
            auto c = before_acquire(w, k);
            Obj* o;
            if (by_item) { c_refacq.add(); item = g_ptr->ref_acquire(k, ctor, g_cooldown); o = item ? item->get_ptr() : nullptr; }
            else o = g_ptr->acquire(k, ctor, g_cooldown);
            if (after_acquire(w, k, pl, c, o, by_item ? "ref_acquire" : "acquire")) {
                uint32_t id = o->id;
                hold(r, o, k);
                int rel = r.below(10);
                before_release(k, id);
                if (rel < 6) {
                    c_rel_plain.add();
                    if (by_item) g_ptr->ref_release(item); else g_ptr->release(k);
                    vh::progress();
                } else if (rel < 8) {
                    c_rel_recycle.add();
                    auto rc = before_recycle(w, k, id);
                    if (by_item) g_ptr->ref_release(item, true, true); else g_ptr->release(k, true, true);
                    after_recycle(w, k, id, rc, "release(recycle,destroy)");
                } else {
                    c_rel_moveout.add();
                    auto rc = before_recycle(w, k, id);
                    Obj* ret = by_item ? g_ptr->ref_release(item, true, false) : g_ptr->release(k, true, false);
                    if (ret) {
                        // handed to us: nobody else may hold it
                        int h = g_info[id].holders.load(vh::MO);
                        if (ret != o || h > 0)
                            vh::violation("moveout/while-borrowed:" + g_section, ret != o ? "a move-out release returned a different object" :
                                          "a move-out release handed the object out while another acquirer still holds it",
                                          vh::JObj().kv("key", k).kv("id", id).kv("holders", h).str());
                        g_info[id].moved.store(1, vh::MO);
                        c_moved_out.add();
                        touch(ret, k, "moved-out");
                    }
                    after_recycle(w, k, id, rc, "release(recycle,move-out)");
                    if (ret) delete ret;
                }
            }
        }
        idle(r);
    }
}

// ------------------------------------------------------------------------------------------ section: list
typedef ObjectCache<int, intrusive_list<Obj>> ListCache;
static ListCache* g_list;

static void list_worker(Worker& w) {
    vh::Rng r(vh::mix(vh::args().xseed(), 500 + w.id));
    for (uint64_t op = 0; op < g_ops; ++op) {
        int k = r.below(g_nkeys);
        Plan pl = make_plan(r);
        pl.fail = false;                        // the list form has no way to report a failed construction
        // the "object" of this form is the list inside the cache item; its single node carries the id
        auto ctor = [&]() -> intrusive_list<Obj> { return intrusive_list<Obj>(construct(w, k, pl)); };
        bool use_borrow = r.chance(1, 3);
        auto c = before_acquire(w, k);
        if (use_borrow) {
            c_borrow.add();
            uint32_t id = 0; RecCtx rc{}; bool rec = false, got = false;
            {
                auto b = g_list->borrow(k, ctor, g_cooldown);
                Obj* o = b ? b->front() : nullptr;
                got = after_acquire(w, k, pl, c, o, "borrow(list)");
                if (got) {
                    id = o->id;
                    hold(r, o, k);
                    rec = r.chance(1, 4);
                    before_release(k, id);
                    if (rec) { b.recycle(true); c_rel_recycle.add(); rc = before_recycle(w, k, id); } else c_rel_plain.add();
                }
            }
            if (rec) after_recycle(w, k, id, rc, "~Borrow(list,recycle)");
            else vh::progress();
        } else {
            auto& lst = g_list->acquire(k, ctor, g_cooldown);
            Obj* o = lst.front();
            if (after_acquire(w, k, pl, c, o, "acquire(list)")) {
                uint32_t id = o->id;
                hold(r, o, k);
                bool rec = r.chance(1, 4);
                before_release(k, id);
                if (rec) {
                    c_rel_recycle.add();
                    auto rc = before_recycle(w, k, id);
                    g_list->release(k, true, true);
                    after_recycle(w, k, id, rc, "release(list,recycle)");
                } else { c_rel_plain.add(); g_list->release(k); vh::progress(); }
            }
        }
        idle(r);
    }
}

// ------------------------------------------------------------------------------------------ section: v2
typedef ObjectCacheV2<int, Obj*> V2Cache;
static V2Cache* g_v2;
static int g_v2_mode = 0;                       // 0 borrow only, 1 borrow+recycle+update, 2 mode 1 + long stalls + moving hot keys
static std::atomic<uint64_t> g_tick{0};
static uint32_t g_long_den = 0;

static void long_stall_handler(uint32_t id) {
    if (id == photon::verif::P_OBJCACHEV2_RELEASE && g_long_den) {
        static thread_local vh::Rng r(vh::args().xseed() ^ (uint64_t)syscall(SYS_gettid) * 77);
        if (r.below(g_long_den) == 0) {
            c_longstall.add();
            struct timespec ts = {0, (long)r.range(300 * 1000, 4000 * 1000)};       // an OS thread can lose the CPU for this long
            nanosleep(&ts, nullptr);
            return;
        }
    }
    vh::stall_handler(id);
}

static void v2_worker(Worker& w) {
    vh::Rng r(vh::mix(vh::args().xseed(), 500 + w.id));
    for (uint64_t op = 0; op < g_ops; ++op) {
        int k;
        if (g_v2_mode == 2) k = (g_tick.fetch_add(1, vh::MO) / 24 + r.below(2)) % g_nkeys;     // hot keys that go cold quickly
        else k = r.below(g_nkeys);
        Plan pl = make_plan(r);
        bool upd = g_v2_mode >= 1 && r.chance(1, 10);
        if (upd) pl.fail = false;
        auto ctor = [&]() -> Obj* { return construct(w, k, pl, !upd); };      // update() substitutes without the create lock by design
        auto c = before_acquire(w, k);
        {
            auto b = upd ? g_v2->update(k, ctor) : g_v2->borrow(k, ctor, g_cooldown);
            if (upd) c_update.add();
            Obj* o = b ? &*b : nullptr;
            if (after_acquire(w, k, pl, c, o, upd ? "update" : "borrow(v2)")) {
                uint32_t id = o->id;
                hold(r, o, k);
                before_release(k, id);
                if (g_v2_mode >= 1 && r.chance(1, 8)) { b.recycle(true); c_v2_recycle.add(); }
                c_rel_plain.add();
            }
        }
        vh::progress();
        idle(r);
    }
}


// A lost wake-up leaves every photon thread parked, so every vCPU OS thread sleeps in its event engine. If some
// OS thread of this process is runnable (state R/D) the silence may be plain CPU starvation on a loaded machine:
// then nothing is proved (the driver re-runs the execution alone).
#include <dirent.h>
static bool all_os_threads_sleeping() {
    // idle vCPUs poll (short wake-ups), so a thread counts as runnable only if it is seen in state R/D in most samples
    int self = (int)syscall(SYS_gettid);
    std::map<int, int> busy;
    const int rounds = 20;
    for (int round = 0; round < rounds; ++round) {
        if (DIR* d = opendir("/proc/self/task")) {
            while (auto e = readdir(d)) {
                if (e->d_name[0] < '0' || e->d_name[0] > '9') continue;
                int tid = atoi(e->d_name);
                if (tid == self) continue;
                char path[64], buf[512];
                snprintf(path, sizeof(path), "/proc/self/task/%d/stat", tid);
                FILE* f = fopen(path, "r");
                if (!f) continue;
                size_t n = fread(buf, 1, sizeof(buf) - 1, f);
                fclose(f);
                buf[n] = 0;
                char* rp = strrchr(buf, ')');
                if (rp && rp[1] == ' ' && rp[2] != 'S') busy[tid]++;
            }
            closedir(d);
        }
        struct timespec ts = {0, 40 * 1000 * 1000};
        nanosleep(&ts, nullptr);
    }
    for (auto& kv : busy) if (kv.second * 3 >= rounds) return false;
    return true;
}

// ------------------------------------------------------------------------------------------ supervisor
static bool on_stuck(std::string& key, std::string& what, std::string& wit) {
    vh::JArr arr;
    bool proved = false;
    for (int i = 0; i < MAXW; ++i) {
        auto& w = g_w[i];
        int kind = w.blk_kind.load(std::memory_order_acquire);
        if (!kind) continue;
        int k = w.blk_key.load();
        auto& K = g_key[k];
        if (kind == 2) {
            uint32_t id = w.blk_obj.load();
            int h = g_info[id].holders.load();
            arr.raw(vh::JObj().kv("worker", i).kv("blocked_in", "recycling release").kv("key", k).kv("object", id).kv("harness_holders", h).str());
            if (h == 0 && g_section != "v2") {
                proved = true;
                key = "stuck/recycler-not-woken:" + g_section;
                what = "a recycling release stays blocked although every other holder has released the object";
            }
        } else {
            int cons = K.constructing.load(), rec = K.recyclers.load();
            arr.raw(vh::JObj().kv("worker", i).kv("blocked_in", "acquire").kv("key", k).kv("constructors_running", cons).kv("recyclers_active", rec).str());
            if (cons == 0 && rec == 0 && g_section != "v2") {
                proved = true;
                key = "stuck/acquirer-blocked:" + g_section;
                what = "an acquirer stays blocked although no constructor is running and no recycling release is pending for its key";
            }
        }
    }
    wit = arr.str();
    if (proved && !all_os_threads_sleeping()) {
        proved = false;
        key = "runnable-threads";
        what = "no progress, but OS threads of the process are runnable (CPU starvation suspected); ledger=" + wit;
        return false;
    }
    if (!proved) { key = "objcache-workload:" + g_section; what = "no progress; blocked=" + wit; }
    return proved;
}

static std::atomic<int> g_workers_done{0};
static int g_nworkers_total = 0;

// ObjectCacheV2 has a known use-after-free of the Box (see known_findings.json); without ASan it shows up as a plain
// crash somewhere. Give that crash a key of its own instead of the driver's generic "process died" key.
static void v2_crash_handler(int sig) {
    static std::atomic<int> once{0};
    if (once.exchange(1)) _exit(128 + sig);
    vh::violation("crash/v2-section:signal-" + std::to_string(sig), "the ObjectCacheV2 section died on a signal (no sanitizer in this flavor to attribute it)", "null");
    vh::write_summary();
    _exit(10);
}

static void* worker_main(void* arg) {
    auto& w = *(Worker*)arg;
    if (g_section == "ptr") ptr_worker(w);
    else if (g_section == "list") list_worker(w);
    else v2_worker(w);
    // Stay alive until every worker is done. ObjectCacheBase wakes parked acquirers with blocker.notify_all() from several
    // vCPUs at once; waitq::resume_one() reads the queue head and then locks that thread, which is unsafe against a woken
    // thread that already exited (its struct lives on its unmapped stack). That defect belongs to the condition variable
    // / waitq (seen here as a SEGV in indirect_lock under blocker.notify_all()), so exiting threads are kept out of this check.
    g_workers_done.fetch_add(1, std::memory_order_acq_rel);
    while (g_workers_done.load(std::memory_order_acquire) < g_nworkers_total) thread_usleep(300);
    return nullptr;
}

int main(int argc, char** argv) {
    vh::init(argc, argv);
    vh::Rng r(vh::args().xseed());
    static const char* table[8] = {"ptr", "ptr", "ptr", "list", "ptr", "ptr", "v2", "v2"};
    g_section = vh::args().gets("section", table[vh::args().exec % 8]);
    int nv = vh::args().geti("vcpus", r.pick({1, 2, 2, 3, 4}));
    int tpv = vh::args().geti("threads", r.range(2, 6));
    g_nkeys = vh::args().geti("keys", r.pick({1, 1, 2, 3, 4}));
    g_fail_den = vh::args().geti("fail_den", r.pick({0, 12, 4}));
    if (vh::is_tsan()) {
        // TSan stops at its first report. Two data races are known (known_findings.json): the unlocked `_obj` read after a
        // failed construction in ObjectCacheBase::ref_acquire, and Box::timestamp in ObjectCacheV2. They are confined to
        // dedicated executions so that the other TSan executions still run to their end.
        if (g_section != "v2" && !vh::args().has("fail_den")) g_fail_den = vh::args().exec % 8 == 5 ? 4 : 0;
        if (g_section == "v2" && vh::args().exec % 8 == 7 && !vh::args().has("vcpus")) { nv = 1; tpv = std::max(tpv, 4); }
    }
    const int nworkers = nv * tpv;
    g_cooldown = vh::args().geti("cooldown_us", r.pick<uint64_t>({0, 2000, 20000}));
    bool long_life = r.chance(1, 8);
    g_lifespan = vh::args().geti("lifespan_us", long_life ? 3000000 : r.pick<uint64_t>({1000, 2000, 5000, 10000, 20000}));
    uint64_t timer_cycle = r.pick<uint64_t>({0, 1000, g_lifespan / 4});
    bool limited = !long_life && r.chance(1, 6);
    if (limited) g_num_limit = r.range(1, std::max(1, g_nkeys - 1));
    g_lifespan_oracle = g_lifespan >= 2 * SLACK_US && !limited && g_section != "v2";
    g_ops = vh::args().geti("ops", vh::args().thorough() ? 1500 : 250);
    if (g_section == "v2") {
        {
            bool even = (vh::args().exec / 8) % 2 == 0;
            int def = vh::args().exec % 8 == 6 ? (even ? 0 : 2) : (even ? 2 : 1);
            // mode 2 provokes the known use-after-free of the Box in ~Borrow: only ASan turns that into a clean report
            if (def == 2 && !vh::is_asan()) def = 1;
            g_v2_mode = vh::args().geti("v2_mode", def);
        }
        g_share_oracle = g_v2_mode == 0;            // recycle()/update() substitute the object while old borrowers keep theirs (by design)
        if (g_v2_mode == 2) { g_nkeys = 48; g_long_den = r.pick({8u, 16u, 32u}); g_lifespan = r.pick<uint64_t>({0, 100, 1000}); }
        g_ops *= 2;                                 // the reclaimer of this class runs once per second
    }
    if (vh::is_tsan()) g_ops /= 4;
    g_ops /= vh::args().shape_div();
    if (g_ops < 40) g_ops = 40;
    g_nworkers_total = nworkers;
    g_info = new ObjInfo[MAXOBJ];
    for (int i = 0; i < MAXW; ++i) g_w[i].id = i;
    vh::config("section", g_section); vh::config("vcpus", nv); vh::config("threads_per_vcpu", tpv); vh::config("keys", g_nkeys);
    vh::config("fail_den", g_fail_den); vh::config("cooldown_us", g_cooldown); vh::config("lifespan_us", g_lifespan);
    vh::config("timer_cycle_us", timer_cycle); vh::config("num_limit", limited ? (int64_t)g_num_limit : -1);
    vh::config("ops_per_thread", g_ops);
    if (g_section == "v2") vh::config("v2_mode", g_v2_mode);
    using namespace photon::verif;
    vh::arm_stalls(r, {P_OBJCACHE_RELEASE, P_OBJCACHEV2_RELEASE, P_WAITQ_RESUME, P_PRELOCKED_INTERRUPT, P_RESUME_BEFORE_LOCK, P_MUTEX_UNLOCK,
                       P_MUTEX_LOCK_AFTER_WAKE, P_SEM_SIGNAL_AFTER_RESUME, P_SEM_WAIT_AFTER_DEFER});
    if (g_long_den) { photon::verif::g_hooks.point = &long_stall_handler; vh::config("long_stall_den", g_long_den); }
    vh::start_supervisor(on_stuck);
    if (g_section == "v2" && !vh::is_asan() && !vh::is_tsan()) {
        static char altstack[64 * 1024];
        stack_t ss; ss.ss_sp = altstack; ss.ss_size = sizeof(altstack); ss.ss_flags = 0;
        sigaltstack(&ss, nullptr);
        struct sigaction sa; memset(&sa, 0, sizeof(sa));
        sa.sa_handler = v2_crash_handler; sa.sa_flags = SA_ONSTACK;
        sigaction(SIGSEGV, &sa, nullptr); sigaction(SIGBUS, &sa, nullptr); sigaction(SIGABRT, &sa, nullptr);
    }

    vh::VCpus vc;
    vh::PBarrier created(nv);
    std::atomic<int> done_vcpus{0};
    vc.run(nv, nullptr, [&](int v) {
        if (v == 0) {
            if (g_section == "ptr") g_ptr = timer_cycle ? new PtrCache(g_lifespan, timer_cycle, g_num_limit) : new PtrCache(g_lifespan);
            else if (g_section == "list") g_list = timer_cycle ? new ListCache(g_lifespan, timer_cycle, g_num_limit) : new ListCache(g_lifespan);
            else g_v2 = new V2Cache(g_lifespan);
        }
        created.wait();
        std::vector<join_handle*> jh;
        for (int i = v; i < nworkers; i += nv)
            jh.push_back(thread_enable_join(thread_create(worker_main, &g_w[i], 256 * 1024)));
        for (auto h : jh) thread_join(h);
        done_vcpus.fetch_add(1, std::memory_order_acq_rel);
        if (v != 0) return;
        while (done_vcpus.load(std::memory_order_acquire) < nv) { thread_usleep(500); }
        // epilogue: after a quiet period longer than the cool-down (+ slack) every key must be constructible again
        if (g_section != "v2" || g_v2_mode == 0) {
            uint64_t quiet = g_cooldown + SLACK_US + 100 * 1000;
            for (uint64_t t = 0; t < quiet; t += 100 * 1000) { thread_usleep(100 * 1000); vh::progress(); }
            auto& w = g_w[MAXW - 1];
            Plan pl;
            for (int k = 0; k < g_nkeys; ++k) {
                auto ctor = [&]() -> Obj* { return construct(w, k, pl); };
                auto c = before_acquire(w, k);
                bool ok = false;
                if (g_section == "ptr") {
                    Obj* o = g_ptr->acquire(k, ctor, g_cooldown);
                    ok = after_acquire(w, k, pl, c, o, "acquire(after quiet period)");
                    if (ok) { before_release(k, o->id); g_ptr->release(k); }
                } else if (g_section == "list") {
                    auto lctor = [&]() -> intrusive_list<Obj> { return intrusive_list<Obj>(construct(w, k, pl)); };
                    auto& lst = g_list->acquire(k, lctor, g_cooldown);
                    Obj* o = lst.front();
                    ok = after_acquire(w, k, pl, c, o, "acquire(list, after quiet period)");
                    if (ok) { before_release(k, o->id); g_list->release(k); }
                } else {
                    auto b = g_v2->borrow(k, ctor, g_cooldown);
                    Obj* o = b ? &*b : nullptr;
                    ok = after_acquire(w, k, pl, c, o, "borrow(v2, after quiet period)");
                    if (ok) before_release(k, o->id);
                }
                if (ok) c_probe.add();
            }
        }
        // scripted cool-down probe on a key nobody used: one failed construction, then an attempt every 10 ms with the
        // same cool-down. Attempts inside the cool-down may be refused without calling the constructor; an attempt that
        // starts more than cool-down + slack after the failure must call it again, however many refused attempts lie
        // in between (a refusal must not renew the cool-down).
        // (not for the list form: its "failed construction" - an empty list - is not represented the way the probe assumes)
        if (g_nkeys < MAXKEYS && g_section != "list") {
            const uint64_t C = 50 * 1000, PROBE_SLACK = 400 * 1000;
            int k = g_nkeys;
            auto& w = g_w[MAXW - 1];
            auto attempt = [&](const Plan& pl, const char* how) -> int {       // 1 object, 0 refused without constructor, -1 constructor failed
                auto ctor = [&]() -> Obj* { return construct(w, k, pl); };
                auto c = before_acquire(w, k);
                bool ok = false;
                if (g_section == "ptr") {
                    Obj* o = g_ptr->acquire(k, ctor, C);
                    ok = after_acquire(w, k, pl, c, o, how);
                    if (ok) { before_release(k, o->id); g_ptr->release(k); }
                } else if (g_section == "list") {
                    auto lctor = [&]() -> intrusive_list<Obj> { return intrusive_list<Obj>(construct(w, k, pl)); };
                    auto& lst = g_list->acquire(k, lctor, C);
                    Obj* o = lst.front();
                    ok = after_acquire(w, k, pl, c, o, how);
                    if (ok) { before_release(k, o->id); g_list->release(k); }
                } else {
                    auto b = g_v2->borrow(k, ctor, C);
                    Obj* o = b ? &*b : nullptr;
                    ok = after_acquire(w, k, pl, c, o, how);
                    if (ok) before_release(k, o->id);
                }
                return ok ? 1 : w.ctor_called ? -1 : 0;
            };
            Plan bad; bad.fail = true;
            Plan good;
            uint64_t saved = g_cooldown;
            g_cooldown = C;                                     // the generic oracle inside after_acquire() uses it
            if (attempt(bad, "scripted cool-down probe: failing construction") == -1) {
                uint64_t t_fail = vh::boottime_us();
                int refused = 0;
                for (;;) {
                    thread_usleep(10 * 1000);
                    vh::progress();
                    uint64_t t = vh::boottime_us();
                    int a = attempt(good, "scripted cool-down probe: retry");
                    if (a == 1) { c_cd_probe.add(); break; }
                    if (a == 0) refused++;
                    if (a == 0 && t > t_fail + C + PROBE_SLACK) {
                        vh::violation("cooldown/refusals-renew-the-cooldown:" + g_section,
                                      "an attempt made long after the cool-down of a failed construction had passed was still refused without calling the constructor; "
                                      "attempts were made every 10 ms in between",
                                      vh::JObj().kv("cooldown_us", C).kv("attempt_us_after_failure", t - t_fail).kv("refused_attempts", refused).str());
                        break;
                    }
                    if (t > t_fail + 5 * 1000 * 1000) { vh::inconclusive("cool-down probe did not finish in 5 s"); break; }
                }
            }
            g_cooldown = saved;
        }
        g_teardown.store(true);
        delete g_ptr; delete g_list; delete g_v2;
        vh::progress();
    });

    uint64_t expired = vh::cov(C_OBJCACHE_EXPIRE), parked = vh::cov(C_OBJCACHE_RECYCLE_WAIT);
    bool nontrivial = c_dtor.get() > 0 && nworkers >= 2 &&
                      (g_section == "v2" ? c_acq_ok.get() > 0 : (c_shared.get() > 0 && c_rel_recycle.get() + c_rel_moveout.get() > 0));
    vh::set_sig(g_section + (g_section == "v2" ? "m" + std::to_string(g_v2_mode) : "") + "|v" + std::to_string(nv) + "|t" + std::to_string(tpv) +
                    "|k" + std::to_string(g_nkeys) + "|f" + std::to_string(g_fail_den) + "|cd" + std::to_string(g_cooldown) + "|ls" + std::to_string(g_lifespan) +
                    (limited ? "|lim" : "") + "|" + vh::cov_signature({C_OBJCACHE_EXPIRE, C_OBJCACHE_RECYCLE_WAIT, C_OBJCACHE_CTOR_FAIL}) +
                    "wait:" + std::to_string(vh::log2bucket(c_waited_recycler.get())) + ",refused:" + std::to_string(vh::log2bucket(c_refused.get())),
                nontrivial);
    vh::sample(vh::JObj().kv("section", g_section).kv("vcpus", nv).kv("threads_per_vcpu", tpv).kv("keys", g_nkeys).kv("lifespan_us", g_lifespan)
                   .kv("cooldown_us", g_cooldown).kv("acquired", c_acq_ok.get()).kv("null", c_acq_null.get()).kv("constructed", c_ctor.get())
                   .kv("destroyed", c_dtor.get()).kv("expired_items", expired).kv("parked_behind_recycler", parked)
                   .kv("recycling_releases", c_rel_recycle.get() + c_rel_moveout.get()).str());
    return vh::finish();
}
