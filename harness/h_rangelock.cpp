// C18 - RangeLock: held ranges never overlap, waiters proceed when the conflict is gone.
//
// RangeLock is shared between vCPUs in the library itself (fs/cache/store.cpp unlocks the refill range
// from a pool thread that runs on another vCPU; the class guards its set with photon::spinlock and
// parks waiters on photon::condition_variable, both cross-vCPU primitives), so one RangeLock object is
// driven here from 1-4 vCPUs.
//
// Universe: a grid of 131 points, 0,16,..,1024 and 2^64-1-16k,..,2^64-1, plus the virtual point 2^64.
// Every range used has grid end points, so the 130 "cells" between consecutive points are an exact
// interval occupancy map: two non-empty ranges overlap iff they share a cell. The map is one relaxed
// atomic per cell (owner id; written after the acquire returned, cleared before the release is called),
// readable by the supervisor OS thread. Cell 64 is the huge middle of the space, cell 129 the single
// byte 2^64-1 (which the saturating end() of the implementation cannot represent).
//
// Sections (one per execution):
//   main  (exec%4 != 3) non-empty ranges with offset < 2^64-1: nested / partially overlapping / adjacent /
//         saturating; lock, try_lock_wait+unlock(offset,length) (exact or a superset that only partially
//         covers the neighbours), try_lock_wait2, adjust_range, ScopedRangeLock.
//   edge  (exec%4 == 3) degenerate ranges, arranged so that the three defects known in this area cannot
//         wedge or corrupt the rest of the execution:
//         phase A (concurrent, handle API only): the main mix plus zero-length ranges, where every worker
//           uses its own private point (two zero-length ranges at ONE offset corrupt the std::set, see S2)
//           and only worker 0 uses offset 2^64-1;
//         phase B (scripted, each scenario on a fresh RangeLock that is abandoned afterwards):
//           S1 a range at offset 2^64-1 against a holder of the top bytes (value API);
//           S2 two zero-length locks at one offset, then a second lock of a held non-empty range;
//           S3 try_lock_wait(x,0); unlock(x,0); lock(covering range).
//           S2 and S3 end the execution on the unchanged tree, so they alternate over the edge executions.
// Oracles: occupancy overlap (violation), plain payload per cell (sanitizers + overwritten check),
// supervisor: a thread blocked in lock()/try_lock_wait*() while no recorded holder overlaps its range,
// whole-space lock at quiescence.
#include "vh.h"
#include <photon/common/range-lock.h>

using namespace photon;
typedef unsigned __int128 u128;

static vh::NamedCounter c_acq("acquired"), c_lock("via_lock"), c_tlw("via_try_lock_wait"), c_tlw2("via_try_lock_wait2"),
    c_scoped("via_scoped"), c_tlw_conflict("try_lock_wait_conflict_returns"), c_waited_acq("waited_then_acquired"),
    c_adj_ok("adjust_ok"), c_adj_refused("adjust_refused"), c_adj_grow("adjust_grow_ok"), c_adj_shrink("adjust_shrink_ok"),
    c_saturating("saturating_range_acquired"), c_huge("middle_cell_acquired"), c_superset("superset_unlock"),
    c_zero("zero_length_acquired"), c_top("top_offset_acquired"), c_whole("whole_space_locks"),
    c_adjacent("adjacent_neighbour_seen"), c_adjacent_ok("adjacent_to_held_range_acquired"), c_nested_conf("conflict_nested_or_partial");

constexpr int NPT = 131, NCELL = 130, TOPCELL = 129, MAXW = 40;

static u128 ptv(int idx) {
    if (idx <= 64) return (u128)idx * 16;
    if (idx <= 129) return (u128)UINT64_MAX - (u128)(129 - idx) * 16;
    return (u128)1 << 64;
}

struct Spec {           // a range of the universe: cells [a,b), library arguments (off,len)
    int a = 0, b = 0;
    uint64_t off = 0, len = 0;
    bool empty() const { return a == b; }
};

static Spec make_spec(vh::Rng& r, int a, int b) {
    Spec s;
    s.a = a; s.b = b;
    s.off = (uint64_t)ptv(a);
    if (b <= 129) s.len = (uint64_t)(ptv(b) - ptv(a));
    else {
        // offset+length passes 2^64: the implementation saturates the end
        uint64_t minlen = (uint64_t)0 - s.off;              // 2^64 - off   (off >= 1 here)
        s.len = minlen + r.below(std::min<uint64_t>(s.off, 100000));
    }
    return s;
}

static RangeLock* g_lock;
static std::atomic<uint32_t> g_cell[NCELL];     // occupancy map: owner id + 1
static std::atomic<int> g_zpoint[NPT];          // zero-length holders per grid point
static uint64_t g_payload[NCELL];               // plain memory protected by the range lock
static std::atomic<int> g_phase{0};             // 0 workers, 1 quiescence, 2 edge S1/S2, 3 edge S3
static std::atomic<const char*> g_tag{nullptr}; // scenario tag appended to overlap keys

struct Worker {
    int id = 0;
    std::atomic<int> blocked{0};                // 1 while inside lock()/try_lock_wait*()
    std::atomic<int> blk_a{0}, blk_b{0};
    std::atomic<int> held_a{-1}, held_b{-1};    // for witnesses only
    std::atomic<const char*> how{""};
    int zp = -1;                                // edge section: the private zero-length point of this worker
};
static Worker g_w[MAXW];
static std::vector<int> g_pts;                  // the grid points used by this execution
static bool g_edge = false;
static uint64_t g_ops = 0;
static bool g_superset = true;

static std::string spec_json(const Spec& s) {
    return vh::JObj().kv("cell_from", s.a).kv("cell_to", s.b).kv("offset", s.off).kv("length", s.len).str();
}

// ---- occupancy map
static void mark_cells(Worker& w, int a, int b, const char* how) {
    std::vector<int> clash;
    uint32_t other = 0;
    for (int c = a; c < b && c < NCELL; ++c) {
        uint32_t prev = 0;
        if (!g_cell[c].compare_exchange_strong(prev, w.id + 1, vh::MO)) { clash.push_back(c); other = prev; }   // stays the other's cell
        else if (c != TOPCELL) g_payload[c] = w.id + 1;      // byte 2^64-1 is known not to be serialised (overlap/top-byte): no plain payload there
    }
    if (!clash.empty()) {
        bool only_top = clash.size() == 1 && clash[0] == TOPCELL;
        auto& o = g_w[other - 1];
        auto tag = g_tag.load(vh::MO);
        vh::violation(only_top ? "overlap/top-byte" : tag ? std::string("overlap/two-holders:") + tag : "overlap/two-holders",
                      only_top ? "two threads hold ranges that both contain byte 2^64-1 (the saturating end cannot represent it)"
                               : "two threads hold overlapping non-empty ranges at the same time",
                      vh::JObj().kv("how", how).kv("worker", w.id).kv("cells_from", a).kv("cells_to", b)
                          .kv("first_shared_cell", clash[0]).kv("shared_cells", (int)clash.size())
                          .kv("other_worker", (int)other - 1).kv("other_from", o.held_a.load(vh::MO)).kv("other_to", o.held_b.load(vh::MO)).str());
    }
}
static void unmark_cells(Worker& w, int a, int b) {
    for (int c = a; c < b && c < NCELL; ++c) {
        uint32_t me = w.id + 1;
        if (g_cell[c].load(vh::MO) != me) continue;          // an overlap was reported for this cell, it is the other holder's
        if (c != TOPCELL && g_payload[c] != me)
            vh::violation("exclusion/payload-overwritten", "plain memory covered by a held range was overwritten by another thread",
                          vh::JObj().kv("cell", c).kv("worker", w.id).kv("found", g_payload[c]).str());
        g_cell[c].compare_exchange_strong(me, 0, vh::MO);
    }
}
static void mark(Worker& w, const Spec& s, const char* how) {
    if (s.empty()) g_zpoint[s.a].fetch_add(1, vh::MO);
    else mark_cells(w, s.a, s.b, how);
    w.held_a.store(s.a, vh::MO); w.held_b.store(s.b, vh::MO);
}
static void unmark(Worker& w, const Spec& s) {
    w.held_a.store(-1, vh::MO); w.held_b.store(-1, vh::MO);
    if (s.empty()) g_zpoint[s.a].fetch_sub(1, vh::MO);
    else unmark_cells(w, s.a, s.b);
}

static void hold(vh::Rng& r) {
    switch (r.below(5)) {
    case 0: case 1: break;
    case 2: thread_yield(); break;
    default: thread_usleep(r.range(1, 60));
    }
}

static Spec pick_spec(vh::Rng& r, Worker& w) {
    int n = g_pts.size();
    if (g_edge && w.zp >= 0 && r.chance(1, 4)) {
        // degenerate range at the private point of this worker (worker 0: offset 2^64-1, empty or "1 byte")
        if (w.zp == 129 && r.chance(1, 2)) return make_spec(r, 129, 130);
        return make_spec(r, w.zp, w.zp);
    }
    for (;;) {
        int i = r.below(n), j = r.below(n);
        if (i > j) std::swap(i, j);
        int a = g_pts[i], b = g_pts[j];
        if (a == b || a > 128) continue;
        if (b == 130 && a == 0) b = 129;                     // offset 0 cannot pass 2^64
        return make_spec(r, a, b);
    }
}

static void note_acquired(const Spec& s) {
    c_acq.add();
    if (s.empty()) c_zero.add();
    if (s.b == 130) c_saturating.add();
    if (s.a <= 64 && s.b > 64) c_huge.add();
    if (s.a == 129) c_top.add();
    if (!s.empty()) {
        if ((s.a > 0 && g_cell[s.a - 1].load(vh::MO)) || (s.b < NCELL && g_cell[s.b].load(vh::MO))) c_adjacent.add();
    }
}

// adjust the held range (handle API). Ledger: cells dropped are cleared before the call, cells gained are
// recorded after it succeeded; a refused call restores the dropped cells (they are still held).
static void do_adjust(vh::Rng& r, Worker& w, RangeLock::LockHandle* h, Spec& cur) {
    Spec nw;
    for (;;) {
        nw = pick_spec(r, w);
        // bias towards ranges related to the current one
        if (r.chance(2, 3) && (nw.b < cur.a || nw.a > cur.b)) continue;
        break;
    }
    vh::event();
    w.held_a.store(-1, vh::MO);
    if (cur.empty()) g_zpoint[cur.a].fetch_sub(1, vh::MO);
    else {
        // dropped = cur \ nw
        if (nw.empty() || nw.b <= cur.a || nw.a >= cur.b) unmark_cells(w, cur.a, cur.b);
        else {
            if (nw.a > cur.a) unmark_cells(w, cur.a, nw.a);
            if (nw.b < cur.b) unmark_cells(w, nw.b, cur.b);
        }
    }
    int ret = g_lock->adjust_range(h, nw.off, nw.len);
    if (ret == 0) {
        c_adj_ok.add();
        bool grow = !nw.empty() && (cur.empty() || nw.a < cur.a || nw.b > cur.b);
        if (grow) c_adj_grow.add(); else c_adj_shrink.add();
        if (nw.empty()) g_zpoint[nw.a].fetch_add(1, vh::MO);
        else if (cur.empty() || nw.b <= cur.a || nw.a >= cur.b) mark_cells(w, nw.a, nw.b, "adjust_range");
        else {
            if (nw.a < cur.a) mark_cells(w, nw.a, cur.a, "adjust_range(grow-left)");
            if (nw.b > cur.b) mark_cells(w, cur.b, nw.b, "adjust_range(grow-right)");
        }
        cur = nw;
    } else {
        c_adj_refused.add();
        if (cur.empty()) g_zpoint[cur.a].fetch_add(1, vh::MO);
        else if (nw.empty() || nw.b <= cur.a || nw.a >= cur.b) mark_cells(w, cur.a, cur.b, "adjust_range(refused,restore)");
        else {
            if (nw.a > cur.a) mark_cells(w, cur.a, nw.a, "adjust_range(refused,restore)");
            if (nw.b < cur.b) mark_cells(w, nw.b, cur.b, "adjust_range(refused,restore)");
        }
    }
    w.held_a.store(cur.a, vh::MO); w.held_b.store(cur.b, vh::MO);
}

static void set_blocked(Worker& w, const Spec& s, const char* how) {
    w.how.store(how, vh::MO);
    w.blk_a.store(s.a, vh::MO); w.blk_b.store(s.b, vh::MO);
    w.blocked.store(1, std::memory_order_release);
}
static void clear_blocked(Worker& w) { w.blocked.store(0, std::memory_order_release); }

static void one_op(vh::Rng& r, Worker& w, bool handle_only) {
    Spec s = pick_spec(r, w);
    int how = r.below(handle_only ? 3 : 4);      // 0 lock, 1 try_lock_wait2 loop, 2 scoped, 3 try_lock_wait + unlock(off,len)
    vh::event();
    if (how == 0) {
        set_blocked(w, s, "lock");
        auto h = g_lock->lock(s.off, s.len);
        clear_blocked(w);
        c_lock.add(); note_acquired(s);
        mark(w, s, "lock");
        hold(r);
        for (int k = r.below(3); k > 0; --k) { do_adjust(r, w, h, s); hold(r); }
        unmark(w, s);
        g_lock->unlock(h);
    } else if (how == 1) {
        RangeLock::LockHandle* h;
        bool waited = false;
        for (;;) {
            set_blocked(w, s, "try_lock_wait2");
            h = g_lock->try_lock_wait2(s.off, s.len);
            clear_blocked(w);
            if (h) break;
            waited = true;
            vh::progress();
        }
        if (waited) c_waited_acq.add();
        c_tlw2.add(); note_acquired(s);
        mark(w, s, "try_lock_wait2");
        hold(r);
        if (r.chance(1, 2)) { do_adjust(r, w, h, s); hold(r); }
        unmark(w, s);
        g_lock->unlock(h);
    } else if (how == 2) {
        set_blocked(w, s, "ScopedRangeLock");
        {
            ScopedRangeLock sl(*g_lock, s.off, s.len);
            clear_blocked(w);
            c_scoped.add(); note_acquired(s);
            mark(w, s, "ScopedRangeLock");
            hold(r);
            unmark(w, s);
        }
    } else {
        bool waited = false;
        for (;;) {
            uint64_t o = s.off, l = s.len;
            set_blocked(w, s, "try_lock_wait");
            int ret = g_lock->try_lock_wait(o, l);
            clear_blocked(w);
            if (ret == 0) break;
            // the conflicting part is reported back: it must lie inside the requested range
            c_tlw_conflict.add();
            if (l != 0 && (o != s.off || l != s.len)) c_nested_conf.add();
            waited = true;
            vh::progress();
        }
        if (waited) c_waited_acq.add();
        c_tlw.add(); note_acquired(s);
        mark(w, s, "try_lock_wait");
        hold(r);
        unmark(w, s);
        uint64_t o = s.off, l = s.len;
        if (g_superset && !s.empty() && r.chance(1, 3)) {
            // unlock(offset,length) releases the ranges CONTAINED in [offset, offset+length). All held ranges
            // have grid end points, so a superset reaching less than one cell into each neighbour contains
            // no other held range; a neighbour that is only partially covered must stay locked.
            uint64_t d1 = s.a > 0 ? r.range(1, 15) : 0;
            uint64_t d2 = s.b <= 128 ? r.range(1, 15) : 0;
            o -= d1;
            l = (l > UINT64_MAX - d1 - d2) ? UINT64_MAX : l + d1 + d2;     // (o >= 1 here, so o+l still passes 2^64)
            c_superset.add();
        }
        g_lock->unlock(o, l);
    }
    vh::progress();
}

static void* worker_main(void* arg) {
    auto& w = *(Worker*)arg;
    vh::Rng r(vh::mix(vh::args().xseed(), 100 + w.id));
    for (uint64_t i = 0; i < g_ops; ++i) {
        one_op(r, w, g_edge);
        if (r.chance(1, 6)) thread_yield();
    }
    return nullptr;
}

// true if some recorded holder may conflict with cells [a,b) (conservative for zero-length holders/requests)
static bool ledger_conflict(int a, int b) {
    if (a == b) {
        // a zero-length request conflicts only with a holder that strictly contains the point
        if (a > 0 && g_cell[a - 1].load() != 0) return true;
        if (a < NCELL && g_cell[a].load() != 0) return true;
        return false;
    }
    for (int c = a; c < b && c < NCELL; ++c) if (g_cell[c].load() != 0) return true;
    for (int p = a; p <= b && p < NPT; ++p) if (g_zpoint[p].load() != 0) return true;
    return false;
}


// A lost wake-up leaves every photon thread parked, so every vCPU OS thread sleeps in its event engine. If some
// OS thread of this process is runnable (state R/D) the silence may be plain CPU starvation on a loaded machine:
// then nothing is proved (the driver re-runs the execution alone).
#include <dirent.h>
static bool all_os_threads_sleeping() {
    // idle vCPUs poll (short wake-ups), so a thread counts as runnable only if it is seen in state R/D in most samples
    int self = (int)syscall(SYS_gettid);
    std::map<int, int> busy;
    const int rounds = 20;
    for (int round = 0; round < rounds; ++round) {
        if (DIR* d = opendir("/proc/self/task")) {
            while (auto e = readdir(d)) {
                if (e->d_name[0] < '0' || e->d_name[0] > '9') continue;
                int tid = atoi(e->d_name);
                if (tid == self) continue;
                char path[64], buf[512];
                snprintf(path, sizeof(path), "/proc/self/task/%d/stat", tid);
                FILE* f = fopen(path, "r");
                if (!f) continue;
                size_t n = fread(buf, 1, sizeof(buf) - 1, f);
                fclose(f);
                buf[n] = 0;
                char* rp = strrchr(buf, ')');
                if (rp && rp[1] == ' ' && rp[2] != 'S') busy[tid]++;
            }
            closedir(d);
        }
        struct timespec ts = {0, 40 * 1000 * 1000};
        nanosleep(&ts, nullptr);
    }
    for (auto& kv : busy) if (kv.second * 3 >= rounds) return false;
    return true;
}

static bool on_stuck(std::string& key, std::string& what, std::string& wit) {
    vh::JArr arr;
    bool proved = false;
    for (int i = 0; i < MAXW; ++i) {
        auto& w = g_w[i];
        if (!w.blocked.load(std::memory_order_acquire)) continue;
        int a = w.blk_a.load(), b = w.blk_b.load();
        bool conflict = ledger_conflict(a, b);
        arr.raw(vh::JObj().kv("worker", i).kv("call", w.how.load()).kv("cells_from", a).kv("cells_to", b)
                    .kv("offset", (uint64_t)ptv(a)).kv("recorded_holder_conflicts", conflict).str());
        if (!conflict) {
            proved = true;
            int ph = g_phase.load();
            if (ph == 3) {
                key = "stuck/zero-length-range-survives-unlock(offset,0)";
                what = "a zero-length range taken with try_lock_wait(x,0) is not released by unlock(x,0): a later lock of a covering "
                       "range blocks forever although nothing is held";
            } else if (ph == 4) {
                key = "stuck/adjacent-range-blocked";
                what = "a locker of a range that only touches a held range (no common byte) never acquires it while the neighbour stays held";
            } else if (ph == 1) {
                key = "stuck/whole-space-lock-at-quiescence";
                what = "after every thread released its range a lock of the whole space never succeeds";
            } else {
                key = "stuck/lost-wakeup";
                what = "a thread stays blocked in lock()/try_lock_wait although no recorded holder overlaps its range";
            }
        }
    }
    wit = arr.str();
    if (proved && !all_os_threads_sleeping()) {
        proved = false;
        key = "runnable-threads";
        what = "no progress, but OS threads of the process are runnable (CPU starvation suspected); ledger=" + wit;
        return false;
    }
    if (!proved) { key = "rangelock-workload"; what = "no progress; blocked=" + wit; }
    return proved;
}

// ---- edge section, phase B: scripted scenarios, each on a fresh RangeLock (abandoned afterwards)
static Worker& W1 = g_w[MAXW - 3];
static Worker& W2 = g_w[MAXW - 2];
static Worker& W3 = g_w[MAXW - 1];

// a helper thread makes one attempt; the caller keeps its own range until the attempt returned or, if the
// implementation sees the conflict and parks the helper, for a while (the caller's unlock then wakes it).
template <typename F>
static join_handle* attempt_async(std::atomic<bool>& done, F f) {
    return thread_enable_join(thread_create11([&done, f] { f(); done.store(true); }));
}
static void wait_attempt(std::atomic<bool>& done) {
    // under a sanitizer the helper may be busy printing a report about the corrupted index (it then ends the
    // process itself): keep the supervisor quiet meanwhile instead of touching the index from here
    int rounds = (vh::is_asan() || vh::is_tsan()) ? 200 : 10;
    for (int k = 0; k < rounds && !done.load(); ++k) { thread_usleep(100 * 1000); vh::progress(); }
}

// S1: byte 2^64-1. A holds [2^64-17, 2^64) (length passing 2^64), B asks for (2^64-1, n).
static void scenario_top_byte(vh::Rng& rb) {
    g_lock = new RangeLock;
    Spec t1 = make_spec(rb, 129, 130), t2 = make_spec(rb, 128, 130);
    uint64_t o = t2.off, l = t2.len;
    vh::event();
    if (g_lock->try_lock_wait(o, l) != 0) return;
    mark(W1, t2, "try_lock_wait");
    std::atomic<bool> done{false};
    auto th = attempt_async(done, [&] {
        uint64_t oo = t1.off, ll = t1.len;
        set_blocked(W2, t1, "try_lock_wait(2^64-1,n)");
        int ret = g_lock->try_lock_wait(oo, ll);
        clear_blocked(W2);
        if (ret == 0) { c_top.add(); mark(W2, t1, "try_lock_wait"); unmark(W2, t1); g_lock->unlock(t1.off, t1.len); }
    });
    wait_attempt(done);
    unmark(W1, t2);
    g_lock->unlock(t2.off, t2.len);
    thread_join(th);
    vh::progress();
}

// S2: lock(p,0); lock([p-1,p)); lock(p,0) again; then a second lock of [p-1,p) while it is held.
static void scenario_duplicate_zero_length(vh::Rng& rb) {
    g_lock = new RangeLock;
    int p = rb.range(8, 60);
    Spec z = make_spec(rb, p, p), a = make_spec(rb, p - 1, p);
    vh::event();
    auto h1 = g_lock->lock(z.off, 0); mark(W1, z, "lock(x,0)"); c_zero.add();
    auto h2 = g_lock->lock(a.off, a.len); mark(W1, a, "lock");
    auto h3 = g_lock->lock(z.off, 0); mark(W2, z, "lock(x,0)"); c_zero.add();
    g_tag.store("after-two-zero-length-locks-at-one-offset");
    std::atomic<bool> done{false}, got{false};
    auto th = attempt_async(done, [&] {
        set_blocked(W3, a, "try_lock_wait2");
        auto h = g_lock->try_lock_wait2(a.off, a.len);
        clear_blocked(W3);
        if (h) { got.store(true); mark(W3, a, "try_lock_wait2"); unmark(W3, a); }     // the index is corrupt: never touch it again
    });
    wait_attempt(done);
    if (!got.load()) {
        unmark(W1, a); g_lock->unlock(h2);          // wakes the helper if it was parked
        thread_join(th);
        unmark(W2, z); g_lock->unlock(h3);
        unmark(W1, z); g_lock->unlock(h1);
    } else {
        thread_join(th);
        unmark(W1, a); unmark(W2, z); unmark(W1, z);
    }
    g_tag.store(nullptr);
    vh::progress();
}

// S3: zero-length range through the value API, then a covering lock. Known to block forever.
static void scenario_zero_length_value_api(vh::Rng& rb) {
    g_lock = new RangeLock;
    int p = rb.range(1, 128);
    Spec z = make_spec(rb, p, p);
    uint64_t o = z.off, l = 0;
    vh::event();
    if (g_lock->try_lock_wait(o, l) != 0) return;
    c_zero.add();
    mark(W1, z, "try_lock_wait(x,0)");
    thread_yield();
    unmark(W1, z);
    g_lock->unlock(z.off, 0);
    vh::progress();
    Spec cover = make_spec(rb, p - 1, p + 1);
    set_blocked(W1, cover, "lock(covering range) after unlock(x,0)");
    auto h = g_lock->lock(cover.off, cover.len);
    clear_blocked(W1);
    mark(W1, cover, "lock");
    unmark(W1, cover);
    g_lock->unlock(h);
    vh::progress();
}

int main(int argc, char** argv) {
    vh::init(argc, argv);
    vh::Rng r(vh::args().xseed());
    g_edge = vh::args().has("section") ? vh::args().gets("section", "") == "edge" : (vh::args().exec % 4 == 3);
    int nv = vh::args().geti("vcpus", r.pick({1, 2, 2, 3, 4}));
    int tpv = vh::args().geti("threads", r.range(2, 6));
    if (g_edge && nv * tpv > 12) tpv = 12 / nv;
    const int nworkers = nv * tpv;
    g_superset = vh::args().geti("superset_unlock", 1) != 0;
    g_ops = vh::args().geti("ops", vh::args().thorough() ? 3000 : 600);
    if (vh::is_tsan()) g_ops /= 4;
    g_ops /= vh::args().shape_div();
    if (g_ops < 50) g_ops = 50;
    // the grid points of this execution: few points => many conflicts; always some structure at the top
    int npts = r.pick({4, 5, 6, 8, 10, 14});
    int base = r.below(50);
    {
        std::unordered_set<int> used;
        auto add = [&](int p) { if (used.insert(p).second) g_pts.push_back(p); };
        // a cluster of low points, the two sides of the middle cell, a cluster at the top
        int nlow = std::max(2, npts / 2);
        for (int i = 0; i < nlow; ++i) add(base + r.below(8));
        if (r.chance(1, 2)) add(64);
        if (r.chance(1, 2)) add(65);
        int ntop = npts - (int)g_pts.size();
        for (int i = 0; i < ntop; ++i) add(r.pick({130, 130, 129, 128, 127, 126, (int)r.range(120, 128)}));
        if (g_edge) { add(129); add(130); add(128); }
        std::sort(g_pts.begin(), g_pts.end());
    }
    std::string ptdesc;
    for (auto p : g_pts) ptdesc += std::to_string(p) + ",";
    for (int i = 0; i < MAXW; ++i) g_w[i].id = i;
    if (g_edge) {
        // private zero-length points: distinct per worker, inside the busy regions; worker 0 owns offset 2^64-1
        std::vector<int> pool;
        for (int p = base; p <= base + 8; ++p) pool.push_back(p);
        pool.push_back(64); pool.push_back(65);
        for (int p = 120; p <= 128; ++p) pool.push_back(p);
        for (size_t i = pool.size(); i > 1; --i) std::swap(pool[i - 1], pool[r.below(i)]);
        for (int i = 0; i < nworkers; ++i) g_w[i].zp = i == 0 ? 129 : pool[i];
    }
    vh::config("section", g_edge ? "edge" : "main");
    vh::config("vcpus", nv); vh::config("threads_per_vcpu", tpv); vh::config("points", ptdesc);
    vh::config("ops_per_thread", g_ops);
    using namespace photon::verif;
    vh::arm_stalls(r, {P_WAITQ_RESUME, P_PRELOCKED_INTERRUPT, P_RESUME_BEFORE_LOCK});
    g_lock = new RangeLock;
    vh::start_supervisor(on_stuck);

    vh::VCpus vc;
    std::atomic<int> done_vcpus{0};
    vc.run(nv, nullptr, [&](int v) {
        std::vector<join_handle*> jh;
        for (int i = v; i < nworkers; i += nv)
            jh.push_back(thread_enable_join(thread_create(worker_main, &g_w[i], 256 * 1024)));
        for (auto h : jh) thread_join(h);
        done_vcpus.fetch_add(1, std::memory_order_acq_rel);
        if (v != 0) return;
        while (done_vcpus.load(std::memory_order_acquire) < nv) thread_usleep(200);
        // adjacency: while [p,q) stays held, the ranges touching it on both sides are acquired by another thread.
        // The holder waits for that thread without a time limit; if the neighbours block, the supervisor proves it
        // (the helper is blocked and no recorded holder shares a byte with its range).
        {
            g_phase.store(4);
            vh::Rng ra(vh::mix(vh::args().xseed(), 55));
            int p = ra.pick({(int)ra.range(1, 62), 64, 65, (int)ra.range(66, 126)}), q = p + (int)ra.range(1, 2);
            Spec mid = make_spec(ra, p, q), left = make_spec(ra, p - 1, p), right = make_spec(ra, q, q == 128 ? 130 : q + 1);
            vh::event();
            auto hm = g_lock->lock(mid.off, mid.len);
            mark(W1, mid, "lock");
            auto th = thread_enable_join(thread_create11([&] {
                for (auto* sp : {&left, &right}) {
                    set_blocked(W2, *sp, "lock(adjacent range)");
                    auto h = g_lock->lock(sp->off, sp->len);
                    clear_blocked(W2);
                    mark(W2, *sp, "lock(adjacent)");
                    c_adjacent_ok.add();
                    unmark(W2, *sp);
                    g_lock->unlock(h);
                    vh::progress();
                }
            }));
            thread_join(th);
            unmark(W1, mid);
            g_lock->unlock(hm);
            vh::progress();
        }
        // quiescence: nothing is held any more, the whole space can be locked
        g_phase.store(1);
        for (int c = 0; c < NCELL; ++c)
            if (g_cell[c].load() != 0 && vh::n_violations() == 0) vh::machinery_failure("occupancy map not empty at quiescence");
        {
            Spec whole; whole.a = 0; whole.b = 129; whole.off = 0; whole.len = UINT64_MAX;
            set_blocked(W1, whole, "lock(whole space)");
            auto h = g_lock->lock(0, UINT64_MAX);
            clear_blocked(W1);
            c_whole.add();
            mark(W1, whole, "lock(whole space)");
            unmark(W1, whole);
            g_lock->unlock(h);
            vh::progress();
        }
        if (g_edge) {
            vh::Rng rb(vh::mix(vh::args().xseed(), 77));
            // S2 and S3 both end the execution on the unchanged tree (sanitizer report / proven stuck state):
            // they alternate over the edge executions
            bool s3 = vh::args().has("scenario") ? vh::args().gets("scenario", "") == "S3" : ((vh::args().exec / 4) % 2 == 0);
            // (the driver's TSan keys carry no frames: S2's TSan report would need a blanket known key, so S2 runs in asan/plain only)
            if (vh::is_tsan() && !vh::args().has("scenario")) s3 = true;
            vh::config("last_scenario", s3 ? "S3" : "S2");
            g_phase.store(2);
            scenario_top_byte(rb);
            if (!s3) scenario_duplicate_zero_length(rb);
            else { g_phase.store(3); scenario_zero_length_value_api(rb); }
        }
    });

    uint64_t waited = vh::cov(C_RANGELOCK_WAITED);
    bool nontrivial = waited > 0 && c_adj_ok.get() + c_adj_refused.get() > 0 && nworkers >= 2;
    vh::set_sig(std::string(g_edge ? "edge" : "main") + "|v" + std::to_string(nv) + "|t" + std::to_string(tpv) + "|p" +
                    std::to_string(g_pts.size()) + "|" + vh::cov_signature({C_RANGELOCK_WAITED, C_CROSS_VCPU_WAKE}) +
                    "ref:" + std::to_string(vh::log2bucket(c_adj_refused.get())) + ",grow:" + std::to_string(vh::log2bucket(c_adj_grow.get())) +
                    ",sat:" + std::to_string(vh::log2bucket(c_saturating.get())) + ",zero:" + std::to_string(vh::log2bucket(c_zero.get())),
                nontrivial);
    vh::sample(vh::JObj().kv("section", g_edge ? "edge" : "main").kv("vcpus", nv).kv("threads_per_vcpu", tpv).kv("points", ptdesc)
                   .kv("acquired", c_acq.get()).kv("waited", waited).kv("adjust_ok", c_adj_ok.get())
                   .kv("adjust_refused", c_adj_refused.get()).kv("saturating", c_saturating.get()).kv("zero_length", c_zero.get()).str());
    return vh::finish();
}
