// C07 (part a) - lock-free ring queues driven by plain OS threads:
// LockfreeMPMCRingQueue (64-bit and 8-bit turn marks), LockfreeBatchMPMCRingQueue, LockfreeSPSCRingQueue,
// fixed and Flex forms, capacities 1(->2), 2, 4, 8, 64.
// Oracles (DESIGN.md 3, C07):
//  1. exactly once / nothing foreign: at quiescence the multiset of received values equals the multiset of values
//     whose push/send succeeded; a value whose push returned false and was abandoned must never show up;
//  2. per-producer order: for every (producer, consumer) the received sequence numbers increase (with a single
//     consumer this plus (1) means the whole per-producer sequence arrives in sending order);
//  3. capacity: L = pushed_returned - (pop_started - pop_failed_returned) is a lower bound of the true content
//     when the three monotone counters are read in the order pushed_returned, pop_failed_returned, pop_started;
//     L must never exceed capacity();
//  5. the payload of a slot is plain memory (two words that must match) ordered only by the queue's atomics:
//     TSan/ASan watch it, and a torn or stale pair is reported as a foreign value.
// Two workload styles: "poll" (consumers only use the non-blocking pop/pop_batch, producers may give up a value
// after a failed push) and "blocking" (every value is eventually pushed, consumers hold a ticket for every item
// they may block for, so that recv()/recv_batch() are only entered for items that will certainly come).
#include "vh.h"
#include <photon/common/lockfree_queue.h>
#include <emmintrin.h>

static vh::NamedCounter c_push_ok("push_ok"), c_push_false("push_returned_false"), c_pop_ok("pop_ok"),
    c_pop_false("pop_returned_false"), c_abandoned("values_abandoned_after_failed_push"), c_send("send_blocking"),
    c_recv("recv_blocking"), c_batch_push("batch_push_calls"), c_batch_pop("batch_pop_calls"),
    c_batch_partial("batch_partially_accepted"), c_cap_samples("capacity_samples"),
    c_cap_at_cap("capacity_samples_with_bound_equal_capacity"), c_turns("ring_turns"),
    c_wrapped3("executions_with_3_or_more_turns");

struct Item {
    uint64_t v, chk;
};
static inline uint64_t chk_of(uint64_t v) { return ~v * 0x9E3779B97F4A7C15ull + 0x5bd1e995; }
static inline Item mk(uint64_t p, uint64_t seq) {
    uint64_t v = (p << 32) | seq;
    return Item{v, chk_of(v)};
}

enum Pause { PAUSE_THREAD = 0, PAUSE_CPU = 1 };

struct IQ {
    virtual ~IQ() {}
    virtual size_t capacity() = 0;
    virtual bool push(const Item&) = 0;
    virtual bool pop(Item&) = 0;
    virtual void send(const Item&, int pause) = 0;
    virtual Item recv(int pause) = 0;
    virtual bool has_batch() = 0;
    virtual size_t push_batch(const Item*, size_t) { return 0; }
    virtual size_t pop_batch(Item*, size_t) { return 0; }
    virtual void send_batch(const Item*, size_t, int) {}
    virtual size_t recv_batch(Item*, size_t, int) { return 0; }
};

template <typename Q, bool BATCH, bool FLEX>
struct QW : IQ {
    Q* q;
    explicit QW(size_t c) {
        if constexpr (FLEX) q = Q::create(c);
        else q = new Q();                       // heap, exact size: ASan guards both ends of the slot array
        if (!q) vh::machinery_failure("queue allocation failed");
    }
    ~QW() override {
        if constexpr (FLEX) Q::destroy(q);
        else delete q;
    }
    size_t capacity() override { return q->capacity; }
    bool push(const Item& x) override { return q->push(x); }
    bool pop(Item& x) override { return q->pop(x); }
    void send(const Item& x, int p) override {
        if (p == PAUSE_CPU) q->template send<CPUPause>(x);
        else q->template send<ThreadPause>(x);
    }
    Item recv(int p) override {
        if (p == PAUSE_CPU) return q->template recv<CPUPause>();
        return q->template recv<ThreadPause>();
    }
    bool has_batch() override { return BATCH; }
    size_t push_batch(const Item* x, size_t n) override {
        if constexpr (BATCH) return q->push_batch(x, n);
        return 0;
    }
    size_t pop_batch(Item* x, size_t n) override {
        if constexpr (BATCH) return q->pop_batch(x, n);
        return 0;
    }
    void send_batch(const Item* x, size_t n, int p) override {
        if constexpr (BATCH) {
            if (p == PAUSE_CPU) q->template send_batch<CPUPause>(x, n);
            else q->template send_batch<ThreadPause>(x, n);
        }
    }
    size_t recv_batch(Item* x, size_t n, int p) override {
        if constexpr (BATCH) {
            if (p == PAUSE_CPU) return q->template recv_batch<CPUPause>(x, n);
            return q->template recv_batch<ThreadPause>(x, n);
        }
        return 0;
    }
};

enum Kind { K_MPMC = 0, K_MPMC8, K_BATCH, K_SPSC, K_NKIND };
static const char* kind_name[] = {"mpmc", "mpmc-mark8", "batch", "spsc"};

template <size_t N>
static IQ* make_fixed(Kind k) {
    switch (k) {
    case K_MPMC: return new QW<LockfreeMPMCRingQueue<Item, N>, false, false>(N);
    case K_MPMC8: return new QW<LockfreeMPMCRingQueue<Item, N, uint8_t>, false, false>(N);
    case K_BATCH: return new QW<LockfreeBatchMPMCRingQueue<Item, N>, true, false>(N);
    default: return new QW<LockfreeSPSCRingQueue<Item, N>, true, false>(N);
    }
}
// The fixed forms size their slot array at compile time (SLOTS_NUM) and their index arithmetic at run time
// (capacity). If the array is smaller than capacity() the queue writes behind itself as soon as it is filled:
// that is reported once, under a stable key, and the execution goes on with the next capacity, because stressing
// an object that corrupts the heap only yields arbitrary crashes.
template <typename Q>
static bool slots_cover_capacity(size_t& slots, size_t& cap) {
    Q* q = new Q();
    slots = Q::SLOTS_NUM;
    cap = q->capacity;
    delete q;
    return slots >= cap;
}
static bool check_fixed_n1(Kind k) {
    size_t slots = 0, cap = 0;
    bool ok;
    switch (k) {
    case K_MPMC: ok = slots_cover_capacity<LockfreeMPMCRingQueue<Item, 1>>(slots, cap); break;
    case K_MPMC8: ok = slots_cover_capacity<LockfreeMPMCRingQueue<Item, 1, uint8_t>>(slots, cap); break;
    case K_BATCH: ok = slots_cover_capacity<LockfreeBatchMPMCRingQueue<Item, 1>>(slots, cap); break;
    default: ok = slots_cover_capacity<LockfreeSPSCRingQueue<Item, 1>>(slots, cap); break;
    }
    if (!ok)
        vh::violation(std::string("slot-array-smaller-than-capacity:") + kind_name[k],
                      "a fixed ring queue declared with N = 1 reports capacity() 2 but owns a single slot: the second element is stored behind the object",
                      vh::JObj().kv("template_N", 1).kv("SLOTS_NUM", (uint64_t)slots).kv("capacity", (uint64_t)cap).str());
    return ok;
}
static IQ* make_queue(Kind k, bool flex, size_t c) {
    if (flex) {
        switch (k) {
        case K_MPMC: case K_MPMC8: return new QW<FlexLockfreeMPMCRingQueue<Item>, false, true>(c);
        case K_BATCH: return new QW<FlexLockfreeBatchMPMCRingQueue<Item>, true, true>(c);
        default: return new QW<FlexLockfreeSPSCRingQueue<Item>, true, true>(c);
        }
    }
    switch (c) {
    case 1: return make_fixed<1>(k);
    case 2: return make_fixed<2>(k);
    case 4: return make_fixed<4>(k);
    case 8: return make_fixed<8>(k);
    default: return make_fixed<64>(k);
    }
}

// ---------------------------------------------------------------- shared state
struct alignas(64) PadCounter { std::atomic<uint64_t> v{0}; };
static PadCounter g_pushed_ret, g_pop_started, g_pop_failed_ret, g_received;
static std::atomic<int64_t> g_tickets{0};
static std::atomic<int> g_producers_done{0}, g_consumers_done{0};
static std::atomic<uint64_t> g_total_ok{0};         // valid once all producers are done

static IQ* g_q = nullptr;
static size_t g_cap = 0;
static Kind g_kind;
static bool g_flex, g_blocking, g_allow_cpu_pause, g_one_core;
static int g_P = 1, g_C = 1;
static uint64_t g_N = 0;                            // attempts (sequence numbers) per producer
static std::string g_kname;

#define CBAR() asm volatile("" ::: "memory")

static std::string kkey(const char* what) { return std::string(what) + ":" + g_kname; }

// oracle 3
static void sample_capacity() {
    uint64_t a = g_pushed_ret.v.load(vh::MO);
    CBAR();
    uint64_t f = g_pop_failed_ret.v.load(vh::MO);
    CBAR();
    uint64_t s = g_pop_started.v.load(vh::MO);
    int64_t L = (int64_t)a - (int64_t)(s - f);
    c_cap_samples.add();
    if (L == (int64_t)g_cap) c_cap_at_cap.add();
    if (L > (int64_t)g_cap)
        vh::violation(kkey("capacity-exceeded"), "more elements were pushed and not yet popped than capacity()",
                      vh::JObj().kv("capacity", (uint64_t)g_cap).kv("lower_bound_of_content", (int64_t)L)
                          .kv("pushed_returned", a).kv("pop_failed_returned", f).kv("pop_started", s).str());
}

static inline void relax(vh::Rng& r) {
    if (g_one_core || r.chance(1, 4)) sched_yield();
    else _mm_pause();
}

struct Producer {
    int id;
    std::vector<uint8_t> ok;        // ok[seq] = 1: the push/send of (id, seq) succeeded; plain, read after join
    uint64_t n_ok = 0;
};
struct Consumer {
    int id;
    std::vector<uint64_t> log;      // received values in order of reception
    std::vector<int64_t> last;      // last sequence number seen per producer
};
static std::vector<Producer> g_prod;
static std::vector<Consumer> g_cons;

static void pushed(Producer& p, uint64_t first_seq, size_t n, vh::Rng& r) {
    CBAR();
    g_pushed_ret.v.fetch_add(n, vh::MO);
    CBAR();
    for (size_t i = 0; i < n; ++i) p.ok[first_seq + i] = 1;
    p.n_ok += n;
    vh::progress();
    if (r.chance(1, 2)) sample_capacity();
}

static void producer_main(Producer& p) {
    vh::Rng r(vh::mix(vh::args().xseed(), 1000 + p.id));
    std::vector<Item> buf(g_cap + 4);
    uint64_t seq = 0, events = 0;
    bool batch = g_q->has_batch();
    while (seq < g_N) {
        int how = r.below(10);
        int pause = (g_allow_cpu_pause && r.chance(1, 8)) ? PAUSE_CPU : PAUSE_THREAD;
        if (batch && how < 4) {
            size_t n = std::min<uint64_t>(r.range(1, g_cap + 3), g_N - seq);
            for (size_t i = 0; i < n; ++i) buf[i] = mk(p.id, seq + i);
            c_batch_push.add();
            if (g_blocking && how < 2) {
                g_q->send_batch(buf.data(), n, pause);
                pushed(p, seq, n, r);
                c_push_ok.add(n);
                events += n; seq += n;
                continue;
            }
            size_t done = 0;
            for (;;) {
                size_t w = g_q->push_batch(buf.data() + done, n - done);
                events++;
                if (w > n - done) {
                    vh::violation(kkey("batch/accepted-more-than-offered"), "push_batch returned more than n", "null");
                    w = n - done;
                }
                if (w) { pushed(p, seq + done, w, r); c_push_ok.add(w); done += w; if (done < n) c_batch_partial.add(); }
                else c_push_false.add();
                if (done == n) break;
                // the rest: retry, or (poll style only) give the values up
                if (!g_blocking && r.chance(1, 64)) { c_abandoned.add(n - done); break; }
                relax(r);
            }
            seq += n;
            continue;
        }
        Item it = mk(p.id, seq);
        if (g_blocking && how < 7 && how >= 4) {
            g_q->send(it, pause);
            c_send.add(); c_push_ok.add();
            pushed(p, seq, 1, r);
            events++; seq++;
            continue;
        }
        for (;;) {
            bool okp = g_q->push(it);
            events++;
            if (okp) { c_push_ok.add(); pushed(p, seq, 1, r); break; }
            c_push_false.add();
            if (!g_blocking && r.chance(1, 64)) { c_abandoned.add(); break; }
            relax(r);
        }
        seq++;
    }
    vh::event(events);
    g_total_ok.fetch_add(p.n_ok, std::memory_order_acq_rel);
    g_producers_done.fetch_add(1, std::memory_order_acq_rel);
}

static void got(Consumer& c, const Item& it) {
    if (it.chk != chk_of(it.v) || (it.v >> 32) >= (uint64_t)g_P || (it.v & 0xffffffffu) >= g_N) {
        vh::violation(kkey("foreign-value"), "a pop/recv returned a value that no producer ever pushed (or a torn slot)",
                      vh::JObj().kv("v", it.v).kv("chk", it.chk).kv("consumer", c.id).str());
        return;
    }
    int p = it.v >> 32;
    int64_t seq = it.v & 0xffffffffu;
    if (seq <= c.last[p])
        vh::violation(kkey("order"), "one consumer received two elements of one producer out of sending order",
                      vh::JObj().kv("producer", p).kv("consumer", c.id).kv("previous_seq", c.last[p]).kv("seq", seq).str());
    c.last[p] = seq;
    c.log.push_back(it.v);
}
static void popped(Consumer& c, const Item* x, size_t n, vh::Rng& r) {
    for (size_t i = 0; i < n; ++i) got(c, x[i]);
    g_received.v.fetch_add(n, vh::MO);
    vh::progress();
    if (r.chance(1, 4)) sample_capacity();
}

static bool take_tickets(int64_t want, int64_t& gotn) {
    int64_t cur = g_tickets.load(vh::MO);
    for (;;) {
        if (cur <= 0) return false;
        int64_t k = std::min(cur, want);
        if (g_tickets.compare_exchange_weak(cur, cur - k, vh::MO)) { gotn = k; return true; }
    }
}

static void consumer_main(Consumer& c) {
    vh::Rng r(vh::mix(vh::args().xseed(), 2000 + c.id));
    std::vector<Item> buf(g_cap + 4);
    bool batch = g_q->has_batch();
    uint64_t events = 0;
    if (!g_blocking) {
        // poll style: stop once every producer is done and everything that was pushed has been received
        for (;;) {
            bool fin = g_producers_done.load(std::memory_order_acquire) == g_P;
            if (batch && r.chance(1, 2)) {
                size_t n = r.range(1, g_cap + 3);
                g_pop_started.v.fetch_add(n, vh::MO);
                CBAR();
                size_t k = g_q->pop_batch(buf.data(), n);
                CBAR();
                c_batch_pop.add(); events++;
                if (k > n) { vh::violation(kkey("batch/returned-more-than-asked"), "pop_batch returned more than n", "null"); k = n; }
                if (n - k) g_pop_failed_ret.v.fetch_add(n - k, vh::MO);
                if (k) { c_pop_ok.add(k); popped(c, buf.data(), k, r); continue; }
                c_pop_false.add();
            } else {
                Item it;
                g_pop_started.v.fetch_add(1, vh::MO);
                CBAR();
                bool okp = g_q->pop(it);
                CBAR();
                events++;
                if (okp) { c_pop_ok.add(); popped(c, &it, 1, r); continue; }
                g_pop_failed_ret.v.fetch_add(1, vh::MO);
                c_pop_false.add();
            }
            // the pop failed; `fin` was read before it, so every successful push had returned before this pop started
            if (fin && g_received.v.load(vh::MO) >= g_total_ok.load(std::memory_order_acquire)) break;
            relax(r);
        }
    } else {
        for (;;) {
            int64_t want = batch ? (int64_t)r.range(1, g_cap + 3) : 1, k = 0;
            if (!take_tickets(want, k)) {
                if (g_received.v.load(vh::MO) >= (uint64_t)g_P * g_N) break;
                relax(r);
                continue;
            }
            int pause = (g_allow_cpu_pause && r.chance(1, 8)) ? PAUSE_CPU : PAUSE_THREAD;
            int how = r.below(10);
            size_t n = k, have = 0;
            g_pop_started.v.fetch_add(n, vh::MO);
            CBAR();
            if (n > 1 || (batch && how < 3)) {
                if (how < 5) { have = g_q->recv_batch(buf.data(), n, pause); c_recv.add(); }
                else have = g_q->pop_batch(buf.data(), n);
                c_batch_pop.add();
                if (have > n) { vh::violation(kkey("batch/returned-more-than-asked"), "pop_batch/recv_batch returned more than n", "null"); have = n; }
            } else if (how < 6) {
                buf[0] = g_q->recv(pause);
                have = 1;
                c_recv.add();
            } else {
                have = g_q->pop(buf[0]) ? 1 : 0;
            }
            CBAR();
            events++;
            if (n - have) {
                g_pop_failed_ret.v.fetch_add(n - have, vh::MO);
                g_tickets.fetch_add(n - have, vh::MO);
            }
            if (have) { c_pop_ok.add(have); popped(c, buf.data(), have, r); }
            else { c_pop_false.add(); relax(r); }
        }
    }
    vh::event(events);
    g_consumers_done.fetch_add(1, std::memory_order_acq_rel);
}

static bool on_stuck(std::string& key, std::string& what, std::string& wit) {
    uint64_t pushed_ret = g_pushed_ret.v.load(), recvd = g_received.v.load();
    int pd = g_producers_done.load(), cd = g_consumers_done.load();
    wit = vh::JObj().kv("kind", g_kname).kv("capacity", (uint64_t)g_cap).kv("style", g_blocking ? "blocking" : "poll")
              .kv("producers", g_P).kv("consumers", g_C).kv("producers_done", pd).kv("consumers_done", cd)
              .kv("pushed_returned", pushed_ret).kv("received", recvd).kv("tickets", (int64_t)g_tickets.load()).str();
    if (pd == g_P && recvd < pushed_ret) {
        // every push has returned, nothing is in flight on the producer side, yet consumers cannot get the rest
        key = kkey("lost/never-returned");
        what = "all pushes returned long ago, but some pushed elements are never returned by pop/recv";
        return true;
    }
    if (pd < g_P && recvd == pushed_ret) {
        key = kkey("stuck/push-fails-on-drained-queue");
        what = "everything pushed so far was received, yet the producers make no progress pushing";
        return true;
    }
    key = "ring-workload";
    what = "no progress: " + wit;
    return false;
}

int main(int argc, char** argv) {
    vh::init(argc, argv);
    vh::Rng r(vh::args().xseed());
    auto& A = vh::args();
    g_kind = (Kind)A.geti("kind", r.pick({(int)K_MPMC, (int)K_MPMC, (int)K_MPMC8, (int)K_BATCH, (int)K_BATCH, (int)K_SPSC}));
    g_flex = A.geti("flex", r.chance(2, 5));
    size_t creq = A.geti("cap", g_flex ? r.pick({1, 2, 3, 4, 5, 8, 64}) : r.pick({1, 2, 4, 8, 64}));
    if (g_kind == K_MPMC8 && !g_flex && creq > 8) creq = 2;    // the point of 8-bit marks is their wrap-around
    if (g_kind == K_MPMC8 && g_flex) g_kind = K_MPMC;
    g_blocking = A.geti("blocking", r.chance(1, 2));
    g_one_core = A.gets("shape", "") == "one";
    g_allow_cpu_pause = r.chance(1, 2) && A.gets("shape", "") == "";
    g_P = g_kind == K_SPSC ? 1 : A.geti("producers", r.pick({1, 2, 2, 3, 4}));
    g_C = g_kind == K_SPSC ? 1 : A.geti("consumers", r.pick({1, 1, 2, 3, 4}));
    g_N = A.geti("ops", A.thorough() ? 120000 : 24000);
    if (vh::is_tsan()) g_N /= 4;
    g_N /= A.shape_div();
    g_N = std::max<uint64_t>(g_N / g_P, 200);
    if (!g_flex && creq == 1 && !check_fixed_n1(g_kind)) creq = 2;
    g_q = make_queue(g_kind, g_flex, creq);
    g_cap = g_q->capacity();
    g_kname = std::string(g_flex ? "flex-" : "") + kind_name[g_kind];
    vh::config("kind", g_kname); vh::config("capacity_requested", creq); vh::config("capacity", g_cap);
    vh::config("style", g_blocking ? "blocking" : "poll");
    vh::config("producers", g_P); vh::config("consumers", g_C); vh::config("attempts_per_producer", g_N);
    if (g_cap < 2 || (g_cap & (g_cap - 1)) || g_cap < creq) vh::machinery_failure("unexpected capacity()");

    g_prod.resize(g_P);
    g_cons.resize(g_C);
    for (int i = 0; i < g_P; ++i) { g_prod[i].id = i; g_prod[i].ok.assign(g_N, 0); }
    for (int i = 0; i < g_C; ++i) { g_cons[i].id = i; g_cons[i].log.reserve(g_P * g_N); g_cons[i].last.assign(g_P, -1); }
    if (g_blocking) g_tickets.store((int64_t)g_P * g_N);

    using namespace photon::verif;
    vh::arm_stalls(r, {P_RING_PUSH_CLAIMED, P_RING_POP_CLAIMED, P_RING_BATCH_PUSH_CLAIMED, P_RING_BATCH_POP_CLAIMED,
                       P_SPSC_PUSH, P_SPSC_POP});
    vh::start_supervisor(on_stuck);

    std::vector<std::thread> ths;
    for (int i = 0; i < g_C; ++i) ths.emplace_back([i] { consumer_main(g_cons[i]); });
    for (int i = 0; i < g_P; ++i) ths.emplace_back([i] { producer_main(g_prod[i]); });
    for (auto& t : ths) t.join();

    // ---- quiescence: oracle 1 (and the single-consumer form of oracle 2)
    uint64_t total_ok = 0, total_recv = 0;
    std::vector<std::vector<uint8_t>> seen(g_P, std::vector<uint8_t>(g_N, 0));
    for (auto& c : g_cons) {
        total_recv += c.log.size();
        for (auto v : c.log) {
            int p = v >> 32;
            uint64_t seq = v & 0xffffffffu;
            if (seen[p][seq]++)
                vh::violation(kkey("duplicate"), "an element was returned by more than one pop/recv",
                              vh::JObj().kv("producer", p).kv("seq", seq).kv("consumer", c.id).str());
            else if (!g_prod[p].ok[seq])
                vh::violation(kkey("delivered-although-push-failed"), "a value whose push returned false was delivered",
                              vh::JObj().kv("producer", p).kv("seq", seq).kv("consumer", c.id).str());
        }
    }
    for (int p = 0; p < g_P; ++p) {
        total_ok += g_prod[p].n_ok;
        for (uint64_t s = 0; s < g_N; ++s)
            if (g_prod[p].ok[s] && !seen[p][s]) {
                vh::violation(kkey("lost"), "an element whose push/send succeeded was never returned by any pop/recv",
                              vh::JObj().kv("producer", p).kv("seq", s).kv("pushed_ok", g_prod[p].n_ok).kv("received_total", total_recv).str());
                break;
            }
    }
    Item rest;
    if (g_q->pop(rest))
        vh::violation(kkey("leftover"), "the queue still returns an element after everything pushed was received",
                      vh::JObj().kv("v", rest.v).str());
    delete g_q;

    uint64_t turns = total_ok / g_cap;
    c_turns.add(turns);
    if (turns >= 3) c_wrapped3.add();
    bool nontrivial = turns >= 3 && c_push_false.get() > 0 && c_pop_false.get() > 0 && total_recv > 0;
    vh::set_sig("ring|" + g_kname + "|c" + std::to_string(g_cap) + "|" + (g_blocking ? "blk" : "poll") + "|p" + std::to_string(g_P) +
                    "c" + std::to_string(g_C) + "|" +
                    vh::cov_signature({C_RING_PUSH_FULL, C_RING_POP_EMPTY, C_RING_BATCH_WRAP}) + "pf:" +
                    std::to_string(vh::log2bucket(c_push_false.get())) + ",part:" + std::to_string(vh::log2bucket(c_batch_partial.get())),
                nontrivial);
    vh::sample(vh::JObj().kv("kind", g_kname).kv("capacity", (uint64_t)g_cap).kv("style", g_blocking ? "blocking" : "poll")
                   .kv("producers", g_P).kv("consumers", g_C).kv("pushed_ok", total_ok).kv("received", total_recv)
                   .kv("ring_turns", turns).kv("push_false", c_push_false.get()).kv("pop_false", c_pop_false.get())
                   .kv("abandoned", c_abandoned.get()).kv("batch_wraps", vh::cov(C_RING_BATCH_WRAP))
                   .kv("capacity_samples_at_capacity", c_cap_at_cap.get()).str());
    return vh::finish();
}
