// C07 (part b) - RingChannel / FlexRingChannel over the MPMC, batch-MPMC and SPSC ring queues:
// photon consumers on 1-4 vCPUs, photon producers (send<PhotonPause>) and plain OS-thread producers
// (send<ThreadPause>, send<CPUPause>), constructor yield parameters at their extremes.
//
// The workload is demand driven: a coordinator OS thread hands out one burst at a time and does not start the
// next one before every item of the burst has been received, with idle gaps in between (consumers really go to
// sleep on the channel's semaphore) and "full" phases in which the consumers are held back so that senders back
// off on the full queue and go to sleep on the send semaphore. The tunable T_RING_RECHECK_US stretches the
// channel's periodic re-check to 3 s, so a consumer/sender that missed its notification is not silently rescued.
//
// Oracles (DESIGN.md 3, C07):
//  1. exactly once / nothing foreign (quiescence) and 2. per (producer, consumer) order - as in h_ring;
//  4. notification:
//     consumer: E_RING_RESCUE(a = channel, b = deadline D of the timed wait that expired) means recv() got its item
//       only because its timed wait expired. Violation iff the send() of the item it then popped had RETURNED more
//       than 1 s before D (send-return times are recorded per item on CLOCK_BOOTTIME, the clock D is expressed in):
//       the consumer was registered and still queued on the semaphore when that send checked for idlers.
//     sender: E_RING_RESCUE(a != channel, b = D): a send<PhotonPause> pushed only after its timed wait expired.
//       Ledger U = sends started - recvs returned (>= content + senders in flight). Violation iff U <= capacity now
//       and the last time U came down to capacity (stamped after that recv returned) is more than 1 s before D:
//       some recv that popped after this sender registered had finished notify_senders() that long before D.
//     stuck detector: no progress for >= 5 s while (a) sends have returned whose items are not received and every
//       consumer is inside recv(), or (b) U <= capacity and every unfinished producer is inside send().
//  5. payload = two plain words per slot under TSan/ASan.
#include "vh.h"
#include <photon/common/lockfree_queue.h>
#include <photon/common/timeout.h>
#include <emmintrin.h>

using namespace photon;

static vh::NamedCounter c_sent("items_sent"), c_recvd("items_received"), c_rounds("rounds"), c_full_rounds("full_queue_phases"),
    c_gap_rounds("rounds_after_idle_gap"), c_photon_sends("sends_photon_pause"), c_os_sends("sends_from_os_thread"),
    c_rescue_c("consumer_rescues_seen"), c_rescue_s("sender_rescues_seen"), c_rescue_builtin("rescues_with_builtin_period"),
    c_rescue_benign("rescues_explained_by_recent_send_or_crowding"), c_slept_observed("idle_gaps_in_which_consumers_slept"),
    c_backoff_observed("full_phases_in_which_a_sender_slept"), c_turns("ring_turns");

struct Item {
    uint64_t v, chk;
};
static inline uint64_t chk_of(uint64_t v) { return ~v * 0x9E3779B97F4A7C15ull + 0x5bd1e995; }
static inline Item mk(uint64_t v) { return Item{v, chk_of(v)}; }
constexpr uint64_t POISON_P = 0xffff;

enum { S_PHOTON = 0, S_THREAD = 1, S_CPU = 2 };

struct IChan {
    virtual ~IChan() {}
    virtual void* addr() = 0;
    virtual size_t capacity() = 0;
    virtual void send(const Item&, int how) = 0;
    virtual Item recv() = 0;
    virtual Item recv2(uint64_t turn, uint64_t usec) = 0;
    virtual uint64_t pending() = 0;
};
template <typename Q>
struct FixedChan : IChan {
    using C = photon::common::RingChannel<Q>;
    C* c;
    FixedChan(uint64_t turn, uint64_t usec, bool dflt) { c = dflt ? new C() : new C(turn, usec); }
    ~FixedChan() override { delete c; }
    void* addr() override { return c; }
    size_t capacity() override { return c->capacity; }
    void send(const Item& x, int how) override {
        if (how == S_PHOTON) c->template send<PhotonPause>(x);
        else if (how == S_CPU) c->template send<CPUPause>(x);
        else c->template send<ThreadPause>(x);
    }
    Item recv() override { return c->recv(); }
    Item recv2(uint64_t t, uint64_t u) override { return c->recv(t, u); }
    uint64_t pending() override { return c->notification_pending(); }
};
template <typename FQ>
struct FlexChan : IChan {
    using C = photon::common::FlexRingChannel<FQ>;
    C* c;
    size_t cap;
    FlexChan(size_t n, uint64_t turn, uint64_t usec, bool dflt) {
        c = dflt ? C::create(n) : C::create(n, turn, usec);
        if (!c) vh::machinery_failure("FlexRingChannel::create failed");
        cap = c->write_available();
    }
    ~FlexChan() override { C::destroy(c); }
    void* addr() override { return c; }
    size_t capacity() override { return cap; }
    void send(const Item& x, int how) override {
        if (how == S_PHOTON) c->template send<PhotonPause>(x);
        else if (how == S_CPU) c->template send<CPUPause>(x);
        else c->template send<ThreadPause>(x);
    }
    Item recv() override { return c->recv(); }
    Item recv2(uint64_t t, uint64_t u) override { return c->recv(t, u); }
    uint64_t pending() override { return c->notification_pending(); }
};

enum Kind { K_MPMC = 0, K_BATCH, K_SPSC };
static const char* kind_name[] = {"mpmc", "batch", "spsc"};

template <size_t N>
static IChan* make_fixed(Kind k, uint64_t t, uint64_t u, bool d) {
    switch (k) {
    case K_MPMC: return new FixedChan<LockfreeMPMCRingQueue<Item, N>>(t, u, d);
    case K_BATCH: return new FixedChan<LockfreeBatchMPMCRingQueue<Item, N>>(t, u, d);
    default: return new FixedChan<LockfreeSPSCRingQueue<Item, N>>(t, u, d);
    }
}
// see h_ring.cpp: a fixed queue whose slot array is smaller than capacity() is reported once and not stressed
template <typename Q>
static bool slots_cover_capacity(size_t& slots, size_t& cap) {
    Q* q = new Q();
    slots = Q::SLOTS_NUM;
    cap = q->capacity;
    delete q;
    return slots >= cap;
}
static bool check_fixed_n1(Kind k) {
    size_t slots = 0, cap = 0;
    bool ok;
    switch (k) {
    case K_MPMC: ok = slots_cover_capacity<LockfreeMPMCRingQueue<Item, 1>>(slots, cap); break;
    case K_BATCH: ok = slots_cover_capacity<LockfreeBatchMPMCRingQueue<Item, 1>>(slots, cap); break;
    default: ok = slots_cover_capacity<LockfreeSPSCRingQueue<Item, 1>>(slots, cap); break;
    }
    if (!ok)
        vh::violation(std::string("slot-array-smaller-than-capacity:") + kind_name[k],
                      "a fixed ring queue declared with N = 1 reports capacity() 2 but owns a single slot: the second element is stored behind the object",
                      vh::JObj().kv("template_N", 1).kv("SLOTS_NUM", (uint64_t)slots).kv("capacity", (uint64_t)cap).str());
    return ok;
}
static IChan* make_chan(Kind k, bool flex, size_t c, uint64_t t, uint64_t u, bool d) {
    if (flex) {
        switch (k) {
        case K_MPMC: return new FlexChan<FlexLockfreeMPMCRingQueue<Item>>(c, t, u, d);
        case K_BATCH: return new FlexChan<FlexLockfreeBatchMPMCRingQueue<Item>>(c, t, u, d);
        default: return new FlexChan<FlexLockfreeSPSCRingQueue<Item>>(c, t, u, d);
        }
    }
    switch (c) {
    case 1: return make_fixed<1>(k, t, u, d);
    case 2: return make_fixed<2>(k, t, u, d);
    case 4: return make_fixed<4>(k, t, u, d);
    case 8: return make_fixed<8>(k, t, u, d);
    default: return make_fixed<64>(k, t, u, d);
    }
}

// ---------------------------------------------------------------- state
constexpr int MAXP = 4, MAXC = 4;
constexpr uint64_t SEC = 1000000;

static IChan* g_ch = nullptr;
static size_t g_cap = 0;
static std::string g_kname;
static int g_np = 0, g_npp = 0, g_nc = 0, g_nv = 1;
static uint64_t g_max_items = 0;            // per producer
static int64_t g_recheck_us = 0;

struct alignas(64) Prod {
    int id = 0, how = S_PHOTON, vcpu = -1;      // vcpu < 0: OS thread
    std::atomic<uint32_t> quota{0};             // items to send in the current round
    std::atomic<uint32_t> poison{0};            // poison items to send in the current round
    std::atomic<uint64_t> round_seen{0};
    std::atomic<int> in_send{0};
    std::atomic<bool> finished{false};
    photon::semaphore* go = nullptr;            // photon producers sleep here between rounds
    uint64_t next_seq = 0;
    std::atomic<uint64_t>* ts = nullptr;        // send-return time of (id, seq); 0 = not returned yet
};
struct alignas(64) Cons {
    int id = 0, vcpu = 0;
    std::atomic<int> in_recv{0};
    std::atomic<bool> finished{false};
    std::vector<uint64_t> log;
    int64_t last[MAXP];
};
static Prod g_p[MAXP];
static Cons g_c[MAXC];
static std::atomic<uint64_t> g_ts_poison[MAXC];

static std::atomic<uint64_t> g_round{0};
static std::atomic<bool> g_quit{false};
static std::atomic<uint64_t> g_sent_started{0}, g_sent_ret{0}, g_recv_ret{0};
static std::atomic<uint64_t> g_W{0};            // (U << 48) | time of the last K+1 -> K transition of U (48 bits of us)
static std::atomic<bool> g_gate{false};         // full phase: consumers need a budget unit per recv
static std::atomic<int64_t> g_budget{0};
static std::atomic<int> g_started{0};

constexpr uint64_t TMASK = (1ull << 48) - 1;

static size_t g_viol0 = 0;      // violations recorded before the workload started (structural pre-check)
static bool new_violations() { return vh::n_violations() > g_viol0; }
static std::string kkey(const char* what) { return std::string(what) + ":" + g_kname; }

// ---------------------------------------------------------------- rescue events
static thread_local uint64_t tl_consumer_rescue = 0, tl_sender_rescue = 0;
static void on_event(uint32_t id, uint64_t a, uint64_t b) {
    if (id != photon::verif::E_RING_RESCUE) return;
    if ((void*)a == g_ch->addr()) tl_consumer_rescue = b;
    else tl_sender_rescue = b;
}

static void ledger_send_start() {
    g_sent_started.fetch_add(1, vh::MO);
    g_W.fetch_add(1ull << 48, vh::MO);
}
static void ledger_recv_returned() {
    uint64_t now = vh::boottime_us() & TMASK;
    uint64_t w = g_W.load(vh::MO);
    for (;;) {
        uint64_t U = w >> 48, t = w & TMASK;
        if (U == g_cap + 1) t = now;
        if (g_W.compare_exchange_weak(w, ((U - 1) << 48) | t, vh::MO)) break;
    }
    g_recv_ret.fetch_add(1, vh::MO);
}

static void after_send(Prod& p, uint64_t seq, bool poison) {
    uint64_t now = vh::boottime_us();
    if (poison) g_ts_poison[seq].store(now, vh::MO);
    else p.ts[seq].store(now, vh::MO);
    g_sent_ret.fetch_add(1, vh::MO);
    c_sent.add();
    vh::event();
    vh::progress();
    uint64_t D = tl_sender_rescue;
    if (D) {
        tl_sender_rescue = 0;
        c_rescue_s.add();
        if (D == 1) { c_rescue_builtin.add(); return; }
        uint64_t w = g_W.load(vh::MO), U = w >> 48, tu = w & TMASK;
        if (U <= g_cap && tu != 0 && tu + SEC < (D & TMASK))
            vh::violation(kkey("notification/sender-only-rescued-by-periodic-recheck"),
                          "a sender blocked on the full channel slept until its periodic timed re-check although room for it had appeared (a recv had returned) more than 1 s before the deadline",
                          vh::JObj().kv("producer", p.id).kv("deadline_us", D & TMASK).kv("ledger_fell_to_capacity_at_us", tu)
                              .kv("sends_started_minus_recvs_returned", U).kv("capacity", (uint64_t)g_cap)
                              .kv("recheck_period_us", g_recheck_us).str());
        else c_rescue_benign.add();
    }
}

static void send_one(Prod& p, bool poison, uint64_t pseq) {
    uint64_t seq = poison ? pseq : p.next_seq++;
    Item it = mk(poison ? ((POISON_P << 32) | seq) : (((uint64_t)p.id << 32) | seq));
    ledger_send_start();
    p.in_send.store(1, vh::MO);
    g_ch->send(it, p.how);
    p.in_send.store(0, vh::MO);
    if (p.how == S_PHOTON) c_photon_sends.add(); else c_os_sends.add();
    after_send(p, seq, poison);
}

static void producer_round(Prod& p, vh::Rng& r) {
    uint32_t q = p.quota.exchange(0, vh::MO), po = p.poison.exchange(0, vh::MO);
    for (uint32_t i = 0; i < q; ++i) {
        send_one(p, false, 0);
        if (p.vcpu >= 0) { if (r.chance(1, 8)) thread_yield(); }
        else if (r.chance(1, 16)) sched_yield();
    }
    for (uint32_t i = 0; i < po; ++i) send_one(p, true, i);
}

static void* photon_producer(void* arg) {
    auto& p = *(Prod*)arg;
    vh::Rng r(vh::mix(vh::args().xseed(), 3000 + p.id));
    g_started.fetch_add(1, std::memory_order_acq_rel);
    for (;;) {
        p.go->wait(1);
        if (g_quit.load(std::memory_order_acquire)) break;
        p.round_seen.store(g_round.load(std::memory_order_acquire), vh::MO);
        producer_round(p, r);
    }
    p.finished.store(true, std::memory_order_release);
    return nullptr;
}
static void os_producer(Prod& p) {
    vh::Rng r(vh::mix(vh::args().xseed(), 3000 + p.id));
    g_started.fetch_add(1, std::memory_order_acq_rel);
    uint64_t seen = 0;
    for (;;) {
        uint64_t rd = g_round.load(std::memory_order_acquire);
        if (g_quit.load(std::memory_order_acquire)) break;
        if (rd == seen) { struct timespec ts = {0, 30000}; nanosleep(&ts, nullptr); continue; }
        seen = rd;
        p.round_seen.store(rd, vh::MO);
        producer_round(p, r);
    }
    p.finished.store(true, std::memory_order_release);
}

static bool take_budget() {
    int64_t b = g_budget.load(vh::MO);
    while (b > 0)
        if (g_budget.compare_exchange_weak(b, b - 1, vh::MO)) return true;
    return false;
}

static void* consumer_main(void* arg) {
    auto& c = *(Cons*)arg;
    vh::Rng r(vh::mix(vh::args().xseed(), 5000 + c.id));
    g_started.fetch_add(1, std::memory_order_acq_rel);
    for (;;) {
        while (g_gate.load(vh::MO) && !take_budget()) thread_usleep(150);
        int v = r.below(8);
        c.in_recv.store(1, vh::MO);
        Item it;
        switch (v) {
        case 0: it = g_ch->recv2(0, 0); break;
        case 1: it = g_ch->recv2(1, 1); break;
        case 2: it = g_ch->recv2(256, 1024); break;
        default: it = g_ch->recv();
        }
        c.in_recv.store(0, vh::MO);
        uint64_t D = tl_consumer_rescue;
        tl_consumer_rescue = 0;
        ledger_recv_returned();
        vh::event();
        vh::progress();
        if (it.chk != chk_of(it.v)) {
            vh::violation(kkey("foreign-value"), "recv returned a value that was never sent (or a torn slot)",
                          vh::JObj().kv("v", it.v).kv("chk", it.chk).kv("consumer", c.id).str());
            continue;
        }
        uint64_t p = it.v >> 32, seq = it.v & 0xffffffffu;
        bool poison = p == POISON_P;
        if ((!poison && (p >= (uint64_t)g_np || seq >= g_max_items)) || (poison && seq >= (uint64_t)g_nc)) {
            vh::violation(kkey("foreign-value"), "recv returned a value that was never sent",
                          vh::JObj().kv("v", it.v).kv("consumer", c.id).str());
            continue;
        }
        if (D) {
            c_rescue_c.add();
            uint64_t ts = poison ? g_ts_poison[seq].load(vh::MO) : g_p[p].ts[seq].load(vh::MO);
            if (D == 1) c_rescue_builtin.add();
            else if (ts != 0 && ts + SEC < D)
                vh::violation(kkey("notification/consumer-only-rescued-by-periodic-recheck"),
                              "a consumer slept in recv() until its periodic timed re-check although the send() of the element it then received had returned more than 1 s before the deadline",
                              vh::JObj().kv("consumer", c.id).kv("producer", p).kv("seq", seq).kv("send_returned_at_us", ts)
                                  .kv("deadline_us", D).kv("recheck_period_us", g_recheck_us).kv("consumers", g_nc)
                                  .kv("notification_pending", g_ch->pending()).str());
            else c_rescue_benign.add();
        }
        if (poison) break;
        c_recvd.add();
        if ((int64_t)seq <= c.last[p])
            vh::violation(kkey("order"), "one consumer received two elements of one producer out of sending order",
                          vh::JObj().kv("producer", p).kv("consumer", c.id).kv("previous_seq", c.last[p]).kv("seq", seq).str());
        c.last[p] = seq;
        c.log.push_back(it.v);
        switch (r.below(16)) {
        case 0: thread_yield(); break;
        case 1: thread_usleep(r.range(1, 80)); break;
        default: break;
        }
    }
    c.finished.store(true, std::memory_order_release);
    return nullptr;
}

// ---------------------------------------------------------------- coordinator (OS thread)
static void os_sleep_us(uint64_t us) {
    struct timespec ts = {(time_t)(us / 1000000), (long)(us % 1000000) * 1000};
    nanosleep(&ts, nullptr);
}
template <typename F>
static void wait_until(F cond) {
    for (int spin = 0; !cond(); ++spin) {
        if (new_violations()) { os_sleep_us(200); if (spin > 20000) return; }
        if (spin < 50) _mm_pause(); else os_sleep_us(spin < 500 ? 20 : 200);
    }
}
static void publish_round() {
    g_round.fetch_add(1, std::memory_order_acq_rel);
    for (int i = 0; i < g_np; ++i)
        if (g_p[i].go && (g_p[i].quota.load(vh::MO) || g_p[i].poison.load(vh::MO))) g_p[i].go->signal(1);
}
static void spread_quota(vh::Rng& r, uint64_t total, uint64_t* left) {
    // hand `total` items to producers that still have sequence numbers left
    uint32_t q[MAXP] = {0};
    for (uint64_t i = 0; i < total; ++i) {
        int p = r.below(g_np);
        for (int k = 0; k < g_np && left[p] == 0; ++k) p = (p + 1) % g_np;
        if (left[p] == 0) break;
        left[p]--; q[p]++;
    }
    for (int p = 0; p < g_np; ++p) g_p[p].quota.store(q[p], vh::MO);
}

static void coordinator(uint64_t rounds) {
    using namespace photon::verif;
    vh::Rng r(vh::mix(vh::args().xseed(), 77));
    uint64_t left[MAXP];
    for (int p = 0; p < g_np; ++p) left[p] = g_max_items;
    wait_until([] { return g_started.load(std::memory_order_acquire) == g_np + g_nc; });
    int style = r.below(4);         // 0: mostly back-to-back, 1: mostly gaps, 2/3: mixed
    vh::config("round_style", style);
    for (uint64_t rd = 0; rd < rounds && !new_violations(); ++rd) {
        uint64_t remaining = 0;
        for (int p = 0; p < g_np; ++p) remaining += left[p];
        if (remaining == 0) break;
        bool full_phase = g_npp > 0 && r.chance(1, 6);
        uint64_t base_sent = g_sent_ret.load(vh::MO);
        c_rounds.add();
        if (!full_phase) {
            uint64_t burst = r.pick<uint64_t>({1, 1, 1, 2, r.range(1, g_cap), r.range(1, 2 * g_cap + 3)});
            burst = std::min(burst, remaining);
            spread_quota(r, burst, left);
            publish_round();
            // demand driven: nothing more is sent before every item of this burst has been received
            wait_until([&] { return g_recv_ret.load(vh::MO) >= base_sent + burst; });
        } else {
            // hold the consumers back, let the producers run into the full queue and go to sleep, then release
            c_full_rounds.add();
            g_budget.store(0, vh::MO);
            g_gate.store(true, std::memory_order_release);
            uint64_t burst = std::min<uint64_t>(g_cap + g_nc + g_np + r.below(4), remaining);
            spread_quota(r, burst, left);
            uint64_t bo0 = vh::cov(C_RINGCHAN_SENDER_BACKOFF);
            publish_round();
            // wait until nothing moves any more: all sends started that can start, consumers parked at the gate
            uint64_t last = ~0ull, stable_since = vh::mono_ns();
            uint64_t min_gap_ns = r.pick<uint64_t>({2, 5, 20, 60}) * 1000000ull;
            for (;;) {
                uint64_t cur = g_sent_started.load(vh::MO) * 1000003 + g_sent_ret.load(vh::MO) * 1009 + g_recv_ret.load(vh::MO);
                uint64_t now = vh::mono_ns();
                if (cur != last) { last = cur; stable_since = now; }
                bool all_sent = g_sent_ret.load(vh::MO) >= base_sent + burst;
                bool slept = vh::cov(C_RINGCHAN_SENDER_BACKOFF) > bo0;
                if (now - stable_since >= min_gap_ns && (all_sent || slept || now - stable_since >= 80000000ull)) break;
                if (new_violations()) break;
                os_sleep_us(300);
            }
            if (vh::cov(C_RINGCHAN_SENDER_BACKOFF) > bo0) c_backoff_observed.add();
            // release: sometimes in instalments (a few recvs, a pause, then the rest)
            if (r.chance(1, 2)) {
                uint64_t outstanding = g_sent_started.load(vh::MO) - g_recv_ret.load(vh::MO);
                uint64_t m = std::min<uint64_t>(r.range(1, g_cap), outstanding > 1 ? outstanding - 1 : 0);
                uint64_t base_recv = g_recv_ret.load(vh::MO);
                g_budget.store((int64_t)m, vh::MO);
                // recvs already inside recv() when the gate closed take no budget: wait for the budget to be used up
                wait_until([&] { return g_budget.load(vh::MO) <= 0 || g_recv_ret.load(vh::MO) >= base_recv + m + g_nc; });
                os_sleep_us(r.pick<uint64_t>({0, 500, 3000}));
            }
            g_gate.store(false, std::memory_order_release);
            wait_until([&] { return g_sent_ret.load(vh::MO) >= base_sent + burst && g_recv_ret.load(vh::MO) >= base_sent + burst; });
        }
        // idle gap
        bool gap = style == 0 ? r.chance(1, 16) : style == 1 ? r.chance(3, 4) : r.chance(1, 4);
        if (gap) {
            uint64_t t0 = vh::mono_ns(), maxw = r.pick<uint64_t>({300, 2000, 8000, 25000}) * 1000ull;
            // long enough for the consumers to leave their yield phase and go to sleep (bounded; a scheduling hint only:
            // waits entered minus waits ended by a signal = consumers asleep now, as long as no wait timed out)
            auto asleep = [] { return (int64_t)vh::cov(C_RINGCHAN_CONSUMER_SLEPT) - (int64_t)vh::cov(C_RINGCHAN_CONSUMER_SIGNALLED); };
            while (vh::mono_ns() - t0 < maxw && asleep() < g_nc) os_sleep_us(100);
            if (asleep() >= g_nc) { c_slept_observed.add(); os_sleep_us(r.pick<uint64_t>({0, 100, 1000})); }
            c_gap_rounds.add();
        }
    }
    // final round: one poison per consumer
    uint64_t base_recv = g_recv_ret.load(vh::MO);
    g_p[0].poison.store(g_nc, vh::MO);
    publish_round();
    wait_until([&] { return g_recv_ret.load(vh::MO) >= base_recv + (uint64_t)g_nc; });
    g_quit.store(true, std::memory_order_release);
    g_round.fetch_add(1, std::memory_order_acq_rel);
    for (int i = 0; i < g_np; ++i) if (g_p[i].go) g_p[i].go->signal(1);
}

static bool on_stuck(std::string& key, std::string& what, std::string& wit) {
    uint64_t ss = g_sent_started.load(), sr = g_sent_ret.load(), rr = g_recv_ret.load(), U = g_W.load() >> 48;
    int cin = 0, cfin = 0, pin = 0, pfin = 0;
    for (int i = 0; i < g_nc; ++i) { cin += g_c[i].in_recv.load(); cfin += g_c[i].finished.load(); }
    for (int i = 0; i < g_np; ++i) { pin += g_p[i].in_send.load(); pfin += g_p[i].finished.load(); }
    wit = vh::JObj().kv("kind", g_kname).kv("capacity", (uint64_t)g_cap).kv("sends_started", ss).kv("sends_returned", sr)
              .kv("recvs_returned", rr).kv("consumers", g_nc).kv("consumers_in_recv", cin).kv("consumers_finished", cfin)
              .kv("producers", g_np).kv("producers_in_send", pin).kv("gate_closed", g_gate.load())
              .kv("budget", (int64_t)g_budget.load()).kv("notification_pending", g_ch->pending())
              .kv("recheck_period_us", g_recheck_us).str();
    if (sr > rr && cin == g_nc - cfin && cin > 0) {
        key = kkey("stuck/items-queued-all-consumers-blocked");
        what = "sends have returned whose elements are not received, yet every consumer stays blocked in recv()";
        return true;
    }
    if (pin > 0 && pin == (int)(ss - sr) && U <= g_cap && !g_gate.load()) {
        key = kkey("stuck/room-available-all-senders-blocked");
        what = "there is room for every started send, yet the senders stay blocked in send()";
        return true;
    }
    key = "ringchan-workload";
    what = "no progress: " + wit;
    return false;
}

int main(int argc, char** argv) {
    vh::init(argc, argv);
    auto& A = vh::args();
    vh::Rng r(A.xseed());
    Kind kind = (Kind)A.geti("kind", r.pick({(int)K_MPMC, (int)K_MPMC, (int)K_MPMC, (int)K_BATCH, (int)K_BATCH, (int)K_SPSC}));
    bool flex = A.geti("flex", r.chance(1, 2));
    size_t creq = A.geti("cap", flex ? r.pick({1, 2, 3, 4, 8, 64}) : r.pick({1, 2, 2, 4, 8, 64}));
    bool dflt = r.chance(1, 6);                                   // default constructor: 1024 / 1024
    uint64_t turn = A.geti("yield_turn", r.pick({0, 0, 1, 1024}));
    uint64_t usec = A.geti("yield_usec", r.pick({0, 1, 1024, 1024}));
    g_nv = A.geti("vcpus", r.pick({1, 2, 2, 3, 4}));
    g_nc = kind == K_SPSC ? 1 : A.geti("consumers", r.pick({1, 1, 2, 3, 4}));
    g_npp = A.geti("photon_producers", r.pick({0, 1, 1, 2, 3}));
    int nop = A.geti("os_producers", r.pick({0, 1, 1, 2}));
    if (kind == K_SPSC) { if (g_npp) { g_npp = 1; nop = 0; } else { nop = 1; } }
    if (g_npp + nop == 0) g_npp = 1;
    if (g_npp + nop > MAXP) nop = MAXP - g_npp;
    g_np = g_npp + nop;
    bool engine = r.chance(1, 2);
    bool allow_cpu = A.gets("shape", "") == "";
    g_recheck_us = A.geti("recheck_us", r.chance(7, 8) ? 3000000 : 0);
    uint64_t rounds = A.geti("rounds", A.thorough() ? 2500 : 500);
    if (vh::is_tsan()) rounds /= 4;
    rounds /= A.shape_div();
    rounds = std::max<uint64_t>(rounds, 30);

    if (!flex && creq == 1 && !check_fixed_n1(kind)) creq = 2;
    g_viol0 = vh::n_violations();
    g_ch = make_chan(kind, flex, creq, turn, usec, dflt);
    g_cap = g_ch->capacity();
    g_kname = std::string(flex ? "flex-" : "") + kind_name[kind];
    if (g_cap < 2 || (g_cap & (g_cap - 1)) || g_cap < creq) vh::machinery_failure("unexpected capacity");
    g_max_items = rounds * (2 * g_cap + 8);
    for (int i = 0; i < g_np; ++i) {
        auto& p = g_p[i];
        p.id = i;
        if (i < g_npp) { p.how = S_PHOTON; p.vcpu = (g_nc + i) % g_nv; p.go = new photon::semaphore(0); }
        else { p.how = (allow_cpu && r.chance(1, 4)) ? S_CPU : S_THREAD; p.vcpu = -1; }
        p.ts = new std::atomic<uint64_t>[g_max_items];
        for (uint64_t k = 0; k < g_max_items; ++k) p.ts[k].store(0, vh::MO);
    }
    for (int i = 0; i < g_nc; ++i) {
        g_c[i].id = i; g_c[i].vcpu = i % g_nv;
        g_c[i].log.reserve(4096);
        for (auto& l : g_c[i].last) l = -1;
        g_ts_poison[i].store(0);
    }
    vh::config("kind", g_kname); vh::config("capacity", g_cap); vh::config("vcpus", g_nv); vh::config("consumers", g_nc);
    vh::config("photon_producers", g_npp); vh::config("os_producers", nop);
    vh::config("yield", dflt ? "default" : std::to_string(turn) + "/" + std::to_string(usec));
    vh::config("recheck_us", g_recheck_us); vh::config("rounds", rounds); vh::config("event_engine", engine);

    using namespace photon::verif;
    g_hooks.tunable[T_RING_RECHECK_US].store(g_recheck_us);
    g_hooks.event = &on_event;
    vh::arm_stalls(r, {P_RINGCHAN_SEND_AFTER_PUSH, P_RINGCHAN_RECV_BEFORE_IDLE, P_RING_PUSH_CLAIMED, P_RING_POP_CLAIMED,
                       P_RING_BATCH_PUSH_CLAIMED, P_RING_BATCH_POP_CLAIMED, P_SPSC_PUSH, P_SPSC_POP});

    std::vector<std::thread> os;
    for (int i = g_npp; i < g_np; ++i) os.emplace_back([i] { os_producer(g_p[i]); });
    std::thread coord([rounds] { coordinator(rounds); });
    vh::VCpus vc;
    vc.run(g_nv, nullptr, [&](int v) {
        if (v == 0) vh::start_supervisor(on_stuck);     // all vCPUs are online (start-up alone can take seconds under load)
        std::vector<join_handle*> jh;
        for (int i = 0; i < g_nc; ++i)
            if (g_c[i].vcpu == v) jh.push_back(thread_enable_join(thread_create(consumer_main, &g_c[i], 256 * 1024)));
        for (int i = 0; i < g_npp; ++i)
            if (g_p[i].vcpu == v) jh.push_back(thread_enable_join(thread_create(photon_producer, &g_p[i], 256 * 1024)));
        for (auto h : jh) thread_join(h);
    }, [&](int) { if (engine && photon::fd_events_init(photon::INIT_EVENT_EPOLL) < 0) vh::machinery_failure("fd_events_init failed"); },
       [&](int) { if (engine) photon::fd_events_fini(); });
    coord.join();
    for (auto& t : os) t.join();

    // ---- quiescence: exactly once
    uint64_t total_recv = 0, total_sent = 0;
    std::vector<std::vector<uint8_t>> seen(g_np);
    for (int p = 0; p < g_np; ++p) { seen[p].assign(g_p[p].next_seq, 0); total_sent += g_p[p].next_seq; }
    for (int ci = 0; ci < g_nc; ++ci) {
        auto& c = g_c[ci];
        total_recv += c.log.size();
        for (auto v : c.log) {
            int p = v >> 32;
            uint64_t seq = v & 0xffffffffu;
            if (seq >= g_p[p].next_seq)
                vh::violation(kkey("foreign-value"), "recv returned a sequence number that was never sent", vh::JObj().kv("producer", p).kv("seq", seq).str());
            else if (seen[p][seq]++)
                vh::violation(kkey("duplicate"), "an element was received more than once",
                              vh::JObj().kv("producer", p).kv("seq", seq).kv("consumer", c.id).str());
        }
    }
    if (!new_violations() || total_recv != total_sent)
        for (int p = 0; p < g_np; ++p)
            for (uint64_t s = 0; s < g_p[p].next_seq; ++s)
                if (!seen[p][s]) {
                    vh::violation(kkey("lost"), "an element whose send() returned was never received",
                                  vh::JObj().kv("producer", p).kv("seq", s).kv("sent", total_sent).kv("received", total_recv).str());
                    break;
                }
    uint64_t pend = g_ch->pending();
    vh::stop_supervisor();          // on_stuck() reads the channel
    delete g_ch;

    c_turns.add(total_sent / g_cap);
    uint64_t slept = vh::cov(C_RINGCHAN_CONSUMER_SLEPT), signalled = vh::cov(C_RINGCHAN_CONSUMER_SIGNALLED),
             backoff = vh::cov(C_RINGCHAN_SENDER_BACKOFF);
    bool nontrivial = total_sent / g_cap >= 3 && slept > 0 && signalled > 0;
    vh::set_sig("chan|" + g_kname + "|c" + std::to_string(g_cap) + "|v" + std::to_string(g_nv) + "c" + std::to_string(g_nc) + "pp" +
                    std::to_string(g_npp) + "op" + std::to_string(nop) + "|y" + (dflt ? "d" : std::to_string(turn) + "/" + std::to_string(usec)) +
                    "|rc" + std::to_string(g_recheck_us != 0) + "|" +
                    vh::cov_signature({C_RINGCHAN_CONSUMER_SIGNALLED, C_RINGCHAN_SENDER_BACKOFF, C_RINGCHAN_RESCUE}),
                nontrivial);
    vh::sample(vh::JObj().kv("kind", g_kname).kv("capacity", (uint64_t)g_cap).kv("vcpus", g_nv).kv("consumers", g_nc)
                   .kv("photon_producers", g_npp).kv("os_producers", nop).kv("yield", dflt ? "default" : std::to_string(turn) + "/" + std::to_string(usec))
                   .kv("recheck_us", g_recheck_us).kv("sent", total_sent).kv("received", total_recv).kv("rounds", c_rounds.get())
                   .kv("full_phases", c_full_rounds.get()).kv("consumer_slept", slept).kv("consumer_signalled", signalled)
                   .kv("sender_backoff_sleeps", backoff).kv("rescues", vh::cov(C_RINGCHAN_RESCUE))
                   .kv("notification_pending_at_end", pend).str());
    return vh::finish();
}
