// C11 - RPC stub: each call gets its own response or an error; no access after it returns.
//
// One execution = a seeded sequence of rounds. Each round: a fresh real Stub (new_rpc_stub) on an in-memory duplex
// stream (class End below, socket-like: blocking reads with the stream timeout, EOF/reset, shutdown), K = 2..32
// concurrent caller photon threads on this one vCPU, and a peer:
//   peer A - the real Skeleton (new_skeleton) serving the other end, handler delays => out-of-order completion,
//            the wire fragments its writes at seeded offsets;
//   peer B - a scripted protocol adversary: parses requests, answers in seeded permutations, fragments responses at
//            arbitrary offsets with photon sleeps placed relative to individual callers' deadlines, closes at byte k,
//            sends unknown / duplicate / late tags.
// The request payload names (caller, call#) and the fate the caller chose; expected response = expansion of the request
// to a seeded length. Request/response buffers and iovectors are heap objects of exact size, freed right after the call
// returned (no yield in between); the calling thread may exit right after (its malloc-ed stack is then freed).
//
// Oracles (DESIGN.md 3, C11):
//  1 success => ret == length and bytes == the response of THIS request
//  2 failure => negative return, errno set (1 keeps holding for all other calls)
//  3 no access after return: the library's E_OOO_COLLECT_BEGIN..END interval for a tag and E_RPC_BODY_BEGIN..END
//    interval for a response iovector must neither be open at, nor start after, the "call returned" mark of the call
//    that owns the tag / iovector; the body must go into the iovector of the call that owns the tag; plus ASan
//  4 get_queue_count()==0 at quiescence of every round; stuck detector (supervisor).
//
// Sub-workloads (one per execution, so that the two reproduced defects do not hide everything else):
//  benign   - no follower deadline can fall inside a collect interval: short deadlines are only given to calls whose response
//             is withheld until the call has really returned, while a long-lived leader (its answer is held back by the peer)
//             keeps the followers parked; no response can overtake its request. Must be completely clean.
//  straddle - (exec % 8 == 3) a follower's deadline is aimed between header and body / mid-body.
//  early    - (exec % 8 == 7) the stream's writev returns only some time after the last byte is out (zero-copy style), so a
//             response can arrive before the request's send has returned.
// The monitor fires at the "call returned" mark, before anything is freed; the execution then reports and ends (continuing
// would let the leader scribble on freed memory and kill the process under ASan with an unstable report).
#include "vh.h"
#include <photon/rpc/rpc.h>
#include <photon/common/iovector.h>
#include <photon/common/timeout.h>
#include <photon/common/stream.h>
#include <photon/thread/stack-allocator.h>
#include <sys/mman.h>
#include <unordered_map>
#include <new>

using namespace photon;
namespace pv = photon::verif;

static vh::NamedCounter c_calls("calls"), c_ok("calls_ok"), c_failed("calls_failed"), c_fail_timedout("fail_ETIMEDOUT"),
    c_fail_reset("fail_ECONNRESET"), c_fail_fault("fail_EFAULT"), c_fail_other("fail_other_errno"),
    c_rounds("rounds"), c_rounds_a("rounds_peer_skeleton"), c_rounds_b("rounds_peer_script"), c_conn_dead("rounds_connection_died"),
    c_collect_other("collected_by_other_caller"), c_collect_self("collected_by_self"),
    c_park_timeout("park_timeout_calls"), c_tiny("tiny_deadline_calls"),
    c_straddle_aimed("straddle_aimed"), c_straddle_hit("follower_timeout_inside_body"), c_straddle_leader_first("straddle_leader_timed_out_first"),
    c_straddle_missed("straddle_missed"),
    c_unknown_sent("unknown_tag_sent"), c_dup_sent("duplicate_tag_sent"), c_late_sent("late_response_sent"),
    c_dropped_ret("responses_dropped_caller_gone"), c_badmagic("bad_magic_sent"),
    c_close_hdr("close_mid_header"), c_close_between("close_between_header_and_body"), c_close_body("close_mid_body"),
    c_close_boundary("close_at_message_boundary"), c_close_a("close_by_wire_peer_skeleton"),
    c_body_err("stream_error_mid_body"), c_hdr_partial_deadline("partial_header_across_deadline"),
    c_leader_hdr_timeout("leader_header_read_timed_out"), c_early_resp("response_before_send_returned"), c_overtaken_hit("overtaken_call_returned_inside_body"), c_overtaken_lost("overtaken_call_failed_after_collect"),
    c_thread_exit("caller_thread_exited_after_call"), c_resp_alloc("response_allocated_by_stub"), c_resp_split("response_split_buffers"),
    c_frag("wire_fragments"), c_big("big_responses"), c_zero("zero_length_responses"), c_nofront("request_without_front_room"),
    c_req_checked("requests_checked_by_peer");

// ---------------------------------------------------------------- deterministic expansion
static inline uint64_t sm64(uint64_t z) {
    z += 0x9E3779B97F4A7C15ull;
    z = (z ^ (z >> 30)) * 0xBF58476D1CE4E5B9ull;
    z = (z ^ (z >> 27)) * 0x94D049BB133111EBull;
    return z ^ (z >> 31);
}
static void expand(uint64_t seed, char* dst, size_t n) {
    size_t i = 0;
    for (; i + 8 <= n; i += 8) { uint64_t v = sm64(seed + (i >> 3)); memcpy(dst + i, &v, 8); }
    if (i < n) { uint64_t v = sm64(seed + (i >> 3)); memcpy(dst + i, &v, n - i); }
}
// -1 = the first n bytes of the buffers equal the expansion; otherwise the first offending offset
static ssize_t check_expand(uint64_t seed, const struct iovec* iov, int cnt, size_t n) {
    size_t off = 0;
    uint64_t v = 0;
    for (int i = 0; i < cnt && off < n; ++i) {
        auto p = (const uint8_t*)iov[i].iov_base;
        for (size_t j = 0; j < iov[i].iov_len && off < n; ++j, ++off) {
            if ((off & 7) == 0 || j == 0) v = sm64(seed + (off >> 3));
            if (p[j] != (uint8_t)(v >> ((off & 7) * 8))) return (ssize_t)off;
        }
    }
    return off < n ? (ssize_t)off : -1;
}

// ---------------------------------------------------------------- request payload, ledger
static const uint32_t REQ_MAGIC = 0xC11C11C1;
enum Fate : uint16_t { FT_OK = 0, FT_HOLD, FT_DROP, FT_TINY, FT_LATE, FT_STR_HB, FT_STR_MID, FT_STR_HDR, FT_NFATE };
static const char* fate_name[] = {"ok", "hold", "drop", "tiny-deadline", "late", "straddle-header-body", "straddle-mid-body",
                                  "partial-header-across-deadline"};
struct ReqHead {
    uint32_t magic;
    uint16_t caller, fate;
    uint32_t callno, rlen;      // rlen = length of the response the server has to produce
    uint64_t rseed;
    uint64_t deadline;          // absolute, photon clock; 0 = none
    uint64_t t1, t2;            // fate parameters (absolute times)
    uint32_t cut, plen;         // cut: bytes of header+body sent before the pause; plen: payload length
    uint32_t round, recidx;
};
static uint64_t resp_seed(const ReqHead& h) { return sm64(h.rseed ^ 0x5E5E5E5Eull ^ ((uint64_t)h.caller << 48) ^ h.callno); }
static uint64_t fill_seed(const ReqHead& h) { return sm64(h.rseed ^ 0xF1F1F1F1ull); }

struct Rec {                    // the harness's ledger entry of one call
    uint32_t round = 0, caller = 0, callno = 0, rlen = 0;
    uint16_t fate = 0;
    uint64_t tag = 0, rseed = 0, deadline = 0, t1 = 0, t2 = 0;
    iovector *req = nullptr, *resp = nullptr;
    std::atomic<int> state{0};          // 0 new, 1 inside do_call, 2 returned
    std::atomic<int> collect_open{0}, body_open{0}, collect_done{0};
    std::atomic<uint64_t> deadline_rt{0};   // deadline on CLOCK_BOOTTIME (for the stuck detector), 0 = none
    int ret = 0, err = 0;
    bool overtaken = false;             // its response was being collected before the send of its request had returned
    uint64_t t_call = 0, t_ret = 0;
};
constexpr uint32_t MAXRECS = 1u << 16;
static Rec* g_recs = nullptr;
static std::atomic<uint32_t> g_nrecs{0}, g_round_first{0};

struct Round;
static Round* g_R = nullptr;
static std::atomic<const char*> g_phase{"start"};     // breadcrumb for the stuck detector
static std::unordered_map<thread*, Rec*> g_th2rec;     // caller thread -> its call in progress
static std::string g_mode_name = "benign";
static uint64_t g_sizes_seen = 0;

// ---------------------------------------------------------------- event ring (library hooks)
struct Ev { uint32_t id; uint64_t a, b; };
constexpr uint32_t RING = 1u << 12;
static Ev g_ring[RING];
static std::atomic<uint64_t> g_ring_idx{0};
static const char* ev_name(uint32_t id) {
    switch (id) {
    case pv::E_OOO_COLLECT_BEGIN: return "collect_begin";
    case pv::E_OOO_COLLECT_END: return "collect_end";
    case pv::E_RPC_BODY_BEGIN: return "body_begin";
    case pv::E_RPC_BODY_END: return "body_end";
    case 1000: return "call";
    case 1001: return "return";
    }
    return "?";
}
static inline void ring_put(uint32_t id, uint64_t a, uint64_t b) {
    auto i = g_ring_idx.fetch_add(1, vh::MO);
    auto& e = g_ring[i & (RING - 1)];
    e.id = id; e.a = a; e.b = b;
}
static std::string rec_json(Rec* r) {
    if (!r) return "null";
    return vh::JObj().kv("round", r->round).kv("caller", r->caller).kv("call", r->callno).kv("tag", r->tag)
        .kv("fate", fate_name[r->fate]).kv("response_len", r->rlen).kv("state", r->state.load(vh::MO))
        .kv("collect_open", r->collect_open.load(vh::MO)).kv("body_open", r->body_open.load(vh::MO))
        .kv("collected", r->collect_done.load(vh::MO)).kv("ret", r->ret).kv("errno", r->err)
        .kv("deadline", r->deadline).kv("t_call", r->t_call).kv("t_return", r->t_ret).str();
}
static std::string witness(Rec* r, Rec* other = nullptr) {
    vh::JArr evs;
    uint64_t end = g_ring_idx.load(vh::MO), n = std::min<uint64_t>(end, 24);
    for (uint64_t i = end - n; i < end; ++i) {
        auto& e = g_ring[i & (RING - 1)];
        // a/b are tags, pointers: print the tag-like member only
        bool body = e.id == pv::E_RPC_BODY_BEGIN || e.id == pv::E_RPC_BODY_END;
        evs.raw(vh::JObj().kv("ev", ev_name(e.id)).kv("tag", body ? e.b : e.a).str());
    }
    vh::JObj o;
    o.raw("call", rec_json(r));
    if (other) o.raw("other_call", rec_json(other));
    o.kv("mode", g_mode_name).raw("last_events", evs.str());
    return o.str();
}

static void finalize_signature();
// report and end the execution: continuing would let the library touch memory the harness is about to free
[[noreturn]] static void fatal(const std::string& key, const std::string& what, Rec* r, Rec* other = nullptr) {
    vh::violation(key, what, witness(r, other));
    finalize_signature();
    vh::finish();
    fflush(stderr);
    _exit(10);
}

// ---------------------------------------------------------------- the wire and its two ends
struct Wire {           // one direction
    std::string q;
    size_t rpos = 0;
    bool eof = false, rst = false, reader_gone = false;
    condition_variable cv;
    size_t avail() const { return q.size() - rpos; }
    void put(const void* p, size_t n) {
        if (eof || rst || !n) return;
        q.append((const char*)p, n);
        cv.notify_all();
    }
    size_t take(void* dst, size_t n) {
        n = std::min(n, avail());
        memcpy(dst, q.data() + rpos, n);
        rpos += n;
        if (rpos == q.size()) { q.clear(); rpos = 0; }
        return n;
    }
    void close_eof() { eof = true; cv.notify_all(); }
    void close_rst() { rst = true; cv.notify_all(); }
};

static void sleep_until(uint64_t t) {       // photon clock; sleeps may be cut short by interrupts: loop
    for (int i = 0; i < 100000; ++i) {
        uint64_t n = photon::now;
        if (n >= t) return;
        thread_usleep(t - n);
    }
}

struct Round {
    uint32_t idx = 0;
    int K = 0, peer = 1, mode = 0;
    bool per_wait = false, thread_per_call = false;
    int send_mode = 0;                  // stub-side writev: 0 at once, 1 two pieces with a yield, 2 sleeps after the last byte
    uint32_t calls_per_caller = 0;
    int p_special = 0;                  // x/16 of non-anchor calls try a short-deadline fate
    Wire up, down;                      // stub -> peer, peer -> stub
    rpc::Stub* stub = nullptr;
    std::vector<Rec*> by_tag;
    Rec* reader = nullptr;              // the call whose thread last entered a read on the stub's stream (the leader)
    Rec* sending = nullptr;             // the call whose request is being written right now
    int callers_done = 0;
    condition_variable done_cv;
    uint32_t first_rec = 0;
    bool dead() const { return down.eof || down.rst || up.eof || up.reader_gone || down.reader_gone; }
};
enum { M_PLAIN = 0, M_HOLD = 1, M_STRADDLE = 2, M_EARLY = 3 };

struct End : public IStream {
    Wire *in = nullptr, *out = nullptr;
    Round* R = nullptr;
    uint64_t m_tmo = -1;
    bool per_wait = false, shut = false, is_stub = false;
    int frag_mode = 0;                  // outgoing: 0 whole, 1 pieces separated by yields, 2 by short sleeps
    int64_t cut_after = -1;             // close after this many outgoing bytes (peer A "closes at byte k")
    uint64_t sent = 0;
    vh::Rng frng{1};

    void do_shutdown() {
        if (shut) return;
        shut = true;
        out->close_eof();
        in->reader_gone = true;
        in->cv.notify_all();
    }
    int close() override { do_shutdown(); return 0; }
    int shutdown(ShutdownHow) override { do_shutdown(); return 0; }
    uint64_t timeout() const override { return m_tmo; }
    void timeout(uint64_t t) override { m_tmo = t; }

    ssize_t do_read(const struct iovec* iov, int cnt) {
        size_t want = 0;
        for (int i = 0; i < cnt; ++i) want += iov[i].iov_len;
        if (is_stub) {
            auto it = g_th2rec.find(CURRENT);
            R->reader = it == g_th2rec.end() ? nullptr : it->second;
        }
        uint64_t tmo_us = m_tmo;        // like a socket: the value at the start of the operation
        Timeout tmo(tmo_us);
        size_t done = 0, off = 0;
        int i = 0;
        while (i < cnt) {
            if (off == iov[i].iov_len) { ++i; off = 0; continue; }
            if (shut) return 0;
            if (in->avail()) {
                size_t n = in->take((char*)iov[i].iov_base + off, iov[i].iov_len - off);
                done += n; off += n;
                if (per_wait) tmo = Timeout(tmo_us);
                continue;
            }
            if (in->rst) { errno = ECONNRESET; return -1; }
            if (in->eof) return (ssize_t)done;
            int r = in->cv.wait_no_lock(tmo);
            if (r < 0) {
                int e = errno;
                if (in->avail() || in->eof || in->rst || shut) continue;
                if (e == ETIMEDOUT) {
                    if (is_stub && want == sizeof(rpc::Header)) c_leader_hdr_timeout.add();
                    errno = ETIMEDOUT;
                    return -1;
                }
                errno = e;              // interrupted
                return -1;
            }
        }
        return (ssize_t)done;
    }
    void tap(const std::string& msg);
    ssize_t do_write(const struct iovec* iov, int cnt) {
        if (shut || out->eof || out->reader_gone) { errno = EPIPE; return -1; }
        std::string msg;
        for (int i = 0; i < cnt; ++i) msg.append((const char*)iov[i].iov_base, iov[i].iov_len);
        if (is_stub) tap(msg);
        struct Unmark { End* e; ~Unmark() { if (e->is_stub) e->R->sending = nullptr; } } unmark{this};
        size_t n = msg.size(), pos = 0;
        bool truncated = false;
        if (cut_after >= 0 && sent + n >= (uint64_t)cut_after) { n = (size_t)(cut_after - sent); truncated = true; }
        int pieces = 1;
        if (is_stub) pieces = (R->send_mode == 1 && n > 1) ? 2 : 1;
        else if (frag_mode && n > 1) pieces = (int)frng.pick({1, 2, 2, 3, 4, 6});
        while (pos < n) {
            size_t len = n - pos;
            if (pieces > 1) {
                // a cut exactly between header and body is the interesting one
                if (!is_stub && pos < sizeof(rpc::Header) && n > sizeof(rpc::Header) && frng.chance(1, 3)) len = sizeof(rpc::Header) - pos;
                else len = 1 + (size_t)frng.below(len);
            }
            if (out->reader_gone || out->eof) { errno = EPIPE; return -1; }
            out->put(msg.data() + pos, len);
            pos += len; sent += len;
            if (--pieces <= 0) pieces = 1;
            if (pos < n) {
                c_frag.add();
                if (is_stub || frag_mode == 1 || frng.chance(2, 3)) thread_yield();
                else thread_usleep(frng.range(5, 1500));
            }
        }
        if (truncated) {
            c_close_a.add();
            do_shutdown();
            errno = EPIPE;
            return -1;
        }
        if (is_stub && R->send_mode == 2) thread_usleep(frng.range(200, 4000));   // a send that returns only after the transport confirmed the last byte (zero-copy style)
        return (ssize_t)msg.size();
    }
    ssize_t read(void* buf, size_t count) override { struct iovec v{buf, count}; return do_read(&v, 1); }
    ssize_t readv(const struct iovec* iov, int cnt) override { return do_read(iov, cnt); }
    ssize_t write(const void* buf, size_t count) override { struct iovec v{(void*)buf, count}; return do_write(&v, 1); }
    ssize_t writev(const struct iovec* iov, int cnt) override { return do_write(iov, cnt); }
};

// the stub's writev: learn which tag the engine gave to which call (header + our payload in one message)
void End::tap(const std::string& msg) {
    if (msg.size() < sizeof(rpc::Header) + sizeof(ReqHead)) vh::machinery_failure("stub sent a message shorter than header + payload head");
    rpc::Header h;
    ReqHead q;
    memcpy(&h, msg.data(), sizeof(h));
    memcpy(&q, msg.data() + sizeof(h), sizeof(q));
    if (q.magic != REQ_MAGIC || q.recidx >= g_nrecs.load(vh::MO)) vh::machinery_failure("request payload head not recognised on the wire");
    Rec* rec = &g_recs[q.recidx];
    rec->tag = h.tag;
    if (h.tag >= R->by_tag.size()) R->by_tag.resize(h.tag + 64, nullptr);
    R->by_tag[h.tag] = rec;
    R->sending = rec;
}

// ---------------------------------------------------------------- event sink: oracle 3
static inline Rec* rec_of_tag(uint64_t tag) {
    Round* R = g_R;
    if (!R || tag >= R->by_tag.size()) return nullptr;
    return R->by_tag[tag];
}
static std::atomic<int> g_sink_norec{0};
static void sink(uint32_t id, uint64_t a, uint64_t b) {
    if (id < pv::E_OOO_COLLECT_BEGIN || id > pv::E_RPC_BODY_END) return;
    ring_put(id, a, b);
    bool body = id == pv::E_RPC_BODY_BEGIN || id == pv::E_RPC_BODY_END;
    Rec* rec = rec_of_tag(body ? b : a);
    if (!rec) { g_sink_norec.fetch_add(1, vh::MO); return; }
    int st = rec->state.load(vh::MO);
    switch (id) {
    case pv::E_OOO_COLLECT_BEGIN: {
        if (st == 2)
            fatal("access-after-return/collect-starts-after-return",
                  "the leader starts collecting (do_collect + context update) for a call that has already returned", rec);
        rec->collect_open.fetch_add(1, vh::MO);
        if (g_R->sending == rec) { rec->overtaken = true; c_early_resp.add(); }   // the response overtook the return of the request's send
        auto it = g_th2rec.find(CURRENT);
        if (it != g_th2rec.end() && it->second == rec) c_collect_self.add(); else c_collect_other.add();
        break;
    }
    case pv::E_OOO_COLLECT_END:
        rec->collect_open.fetch_sub(1, vh::MO);
        rec->collect_done.fetch_add(1, vh::MO);
        if (st == 2)
            fatal("access-after-return/collect-ends-after-return",
                  "the leader finished do_collect and updated the context of a call that had returned in between", rec);
        break;
    case pv::E_RPC_BODY_BEGIN:
        if (st == 2)
            fatal("access-after-return/body-read-starts-after-return",
                  "the stub starts reading a response body into the iovector of a call that has already returned", rec);
        if ((uint64_t)rec->resp != a) {
            Rec* other = nullptr;
            auto it = g_th2rec.find(CURRENT);
            if (it != g_th2rec.end()) other = it->second;
            fatal("body/into-another-calls-iovector",
                  "the body of the response tagged for one call is read into a response iovector that is not that call's", rec, other);
        }
        rec->body_open.fetch_add(1, vh::MO);
        break;
    case pv::E_RPC_BODY_END:
        rec->body_open.fetch_sub(1, vh::MO);
        if (g_R && g_R->dead()) c_body_err.add();
        if (st == 2)
            fatal("access-after-return/body-read-ends-after-return",
                  "the stub was reading a response body into the iovector of a call that returned in between", rec);
        break;
    }
}

// ---------------------------------------------------------------- thread stacks
// Caller threads (STACK bytes) keep photon's default allocator: posix_memalign/free, so ASan sees a dead caller's stack as freed
// heap. The Skeleton's thread pool asks for 8 MB per worker; through malloc that is extremely slow under ASan (shadow poisoning,
// quarantine eviction, munmap for every worker), and those stacks are not the subject of this property: they come from a small
// cache of mmap-ed regions instead.
static std::vector<void*> g_big_stacks;
static void* stack_alloc(void*, size_t size) {
    if (size < (1u << 20)) return default_photon_thread_stack_alloc(nullptr, size);
    if (size == DEFAULT_STACK_SIZE && !g_big_stacks.empty()) { void* p = g_big_stacks.back(); g_big_stacks.pop_back(); return p; }
    void* p = mmap(nullptr, size, PROT_READ | PROT_WRITE, MAP_PRIVATE | MAP_ANONYMOUS | MAP_NORESERVE, -1, 0);
    if (p == MAP_FAILED) return nullptr;
    mprotect(p, 4096, PROT_NONE);
    return p;
}
static void stack_dealloc(void*, void* ptr, size_t size) {
    if (size < (1u << 20)) return default_photon_thread_stack_dealloc(nullptr, ptr, size);
    if (size == DEFAULT_STACK_SIZE && g_big_stacks.size() < 64) { g_big_stacks.push_back(ptr); return; }
    munmap(ptr, size);
}

// ---------------------------------------------------------------- access to the protected Stub::do_call
struct StubAccess : public rpc::Stub { using rpc::Stub::do_call; };
static int stub_call(rpc::Stub* s, rpc::FunctionID f, iovector* req, iovector* resp, Timeout tmo) {
    return (s->*(&StubAccess::do_call))(f, req, resp, tmo);
}
static const uint64_t FID = 0x1100000022ull;

static iovector* new_iov(uint16_t capacity, uint16_t reserve_front) {
    auto v = new_iovector(capacity, reserve_front);     // malloc of the exact size; the allocator part is raw memory
    new (v->get_allocator()) IOAlloc;
    return v;
}

// ---------------------------------------------------------------- callers
struct Slot {
    Round* R = nullptr;
    int id = 0;
    uint32_t done_calls = 0, tries = 0;
    vh::Rng rng{1};
};
constexpr uint64_t STACK = 96 * 1024;       // malloc-ed per thread (default allocator): freed stacks are visible to ASan
constexpr uint64_t MS = 1000;

static bool leader_holds_until(Round* R, uint64_t t) {
    Rec* L = R->reader;
    return L && L->state.load(vh::MO) == 1 && L->fate == FT_HOLD && L->t1 >= t;
}

static void do_one_call(Slot* s) {
    Round* R = s->R;
    auto& r = s->rng;
    uint32_t ri = g_nrecs.fetch_add(1, vh::MO);
    if (ri >= MAXRECS) vh::machinery_failure("ledger full");
    Rec* rec = &g_recs[ri];
    rec->round = R->idx; rec->caller = s->id; rec->callno = s->done_calls;
    rec->rseed = r.next();

    // ---- fate, deadline
    uint16_t fate = FT_OK;
    uint64_t now0 = photon::now, tmo_us = 0, t1 = 0, t2 = 0, margin = 0;      // tmo_us 0 = pick a generous one below
    uint32_t cut = 0;
    bool peerB = R->peer == 1;
    if ((R->mode == M_HOLD || R->mode == M_STRADDLE) && s->id == 0) {
        fate = FT_HOLD;
        t1 = now0 + (R->mode == M_STRADDLE ? r.range(350, 450) : r.range(60, 250)) * MS;
    } else if (R->mode == M_STRADDLE && s->id == 1) {
        uint64_t D = r.range(60, 120) * MS;
        if (leader_holds_until(R, now0 + D + 60 * MS)) {
            fate = r.pick({FT_STR_HB, FT_STR_MID, FT_STR_MID});
            tmo_us = D; margin = 25 * MS;
        }
    } else if (R->mode == M_HOLD && (int)r.below(16) < R->p_special) {
        uint16_t f = peerB ? r.pick({FT_DROP, FT_DROP, FT_DROP, FT_TINY, FT_LATE, FT_STR_HDR}) : r.pick({FT_DROP, FT_DROP, FT_TINY});
        uint64_t D = f == FT_TINY ? r.range(1, 200) : f == FT_STR_HDR ? r.range(30, 50) * MS : r.range(3, 40) * MS;
        if (leader_holds_until(R, now0 + D + 40 * MS)) {
            fate = f; tmo_us = D;
            margin = f == FT_STR_HDR ? 8 * MS : 10 * MS;
        }
    }
    // ---- sizes
    uint32_t rlen = (uint32_t)r.pick<uint64_t>({0, r.range(1, 64), r.range(1, 64), r.range(65, 4096), r.range(65, 4096), r.range(65, 4096),
                                                 r.range(4097, 20000), r.chance(1, 4) ? r.range(60000, 200000) : r.range(1, 512)});
    if (fate == FT_STR_MID && rlen < 2) rlen = (uint32_t)r.range(2, 4096);
    if (fate == FT_STR_HB && rlen < 1) rlen = (uint32_t)r.range(1, 4096);
    if (fate == FT_LATE && r.chance(1, 2)) rlen = 0;
    if (fate == FT_STR_HB) cut = sizeof(rpc::Header);
    if (fate == FT_STR_MID) cut = sizeof(rpc::Header) + (uint32_t)r.range(1, rlen - 1);
    if (fate == FT_STR_HDR) cut = (uint32_t)r.range(1, sizeof(rpc::Header) - 1);
    if (rlen == 0) c_zero.add();
    if (rlen >= 60000) c_big.add();
    g_sizes_seen |= 1ull << vh::log2bucket(rlen);
    size_t fill = (size_t)r.pick<uint64_t>({0, r.range(1, 40), r.range(1, 400), r.range(400, 3000)});
    size_t plen = sizeof(ReqHead) + fill;

    Timeout tmo;        // infinite
    if (tmo_us) tmo = Timeout(tmo_us);
    else switch (r.below(3)) { case 0: break; case 1: tmo = Timeout(300000 * MS); break; default: tmo = Timeout(1200000 * MS); }
    uint64_t expiration = tmo.expiration();
    bool finite = expiration != (uint64_t)-1;
    // the adversary's pauses are placed relative to this caller's deadline
    if (fate == FT_STR_HB || fate == FT_STR_MID || fate == FT_STR_HDR) { t1 = expiration - margin; t2 = expiration + margin; }
    if (fate == FT_LATE) t2 = expiration + margin;

    rec->fate = fate; rec->rlen = rlen; rec->t1 = t1; rec->t2 = t2; rec->deadline = finite ? expiration : 0;
    rec->deadline_rt.store(finite ? expiration : 0, vh::MO);      // photon::now is a cached CLOCK_BOOTTIME reading

    // ---- request: payload of exact size on the heap, iovector of exact capacity on the heap
    char* payload = (char*)malloc(plen);
    ReqHead h{};
    h.magic = REQ_MAGIC; h.caller = (uint16_t)s->id; h.fate = fate; h.callno = rec->callno; h.rlen = rlen; h.rseed = rec->rseed;
    h.deadline = rec->deadline; h.t1 = t1; h.t2 = t2; h.cut = cut; h.plen = (uint32_t)plen; h.round = R->idx; h.recidx = ri;
    memcpy(payload, &h, sizeof(h));
    expand(fill_seed(h), payload + sizeof(h), fill);
    int nseg = plen >= 3 ? (int)r.pick({1, 1, 2, 3}) : 1;
    bool nofront = r.chance(1, 64);
    uint16_t front = nofront ? 0 : (uint16_t)r.pick({1, 1, 2});
    if (nofront) c_nofront.add();
    iovector* req = new_iov((uint16_t)(nseg + front), front);
    {
        size_t pos = 0;
        for (int i = 0; i < nseg; ++i) {
            size_t len = (i == nseg - 1) ? plen - pos : 1 + (size_t)r.below(plen - pos - (nseg - 1 - i));
            req->push_back(payload + pos, len);
            pos += len;
        }
    }
    // ---- response buffers
    int variant = (int)r.pick({0, 0, 0, 1, 2, 3, 4});
    if (rlen < 2 && (variant == 1 || variant == 4)) variant = 0;
    size_t bufsize = variant == 2 ? 0 : variant == 3 ? rlen + (size_t)r.range(1, 64) : variant == 4 ? (size_t)r.range(1, rlen - 1) : rlen;
    int rseg = variant == 1 ? (int)r.pick({2, 3}) : (bufsize ? 1 : 0);
    if (variant == 1 && rlen < 3) rseg = 2;
    bool stub_allocs = variant == 2 || variant == 4;
    char* rbuf = bufsize ? (char*)malloc(bufsize) : nullptr;
    if (rbuf) memset(rbuf, 0xA5, bufsize);
    iovector* resp = new_iov((uint16_t)(rseg + (stub_allocs ? 2 : 0)), 0);
    {
        size_t pos = 0;
        for (int i = 0; i < rseg; ++i) {
            size_t len = (i == rseg - 1) ? bufsize - pos : 1 + (size_t)r.below(bufsize - pos - (rseg - 1 - i));
            resp->push_back(rbuf + pos, len);
            pos += len;
        }
    }
    if (stub_allocs && rlen) c_resp_alloc.add();
    if (rseg > 1) c_resp_split.add();
    rec->req = req; rec->resp = resp;

    // ---- the call
    g_th2rec[CURRENT] = rec;
    rec->t_call = photon::now;
    ring_put(1000, rec->tag, ri);
    rec->state.store(1, vh::MO);
    errno = 0;
    int ret = stub_call(R->stub, FID, req, resp, tmo);
    int e = errno;
    // ---- "call returned" mark: nothing was freed yet, no yield since do_call returned
    uint64_t rt_now = vh::boottime_us();
    rec->ret = ret; rec->err = e; rec->t_ret = photon::now;
    rec->state.store(2, vh::MO);
    g_th2rec.erase(CURRENT);
    ring_put(1001, rec->tag, ri);
    bool in_body = rec->body_open.load(vh::MO) > 0, in_collect = rec->collect_open.load(vh::MO) > 0;
    if (in_body || in_collect) {
        const char* where = in_body ? "leader-inside-body-read" : "leader-inside-collect";
        if (ret >= 0)
            fatal(std::string("success-during-collect/") + where,
                  "a call returned success while the leader was still collecting its response (do_collect / context update not finished)", rec, R->reader);
        uint64_t dl = rec->deadline_rt.load(vh::MO);
        if (dl && rt_now >= dl) {
            c_straddle_hit.add();
            fatal(std::string("follower-timeout-during-collect/") + where,
                  "a follower's deadline expired while the leader was reading its response body: the call returned (ETIMEDOUT path) and its "
                  "buffers/context are released, but the leader still writes the body into them, updates ret/phase and interrupts the thread", rec, R->reader);
        }
        if (rec->overtaken) {
            c_overtaken_hit.add();
            fatal(std::string("response-before-send-returned/failed-while-") + where,
                  "the response arrived while the request's send had not returned yet: the leader took the tag out of the map and is reading the "
                  "body into the call's buffers, the call then fails (context not found in map) and returns while the leader is still inside them", rec, R->reader);
        }
        fatal(std::string("early-failure-during-collect/") + where,
              "a call failed before its deadline while the leader was still collecting its response", rec, R->reader);
    }
    c_calls.add();
    if (ret >= 0) {
        c_ok.add();
        if ((uint32_t)ret != rlen)
            vh::violation("response/wrong-length", "a successful call returned a byte count different from the length of its own response",
                          vh::JObj().raw("call", rec_json(rec)).kv("expected", rlen).str());
        else {
            ssize_t bad = check_expand(resp_seed(h), resp->iovec(), resp->iovcnt(), rlen);
            if (bad >= 0)
                vh::violation("response/wrong-content", "a successful call's response buffers do not hold the response of its own request",
                              vh::JObj().raw("call", rec_json(rec)).kv("first_bad_offset", (int64_t)bad).kv("buffers_total", (uint64_t)resp->sum()).str());
        }
    } else {
        c_failed.add();
        if (e == 0)
            vh::violation("failure/errno-not-set", "a call returned a negative value without setting errno", rec_json(rec));
        if (e == ETIMEDOUT) c_fail_timedout.add(); else if (e == ECONNRESET) c_fail_reset.add(); else if (e == EFAULT) c_fail_fault.add(); else c_fail_other.add();
        if (fate == FT_DROP || fate == FT_LATE || fate == FT_STR_HDR) c_park_timeout.add();
        if (fate == FT_TINY) c_tiny.add();
        if (rec->overtaken) c_overtaken_lost.add();
        if (fate == FT_STR_HB || fate == FT_STR_MID) {
            // the deadline did not fall inside the body read after all
            if (rec->collect_done.load(vh::MO)) c_straddle_leader_first.add(); else c_straddle_missed.add();
        }
    }
    if (fate == FT_STR_HB || fate == FT_STR_MID) c_straddle_aimed.add();
    // ---- release everything now
    delete_iovector(resp);
    free(rbuf);
    delete_iovector(req);
    free(payload);
    vh::event();
    vh::progress();
}

static void* slot_main(void* arg) {
    auto s = (Slot*)arg;
    Round* R = s->R;
    for (;;) {
        // the anchor's calls are held back by the peer for 60..450 ms each: only a few of them per round
        uint32_t limit = (s->id == 0 && (R->mode == M_HOLD || R->mode == M_STRADDLE)) ? std::min<uint32_t>(R->calls_per_caller, 6) : R->calls_per_caller;
        if (s->done_calls >= limit || (R->dead() && s->tries > s->done_calls)) break;
        if (R->mode == M_STRADDLE && s->id == 1 && !leader_holds_until(R, photon::now + 200 * MS) && s->tries < 400) {
            ++s->tries;                 // the victim waits for the anchor to be the leader
            thread_usleep(2 * MS);
            continue;
        }
        do_one_call(s);
        ++s->done_calls;
        s->tries = s->done_calls + (R->dead() ? 1 : 0);
        if (s->done_calls >= limit) break;
        if (R->thread_per_call && s->rng.chance(1, 2)) {
            // this thread exits right after its call returned; the slot goes on in a new thread
            c_thread_exit.add();
            thread_create(slot_main, s, STACK);
            return nullptr;
        }
        switch (s->rng.below(4)) { case 0: break; case 1: thread_yield(); break; default: thread_usleep(s->rng.range(1, 400)); }
    }
    R->callers_done++;
    R->done_cv.notify_all();
    return nullptr;
}

// ---------------------------------------------------------------- peer A: the real Skeleton
struct PeerA {
    Round* R = nullptr;
    End* ep = nullptr;
    rpc::Skeleton* sk = nullptr;
    join_handle* jh = nullptr;
    vh::Rng rng{1};
    int handle(iovector* req, rpc::Skeleton::ResponseSender sender, IStream*) {
        std::string p;
        for (auto& v : *req) p.append((const char*)v.iov_base, v.iov_len);
        ReqHead h;
        if (p.size() < sizeof(h)) { vh::violation("request/truncated-at-server", "the server received a request shorter than the payload head", "null"); return -1; }
        memcpy(&h, p.data(), sizeof(h));
        struct iovec v{(void*)(p.data() + sizeof(h)), p.size() - sizeof(h)};
        if (h.magic != REQ_MAGIC || h.plen != p.size() || check_expand(fill_seed(h), &v, 1, v.iov_len) >= 0)
            vh::violation("request/corrupted-at-server", "the request bytes received by the server differ from what the caller sent",
                          vh::JObj().kv("caller", (int)h.caller).kv("call", h.callno).str());
        c_req_checked.add();
        if (h.fate == FT_DROP || h.fate == FT_TINY) return 0;         // this server never answers such a request
        if (h.fate == FT_HOLD) sleep_until(h.t1);
        else switch (rng.below(4)) { case 0: break; case 1: thread_yield(); break; default: thread_usleep(rng.range(1, 3000)); }
        char* buf = (char*)malloc(h.rlen ? h.rlen : 1);
        expand(resp_seed(h), buf, h.rlen);
        IOVector resp;
        if (h.rlen) resp.push_back(buf, h.rlen);
        int ret = sender(&resp);
        free(buf);
        return ret;
    }
    static void* serve(void* arg) {
        auto self = (PeerA*)arg;
        self->sk->serve(self->ep);
        return nullptr;
    }
    void start() {
        sk = rpc::new_skeleton();
        sk->add_function(FID, rpc::Skeleton::Function(this, &PeerA::handle));
        jh = thread_enable_join(thread_create(&serve, this, STACK));
    }
    void stop() {
        ep->do_shutdown();
        thread_join(jh);
        g_phase = "delete-skeleton";
        delete sk;
    }
};

// ---------------------------------------------------------------- peer B: scripted adversary
enum { FP_NONE = 0, FP_CLOSE, FP_UNKNOWN, FP_DUP, FP_BADMAGIC };
struct PeerB {
    Round* R = nullptr;
    End* ep = nullptr;
    vh::Rng rng{1};
    struct Job { rpc::Header hdr; ReqHead h; Rec* rec; uint64_t ready_at; uint64_t arrived; };
    std::vector<Job> jobs;
    condition_variable cv;
    bool reader_done = false, stop_flag = false, closed = false;
    join_handle *jr = nullptr, *jw = nullptr;
    int fault = FP_NONE, close_where = 0, fault_size = 0;
    bool close_rst = false;
    uint32_t fault_at = 0, nmsg = 0;
    int order = 0;          // 0 random among ready, 1 newest first, 2 oldest first
    std::vector<uint64_t> answered;

    void reader() {
        for (;;) {
            rpc::Header hdr;
            ssize_t n = ep->read(&hdr, sizeof(hdr));
            if (n != (ssize_t)sizeof(hdr)) break;
            std::string p(hdr.size, 0);
            if (hdr.size && ep->read(&p[0], hdr.size) != (ssize_t)hdr.size) break;
            ReqHead h;
            if (hdr.magic != rpc::Header::MAGIC || hdr.function.function != FID || p.size() < sizeof(h)) {
                vh::violation("request/bad-frame-at-server", "the server received a request frame with a wrong header or a truncated payload", "null");
                break;
            }
            memcpy(&h, p.data(), sizeof(h));
            struct iovec v{(void*)(p.data() + sizeof(h)), p.size() - sizeof(h)};
            if (h.magic != REQ_MAGIC || h.plen != p.size() || h.recidx >= g_nrecs.load(vh::MO) || check_expand(fill_seed(h), &v, 1, v.iov_len) >= 0) {
                vh::violation("request/corrupted-at-server", "the request bytes received by the server differ from what the caller sent",
                              vh::JObj().kv("caller", (int)h.caller).kv("call", h.callno).str());
                continue;
            }
            c_req_checked.add();
            Rec* rec = &g_recs[h.recidx];
            if (rec->tag != hdr.tag) vh::machinery_failure("tag seen by the tap differs from the tag parsed by the peer");
            if (h.fate == FT_DROP || h.fate == FT_TINY) continue;      // never answered
            uint64_t now = photon::now;
            Job j{hdr, h, rec, 0, now};
            switch (h.fate) {
            case FT_HOLD: j.ready_at = h.t1; break;
            case FT_LATE: j.ready_at = h.t2; break;
            case FT_STR_HB: case FT_STR_MID: case FT_STR_HDR: j.ready_at = h.t1; break;
            default: j.ready_at = now + (R->mode == M_EARLY ? 0 : rng.pick<uint64_t>({0, 0, rng.range(0, 300), rng.range(0, 3000)}));
            }
            jobs.push_back(j);
            cv.notify_all();
        }
        reader_done = true;
        cv.notify_all();
    }
    // false = the connection is closed
    bool emit(const char* p, size_t n) {
        if (closed || R->down.reader_gone) return false;
        R->down.put(p, n);
        return true;
    }
    bool emit_fragmented(const std::string& msg, size_t from, size_t to) {
        size_t pos = from;
        int pieces = (int)rng.pick({1, 1, 2, 3, 4, 8});
        while (pos < to) {
            size_t len = to - pos;
            if (pieces > 1) {
                if (pos < sizeof(rpc::Header) && to > sizeof(rpc::Header) && rng.chance(1, 3)) len = sizeof(rpc::Header) - pos;
                else len = 1 + (size_t)rng.below(len);
            }
            if (!emit(msg.data() + pos, len)) return false;
            pos += len;
            if (--pieces <= 0) pieces = 1;
            if (pos < to) {
                c_frag.add();
                // benign pauses: far below every deadline a call that is answered can have (>= 300 s)
                if (rng.chance(2, 3)) thread_yield(); else thread_usleep(rng.range(5, 1500));
            }
        }
        return true;
    }
    void close_now() {
        closed = true;
        if (close_rst) R->down.close_rst(); else R->down.close_eof();
    }
    void send_header_only(uint64_t tag, uint32_t size, bool garbage_body) {
        rpc::Header hd;
        hd.size = size; hd.function = FID; hd.tag = tag;
        std::string m((const char*)&hd, sizeof(hd));
        if (garbage_body) { std::string g(size, 0); expand(rng.next(), &g[0], size); m += g; }
        emit_fragmented(m, 0, m.size());
    }
    // benign late answers: a sleep until "deadline + margin" is not enough on a loaded machine (the follower's timeout and this
    // thread can be resumed in the same batch, in either order), so wait until the caller has really returned
    bool wait_gone(Rec* rec) {
        for (int i = 0; i < 10000 && !stop_flag && !closed; ++i) {
            if (rec->state.load(vh::MO) == 2) return true;
            thread_usleep(1000);
        }
        return rec->state.load(vh::MO) == 2;
    }
    void process(Job& j) {
        Rec* rec = j.rec;
        if (j.h.fate == FT_LATE && !wait_gone(rec)) return;
        bool gone = rec->state.load(vh::MO) == 2;
        if (gone) {
            // the caller already returned (timed out, or failed as a leader): normally the adversary stays silent so that one
            // failure does not cascade through every later leader; sometimes it answers anyway (late response = unknown tag)
            if (j.h.fate != FT_LATE && !rng.chance(1, 8)) { c_dropped_ret.add(); return; }
            c_late_sent.add();
        }
        rpc::Header hd;
        hd.size = j.h.rlen; hd.function = FID; hd.tag = j.hdr.tag;
        std::string msg((const char*)&hd, sizeof(hd));
        msg.resize(sizeof(hd) + j.h.rlen);
        expand(resp_seed(j.h), &msg[sizeof(hd)], j.h.rlen);
        ++nmsg;
        if (fault == FP_CLOSE && nmsg == fault_at) {
            size_t L = msg.size(), k = 0;
            int where = close_where;
            if (where == 2 && j.h.rlen == 0) where = 1;
            if (where == 3 && j.h.rlen < 2) where = 1;
            switch (where) {
            case 0: k = 0; c_close_boundary.add(); break;
            case 1: k = (size_t)rng.range(1, sizeof(hd) - 1); c_close_hdr.add(); break;
            case 2: k = sizeof(hd); c_close_between.add(); break;
            default: k = sizeof(hd) + (size_t)rng.range(1, j.h.rlen - 1); c_close_body.add(); break;
            }
            (void)L;
            if (k) emit_fragmented(msg, 0, k);
            if (where >= 2) thread_usleep(rng.range(0, 2000));      // let the leader get into the body read first
            close_now();
            return;
        }
        if (fault == FP_BADMAGIC && nmsg == fault_at) {
            std::string g(sizeof(hd), 0);
            expand(rng.next(), &g[0], g.size());
            c_badmagic.add();
            emit_fragmented(g, 0, g.size());
            return;
        }
        bool ok;
        if (j.h.fate == FT_STR_HB || j.h.fate == FT_STR_MID || j.h.fate == FT_STR_HDR) {
            // first part before the caller's deadline, the rest after it
            if (j.h.fate == FT_STR_HDR) c_hdr_partial_deadline.add();
            ok = emit_fragmented(msg, 0, j.h.cut);
            if (ok) sleep_until(j.h.t2);
            if (ok && j.h.fate == FT_STR_HDR && !wait_gone(rec)) { close_now(); return; }
            if (ok) ok = emit_fragmented(msg, j.h.cut, msg.size());
        } else {
            ok = emit_fragmented(msg, 0, msg.size());
        }
        if (!ok) return;
        answered.push_back(j.hdr.tag);
        if (fault == FP_UNKNOWN && nmsg == fault_at) {
            c_unknown_sent.add();
            send_header_only(0x7000000000000000ull + rng.below(1000), fault_size, fault_size > 0);
        }
        if (fault == FP_DUP && nmsg == fault_at) {
            c_dup_sent.add();
            uint64_t tag = answered[rng.below(answered.size())];
            Rec* r0 = rec_of_tag(tag);
            uint32_t size = (fault_size && r0) ? r0->rlen : 0;       // same frame again, but with a garbage body
            send_header_only(tag, size, size > 0);
        }
    }
    void writer() {
        for (;;) {
            if (stop_flag || closed) break;
            uint64_t now = photon::now, soonest = (uint64_t)-1;
            std::vector<size_t> ready;
            for (size_t i = 0; i < jobs.size(); ++i) {
                if (jobs[i].ready_at <= now) ready.push_back(i);
                else soonest = std::min(soonest, jobs[i].ready_at);
            }
            if (ready.empty()) {
                if (jobs.empty() && reader_done) break;
                uint64_t w = soonest == (uint64_t)-1 ? 50 * MS : std::min<uint64_t>(soonest - now, 50 * MS);
                cv.wait_no_lock(Timeout(w ? w : 1));
                continue;
            }
            size_t pick = order == 1 ? ready.back() : order == 2 ? ready.front() : ready[rng.below(ready.size())];
            // no job is starved: whatever the order policy, an answer is at most ~200 ms late (deadlines of answered calls are >= 300 s)
            if (jobs[ready.front()].ready_at + 200 * MS < now) pick = ready.front();
            Job j = jobs[pick];
            jobs.erase(jobs.begin() + pick);
            process(j);
        }
    }
    static void* reader_main(void* a) { ((PeerB*)a)->reader(); return nullptr; }
    static void* writer_main(void* a) { ((PeerB*)a)->writer(); return nullptr; }
    void start() {
        jr = thread_enable_join(thread_create(&reader_main, this, STACK));
        jw = thread_enable_join(thread_create(&writer_main, this, STACK));
    }
    void stop() {
        stop_flag = true;
        ep->do_shutdown();
        cv.notify_all();
        thread_join(jr);
        thread_join(jw);
    }
};

// ---------------------------------------------------------------- a round
static std::string g_last_round_desc;
static uint64_t g_cfg_mask = 0;

static void run_round(uint32_t idx, vh::Rng& xr, int mode) {
    vh::Rng r(xr.next());
    auto R = new Round;
    R->idx = idx;
    R->mode = mode;
    R->peer = (mode == M_STRADDLE || mode == M_EARLY) ? 1 : (int)vh::args().geti("peer", r.chance(1, 4) ? 0 : 1);
    R->K = (int)vh::args().geti("k", r.pick({2, 3, 4, 6, 8, 12, 16, 24, 32}));
    if (mode == M_STRADDLE && R->K < 3) R->K = 3;
    // every concurrent request costs the Skeleton's thread pool an 8 MB stack (expensive under ASan): fewer callers there
    if (R->peer == 0 && R->K > 8 && !vh::args().has("k")) R->K = (int)r.pick({2, 4, 6, 8});
    R->per_wait = r.chance(1, 2);
    R->thread_per_call = r.chance(1, 2);
    R->send_mode = mode == M_EARLY ? 2 : (int)r.pick({0, 0, 1});
    R->p_special = (mode == M_PLAIN || mode == M_EARLY) ? 0 : (int)r.pick({2, 4, 8});
    uint32_t budget = (uint32_t)vh::args().geti("calls", vh::args().thorough() ? 300 : 200);
    if (R->peer == 0) budget /= 2;
    R->calls_per_caller = std::max<uint32_t>(2, budget / R->K);
    if (mode == M_STRADDLE) R->calls_per_caller = std::min<uint32_t>(R->calls_per_caller, 12);
    R->first_rec = g_nrecs.load(vh::MO);
    g_round_first.store(R->first_rec, vh::MO);
    R->by_tag.assign((size_t)R->K * R->calls_per_caller + 64, nullptr);

    End stub_end, peer_end;
    stub_end.in = &R->down; stub_end.out = &R->up; stub_end.R = R; stub_end.is_stub = true; stub_end.per_wait = R->per_wait;
    stub_end.frng = vh::Rng(r.next());
    peer_end.in = &R->up; peer_end.out = &R->down; peer_end.R = R; peer_end.frng = vh::Rng(r.next());
    g_R = R;
    g_phase = "round-setup";
    R->stub = rpc::new_rpc_stub(&stub_end, false);
    if (!R->stub) vh::machinery_failure("new_rpc_stub failed");

    PeerA pa;
    PeerB pb;
    std::string fault_desc = "none";
    if (R->peer == 0) {
        pa.R = R; pa.ep = &peer_end; pa.rng = vh::Rng(r.next());
        peer_end.frag_mode = (int)r.pick({0, 1, 2, 2});
        if (mode == M_PLAIN && r.chance(1, 5)) {
            peer_end.cut_after = (int64_t)r.range(0, (uint64_t)R->K * R->calls_per_caller * 300);
            fault_desc = "wire-closes-at-byte";
        }
        pa.start();
        c_rounds_a.add();
    } else {
        pb.R = R; pb.ep = &peer_end; pb.rng = vh::Rng(r.next());
        pb.order = (int)r.below(3);
        if (mode != M_STRADDLE && mode != M_EARLY) {
            pb.fault = (int)r.pick({FP_NONE, FP_NONE, FP_NONE, FP_NONE, FP_NONE, FP_CLOSE, FP_CLOSE, FP_CLOSE, FP_UNKNOWN, FP_UNKNOWN,
                                    FP_DUP, FP_DUP, FP_BADMAGIC});
            pb.fault_at = (uint32_t)r.range(1, std::max<uint32_t>(1, R->K * R->calls_per_caller * 3 / 4));
            pb.close_where = (int)r.pick({0, 1, 2, 3, 3, 3});
            pb.close_rst = r.chance(1, 2);
            pb.fault_size = (int)r.pick({0, 0, 8});
            static const char* fn[] = {"none", "close", "unknown-tag", "duplicate-tag", "bad-magic"};
            fault_desc = fn[pb.fault];
        }
        pb.start();
        c_rounds_b.add();
    }
    g_cfg_mask |= 1ull << (R->peer * 8 + R->mode * 2 + (R->per_wait ? 1 : 0));
    g_last_round_desc = vh::JObj().kv("round", idx).kv("mode", mode == M_PLAIN ? "plain" : mode == M_HOLD ? "hold" : mode == M_STRADDLE ? "straddle" : "early-response")
        .kv("peer", R->peer ? "scripted-adversary" : "real-skeleton").kv("callers", R->K).kv("calls_per_caller", R->calls_per_caller)
        .kv("stream_timeout", R->per_wait ? "per-wait" : "per-operation").kv("thread_per_call", R->thread_per_call)
        .kv("send_mode", R->send_mode).kv("fault", fault_desc).str();

    std::vector<Slot> slots(R->K);
    for (int i = 0; i < R->K; ++i) {
        slots[i].R = R; slots[i].id = i; slots[i].rng = vh::Rng(r.next());
        thread_create(slot_main, &slots[i], STACK);
        if (i == 0 && (mode == M_HOLD || mode == M_STRADDLE)) thread_yield();       // the anchor goes first and becomes the leader
    }
    g_phase = "callers-running";
    while (R->callers_done < R->K) R->done_cv.wait_no_lock(Timeout(1000 * MS));
    g_phase = "quiescence";
    thread_yield();     // let the last caller thread die

    // ---- quiescence
    int qc = R->stub->get_queue_count();
    if (qc != 0)
        vh::violation("quiescence/queue-count-nonzero", "all calls have returned but the stub still has registered contexts",
                      vh::JObj().kv("queue_count", qc).raw("round", g_last_round_desc).str());
    if (R->dead()) c_conn_dead.add();
    g_phase = R->peer == 0 ? "stop-skeleton" : "stop-script-peer";
    if (R->peer == 0) pa.stop(); else pb.stop();
    stub_end.do_shutdown();
    g_phase = "delete-stub";
    if (qc == 0) delete R->stub;       // with registered contexts left, the destructor would wait for them forever
    g_R = nullptr;
    delete R;
    g_phase = "between-rounds";
    c_rounds.add();
}

// ---------------------------------------------------------------- stuck detector
static bool on_stuck(std::string& key, std::string& what, std::string& wit) {
    uint32_t a = g_round_first.load(vh::MO), b = g_nrecs.load(vh::MO);
    uint64_t now = vh::boottime_us();
    vh::JArr blocked;
    bool proved = false;
    for (uint32_t i = a; i < b && i < MAXRECS; ++i) {
        Rec* r = &g_recs[i];
        if (r->state.load(vh::MO) != 1) continue;
        uint64_t dl = r->deadline_rt.load(vh::MO);
        bool collected = r->collect_done.load(vh::MO) > 0;
        blocked.raw(vh::JObj().kv("caller", r->caller).kv("call", r->callno).kv("tag", r->tag).kv("fate", fate_name[r->fate])
                        .kv("collected", collected).kv("us_past_deadline", dl && now > dl ? (int64_t)(now - dl) : (int64_t)-1).str());
        if (collected) {
            proved = true; key = "stuck/collected-but-not-woken";
            what = "a call stays blocked although its response was collected and its context marked COLLECTED";
        } else if (dl && now >= dl + 5000000) {
            proved = true; key = "stuck/blocked-past-deadline";
            what = "a call stays blocked more than 5 s past its deadline (the peer never pauses that long)";
        }
    }
    wit = vh::JObj().raw("blocked", blocked.str()).raw("round", g_last_round_desc.empty() ? "null" : g_last_round_desc).str();
    if (!proved) { key = "rpc-workload"; what = std::string("no call completed; phase=") + g_phase.load() + " blocked=" + blocked.str(); }
    return proved;
}

static void finalize_signature() {
    using namespace photon::verif;
    uint64_t other = vh::cov(C_OOO_LEADER_COLLECT_OTHER), ftmo = vh::cov(C_OOO_FOLLOWER_TIMEOUT), unk = vh::cov(C_OOO_UNKNOWN_TAG);
    auto b = [](vh::NamedCounter& c) { return std::to_string(vh::log2bucket((uint64_t)c.get())); };
    bool nontrivial = other > 0 && c_ok.get() > 0 &&
                      (ftmo > 0 || unk > 0 || c_body_err.get() > 0 || c_close_hdr.get() + c_close_between.get() + c_close_body.get() > 0);
    vh::set_sig("rpc|" + g_mode_name + "|cfg" + std::to_string(g_cfg_mask) + "|" +
                    vh::cov_signature({C_OOO_LEADER_COLLECT_OTHER, C_OOO_FOLLOWER_TIMEOUT, C_OOO_UNKNOWN_TAG}) + "hit" + b(c_straddle_hit) +
                    "|ov" + b(c_overtaken_hit) + "|ovl" + b(c_overtaken_lost) + "|lf" + b(c_straddle_leader_first) + "|cb" + b(c_close_body) + "|ch" + b(c_close_hdr) + "|be" + b(c_body_err) +
                    "|dup" + b(c_dup_sent) + "|late" + b(c_late_sent) + "|early" + b(c_early_resp) + "|lht" + b(c_leader_hdr_timeout) +
                    "|sz" + std::to_string(g_sizes_seen),
                nontrivial);
    vh::sample(vh::JObj().kv("mode", g_mode_name).kv("rounds", c_rounds.get()).kv("calls", c_calls.get()).kv("ok", c_ok.get())
                   .kv("failed", c_failed.get()).kv("leader_collected_other", other).kv("follower_timeouts", ftmo).kv("unknown_tags", unk)
                   .kv("follower_timeout_inside_body", c_straddle_hit.get()).raw("last_round", g_last_round_desc.empty() ? "null" : g_last_round_desc).str());
    int norec = g_sink_norec.load(vh::MO);
    if (norec) vh::config("events_without_ledger_entry", norec);
}

int main(int argc, char** argv) {
    vh::init(argc, argv);
    vh::Rng xr(vh::args().xseed());
    g_recs = new Rec[MAXRECS];
    // executions 3, 11, ... aim at the header/body window of a follower's deadline, 7, 15, ... at responses that overtake the
    // return of the request's send; all others are benign and must be completely clean
    g_mode_name = vh::args().gets("mode", vh::args().exec % 8 == 3 ? "straddle" : vh::args().exec % 8 == 7 ? "early" : "benign");
    bool straddle = g_mode_name == "straddle", early = g_mode_name == "early";
    set_photon_thread_stack_allocator({&stack_alloc, nullptr}, {&stack_dealloc, nullptr});
    if (photon::vcpu_init() < 0) vh::machinery_failure("vcpu_init failed");
    photon::verif::g_hooks.event = &sink;
    vh::arm_stalls(xr, {photon::verif::P_OOO_COLLECT}, false);
    vh::config("mode", g_mode_name);
    vh::start_supervisor(on_stuck, 15000);      // the machine is shared: tearing down a Skeleton's thread pool under ASan can take seconds

    uint32_t rounds = (uint32_t)vh::args().geti("rounds", vh::args().thorough() ? 30 : 10);
    uint32_t idx = 0;
    if (early) {
        run_round(idx++, xr, M_PLAIN);
        uint32_t tries = (uint32_t)vh::args().geti("early_rounds", 6);
        for (uint32_t i = 0; i < tries && !vh::n_violations(); ++i) run_round(idx++, xr, M_EARLY);
    } else if (!straddle) {
        for (; idx < rounds; ++idx) {
            if (g_nrecs.load(vh::MO) + 2000 > MAXRECS) break;
            run_round(idx, xr, xr.chance(1, 2) ? M_HOLD : M_PLAIN);
            if (vh::n_violations()) break;
        }
    } else {
        // a short benign warm-up, then rounds aimed at the header/body window until the monitor fires
        run_round(idx++, xr, M_HOLD);
        uint32_t tries = (uint32_t)vh::args().geti("straddle_rounds", 6);
        for (uint32_t i = 0; i < tries && !vh::n_violations(); ++i) run_round(idx++, xr, M_STRADDLE);
    }
    vh::config("rounds_run", idx);
    finalize_signature();
    photon::vcpu_fini();
    return vh::finish();
}
