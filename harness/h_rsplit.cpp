// C15 - range split (fs/range-split.h, fs/range-split-vi.h)
//
// Input-quantified: one input = (variant, offset, length, interval | key-point table).
// Oracles (DESIGN.md 3, C15), all against a direct arithmetic specification of the block structure
// (128-bit arithmetic, linear table scan - nothing shared with the code under test):
//   all_parts        for a non-empty range the parts are non-empty, each inside the block it names, pairwise
//                    adjacent, the first starts at `offset`, the last ends at `offset+length`;
//                    an empty range yields no non-empty part;
//   classification   small_note, or preface + aligned_parts() + postface, gives the same list of non-empty
//                    parts, and each class has the shape its name documents (small note: unaligned at both ends,
//                    preface: unaligned begin / aligned end, aligned part: one whole block, postface: aligned
//                    begin / unaligned end);
//   aligned offsets  aligned_begin_offset() is a block boundary with  abo <= offset < abo + interval,
//                    aligned_end_offset() is a block boundary with  aeo - interval < offset+length <= aeo;
//   termination      every iterator loop is bounded by (number of blocks the range touches) + 4 steps; running
//                    longer (or, for the table variant, stepping beyond the last block of the table) is the
//                    violation "<iterator>/never-reaches-end:<range class>:<variant>", not a hang.
// Domains: (a) a bounded domain enumerated completely - the work is split over the executions of a check by
//              (item index mod nexec), each execution reports exhaustive=true iff it finished its slice;
//          (b) seeded large values, bounded so that offset+length+interval does not overflow 64 bits and the
//              range touches at most ~70 blocks;
//          (c) seeded key-point tables (exact-size heap arrays, so ASan sees any access outside the table).
// Assumption (table variant): the range begins inside one of the blocks described by the table proper, i.e.
// offset <= key_points[n-2]; the final block [key_points[n-2], UINT64_MAX) is the table's sentinel.
// Non-trivial input: length >= 1 and the range touches >= 2 blocks or begins or ends exactly on a block boundary;
// or length == 0 at an unaligned offset. (Ranges strictly inside one block and empty ranges at a block boundary are
// evaluated and counted, but are not "non-trivial".)
#include "vh.h"
#include <photon/fs/range-split.h>
#include <photon/fs/range-split-vi.h>

using namespace photon::fs;
typedef unsigned __int128 u128;

enum Variant { V_FIXED = 0, V_POW2 = 1, V_VI = 2 };
static const char* vname[] = {"fixed", "power2", "vi"};

static vh::NamedCounter c_in_small("inputs_small_domain"), c_in_large("inputs_large_values"), c_in_vi_rand("inputs_random_tables"),
    c_parts("parts_checked"), c_aligned_parts("aligned_parts_checked");
// classes of inputs: the case analysis of basic_range_split::init
static vh::NamedCounter c_empty_al("cls_empty_aligned"), c_empty_un("cls_empty_unaligned"), c_small_note("cls_small_note"),
    c_1_pre("cls_one_block_preface"), c_1_post("cls_one_block_postface"), c_1_full("cls_one_whole_block"),
    c_m_pp("cls_multi_preface_postface"), c_m_pre("cls_multi_preface_only"), c_m_post("cls_multi_postface_only"),
    c_m_al("cls_multi_aligned_both"), c_m_3("cls_three_or_more_blocks"), c_near_max("cls_end_within_one_interval_of_2^64");

struct Part { uint64_t i, off, len; };
// fixed-capacity list (no heap traffic in the hot path; the step bound keeps every walk below the capacity)
struct PartList {
    enum { CAP = 256 };
    Part v[CAP];
    size_t n = 0;
    void push_back(const Part& p) { if (n < CAP) v[n++] = p; }
    size_t size() const { return n; }
    bool empty() const { return n == 0; }
    Part& operator[](size_t k) { return v[k]; }
    const Part& operator[](size_t k) const { return v[k]; }
    Part* begin() { return v; }
    Part* end() { return v + n; }
    const Part* begin() const { return v; }
    const Part* end() const { return v + n; }
};

// the specification of the block structure
struct Geo {
    Variant var = V_FIXED;
    uint64_t interval = 1;
    const uint64_t* kp = nullptr;       // key points (exact-size heap array), n entries
    uint64_t n = 0;
    int table_id = -1;
    uint64_t table_hash = 0;
    bool valid_blk(uint64_t i) const { return var != V_VI || i + 1 < n; }      // blocks 0 .. n-2
    u128 start(uint64_t i) const { return var == V_VI ? (u128)kp[i] : (u128)i * interval; }
    u128 len(uint64_t i) const { return var == V_VI ? (u128)kp[i + 1] - kp[i] : (u128)interval; }
    uint64_t index(uint64_t x) const {
        if (var != V_VI) return x / interval;
        uint64_t i = 0;
        while (i + 2 < n && kp[i + 1] <= x) ++i;
        return i;
    }
    bool aligned(uint64_t x) const { return (u128)x == start(index(x)); }
    std::string table() const {
        vh::JArr a;
        for (uint64_t i = 0; i < n; ++i) a.raw(std::to_string(kp[i]));
        return a.str();
    }
};

struct Input { uint64_t offset, length; };

static std::string parts_json(const PartList& v) {
    vh::JArr a;
    for (size_t k = 0; k < v.size() && k < 10; ++k)
        a.raw("[" + std::to_string(v[k].i) + "," + std::to_string(v[k].off) + "," + std::to_string(v[k].len) + "]");
    if (v.size() > 10) a.add("...");
    return a.str();
}
static std::string witness(const Geo& g, const Input& in, const PartList* all = nullptr,
                           const PartList* cls = nullptr, const std::string& extra = "") {
    vh::JObj o;
    o.kv("variant", vname[g.var]).kv("offset", in.offset).kv("length", in.length);
    if (g.var == V_VI) o.raw("key_points", g.table()); else o.kv("interval", g.interval);
    if (all) o.raw("all_parts[i,offset,length]", parts_json(*all));
    if (cls) o.raw("classified[i,offset,length]", parts_json(*cls));
    if (!extra.empty()) o.kv("detail", extra);
    return o.str();
}
static const char* range_class(const Geo& g, const Input& in) {
    if (in.length) return "nonempty-range";
    return g.aligned(in.offset) ? "empty-range-at-aligned-offset" : "empty-range-at-unaligned-offset";
}
static void fail(const std::string& key, const std::string& what, const Geo& g, const Input& in,
                 const PartList* all = nullptr, const PartList* cls = nullptr, const std::string& extra = "") {
    vh::violation(key + ":" + vname[g.var], what, witness(g, in, all, cls, extra));
}

// walk a library iterator with a step bound; false = it did not terminate (already reported)
template <class Range>
static bool walk(const char* iter_name, Range rng, bool step_reads_next_block, const Geo& g, const Input& in, uint64_t bound,
                 PartList& out) {
    auto it = rng.begin();
    auto e = rng.end();
    uint64_t steps = 0;
    for (; it != e; ++it) {
        if (++steps > bound) {
            fail(std::string(iter_name) + "/never-reaches-end:" + range_class(g, in),
                 std::string(iter_name) + "() did not reach end() within (blocks touched by the range)+4 steps", g, in, &out, nullptr,
                 "begin().i=" + std::to_string(rng.begin().i) + " end().i=" + std::to_string(e.i) + " bound=" + std::to_string(bound));
            return false;
        }
        out.push_back(Part{it->i, it->offset, it->length});
        // table variant: the increment reads the length of block i+1; do not let it read outside the table
        if (g.var == V_VI) {
            uint64_t nx = it->i + 1;
            bool reads = step_reads_next_block || nx != e.i;
            if (reads && !g.valid_blk(nx) && nx != e.i) {
                fail(std::string(iter_name) + "/never-reaches-end:" + range_class(g, in),
                     std::string(iter_name) + "() steps beyond the last block of the key-point table without reaching end()", g, in, &out,
                     nullptr, "at i=" + std::to_string(it->i) + " end().i=" + std::to_string(e.i));
                return false;
            }
        }
    }
    return true;
}

static void classify_input(const Geo& g, const Input& in, uint64_t nblk, bool b_al, bool e_al) {
    if (!in.length) { (b_al ? c_empty_al : c_empty_un).add(); return; }
    if (nblk == 1) {
        if (!b_al && !e_al) c_small_note.add();
        else if (!b_al) c_1_pre.add();
        else if (!e_al) c_1_post.add();
        else c_1_full.add();
    } else {
        if (!b_al && !e_al) c_m_pp.add();
        else if (!b_al) c_m_pre.add();
        else if (!e_al) c_m_post.add();
        else c_m_al.add();
        if (nblk >= 3) c_m_3.add();
    }
}

template <class RS>
static void check_split(const RS& rs, const Geo& g, const Input& in) {
    const uint64_t begin = in.offset, end = in.offset + in.length;
    const bool empty = in.length == 0;
    const uint64_t ib = g.index(begin);
    const uint64_t nblk = empty ? 0 : g.index(end - 1) - ib + 1;
    const bool b_al = g.aligned(begin), e_al = g.aligned(end);
    classify_input(g, in, nblk, b_al, e_al);
    if (g.var != V_VI && (u128)end + g.interval > (u128)UINT64_MAX - g.interval) c_near_max.add();
    const uint64_t bound = nblk + 4;

    // ---- all_parts
    PartList all;
    bool all_ok = walk("all_parts", rs.all_parts(), false, g, in, bound, all);
    vh::event();
    c_parts.add(all.size());
    if (all_ok) {
        if (empty) {
            for (auto& p : all)
                if (p.len) { fail("all_parts/nonempty-part-for-empty-range", "an empty range produced a non-empty part", g, in, &all); break; }
        } else {
            u128 pos = begin;
            bool bad = false;
            if (all.empty()) { fail("all_parts/union-mismatch", "a non-empty range produced no part", g, in, &all); bad = true; }
            for (size_t k = 0; k < all.size() && !bad; ++k) {
                auto& p = all[k];
                if (!p.len) { fail("all_parts/empty-part", "a non-empty range produced an empty part", g, in, &all); bad = true; break; }
                if (!g.valid_blk(p.i)) { fail("all_parts/part-exceeds-block", "a part names a block outside the table", g, in, &all); bad = true; break; }
                if ((u128)p.off + p.len > g.len(p.i)) { fail("all_parts/part-exceeds-block", "a part is not inside the single block it names", g, in, &all); bad = true; break; }
                u128 s = g.start(p.i) + p.off;
                if (s != pos) {
                    fail(k == 0 ? "all_parts/union-mismatch" : "all_parts/not-adjacent",
                         k == 0 ? "the first part does not start at the requested offset" : "a part does not start where the previous one ended", g, in, &all);
                    bad = true; break;
                }
                pos = s + p.len;
            }
            if (!bad && pos != (u128)end) fail("all_parts/union-mismatch", "the parts do not end at offset+length", g, in, &all);
        }
    }

    // ---- classification
    PartList cls;
    bool cls_ok = true;
    auto shape = [&](const char* name, const sub_range& r, bool want_off0, bool want_to_end) {
        if (!g.valid_blk(r.i)) { fail(std::string("classification/") + name + "-shape", std::string(name) + " names a block outside the table", g, in, &all); return; }
        bool off0 = r.offset == 0, to_end = (u128)r.offset + r.length == g.len(r.i);
        if (off0 != want_off0 || to_end != want_to_end)
            fail(std::string("classification/") + name + "-shape", std::string(name) + " does not have the alignment its name documents", g, in, &all, nullptr,
                 "[" + std::to_string(r.i) + "," + std::to_string(r.offset) + "," + std::to_string(r.length) + "]");
    };
    if (rs.small_note) {
        cls.push_back(Part{rs.small_note.i, rs.small_note.offset, rs.small_note.length});
        shape("small_note", rs.small_note, false, false);
    } else {
        if (rs.preface) {
            cls.push_back(Part{rs.preface.i, rs.preface.offset, rs.preface.length});
            shape("preface", rs.preface, false, true);
        }
        PartList al;
        cls_ok = walk("aligned_parts", rs.aligned_parts(), true, g, in, bound, al);
        c_aligned_parts.add(al.size());
        if (cls_ok) {
            for (auto& p : al) {
                cls.push_back(p);
                shape("aligned_part", sub_range(p.i, p.off, p.len), true, true);
            }
        }
        if (rs.postface) {
            cls.push_back(Part{rs.postface.i, rs.postface.offset, rs.postface.length});
            shape("postface", rs.postface, true, false);
        }
    }
    vh::event();
    if (cls_ok && all_ok) {
        PartList a, c;
        for (auto& p : all) if (p.len) a.push_back(p);
        for (auto& p : cls) if (p.len) c.push_back(p);
        bool same = a.size() == c.size();
        for (size_t k = 0; same && k < a.size(); ++k) same = a[k].i == c[k].i && a[k].off == c[k].off && a[k].len == c[k].len;
        if (!same) fail("classification/reassembly-mismatch", "small_note | preface + aligned_parts + postface differs from all_parts", g, in, &all, &cls);
    }

    // ---- aligned begin / end offsets
    {
        u128 abo = rs.aligned_begin_offset(), aeo = rs.aligned_end_offset();
        u128 want_b = g.start(ib);                                  // the block boundary at or below begin
        u128 want_e = e_al ? (u128)end : g.start(g.index(end)) + g.len(g.index(end));   // the block boundary at or above end
        if (abo != want_b)
            fail("aligned_begin_offset/wrong", "aligned_begin_offset() is not the block boundary with abo <= offset < abo+interval", g, in, nullptr, nullptr,
                 "got " + std::to_string((uint64_t)abo) + " want " + std::to_string((uint64_t)want_b));
        if (aeo != want_e)
            fail("aligned_end_offset/wrong", "aligned_end_offset() is not the block boundary with aeo-interval < offset+length <= aeo", g, in, nullptr, nullptr,
                 "got " + std::to_string((uint64_t)aeo) + " want " + std::to_string((uint64_t)want_e));
        vh::event();
    }

    bool nontrivial = empty ? !b_al : (nblk >= 2 || b_al || e_al);
    uint64_t h = vh::mix(vh::mix(in.offset, in.length), vh::mix(g.var, g.var == V_VI ? g.table_hash : g.interval));
    vh::note_input(h, nontrivial);
    if (nontrivial && (h & 0xfff) == 0)
        vh::sample(vh::JObj().raw("input", witness(g, in)).raw("all_parts", parts_json(all)).raw("classified", parts_json(cls)).str());
}

static void run_one(const Geo& g, const Input& in) {
    switch (g.var) {
    case V_FIXED: { range_split rs(in.offset, in.length, g.interval); check_split(rs, g, in); break; }
    case V_POW2: { range_split_power2 rs(in.offset, in.length, g.interval); check_split(rs, g, in); break; }
    case V_VI: { range_split_vi rs(in.offset, in.length, g.kp, g.n); check_split(rs, g, in); break; }
    }
}

// an exact-size heap copy of a key-point table
static uint64_t* heap_table(const std::vector<uint64_t>& v) {
    auto p = (uint64_t*)malloc(v.size() * sizeof(uint64_t));
    memcpy(p, v.data(), v.size() * sizeof(uint64_t));
    return p;
}

// key-point tables of the bounded domain; every table has key_points[n-2] >= the largest offset of the domain
static std::vector<std::vector<uint64_t>> small_tables(uint64_t maxv) {
    const uint64_t M = UINT64_MAX;
    std::vector<std::vector<uint64_t>> t;
    t.push_back({0, maxv + 1, M});                                             // minimal table (n = 3)
    t.push_back({0, 1, 2, 3, 4, 5, 6, 7, 8, maxv + 10, M});                      // one-byte blocks
    t.push_back({0, 5, 6, 20, 21, 22, 40, 64, maxv + 2, M});
    t.push_back({0, 16, 32, 48, 64, 80, 96, 112, 128, 144, 160, M});           // regular
    t.push_back({0, 1, 3, 7, 15, 31, 63, 127, 255, M});                        // growing
    t.push_back({0, 50, 51, 52, 70, 71, 72, 140, 141, 142, M});                // tiny blocks at the domain's edges
    t.push_back({0, 7, 14, 21, 28, 35, 42, 49, 56, 63, 70, 77, 84, 91, 98, 105, 112, 119, 126, 133, 140, 147, M});
    t.push_back({0, 69, 70, 71, 139, 140, 141, 142, M});
    for (auto& v : t)
        while (v[v.size() - 2] < maxv) v.insert(v.end() - 1, v[v.size() - 2] + 37);
    return t;
}

static uint64_t rand_bits(vh::Rng& r, int maxbits) {      // log-uniform magnitude
    int b = (int)r.range(0, maxbits);
    if (b == 0) return r.below(2);
    uint64_t lo = 1ull << (b - 1);
    return lo + r.below(lo);
}

int main(int argc, char** argv) {
    vh::init(argc, argv);
    auto& A = vh::args();
    vh::Rng rng(vh::mix(A.xseed(), vh::hash_bytes(VH_FLAVOR, strlen(VH_FLAVOR))));    // flavors explore different values
    const bool th = A.thorough();
    const uint64_t nexec = std::max<int64_t>(1, A.geti("nexec", 1));
    const uint64_t slice = A.exec % nexec;
    const uint64_t maxv = A.geti("maxv", th ? 130 : 70);            // offset, length in [0, maxv]
    const uint64_t maxi = A.geti("maxi", th ? 33 : 17);             // interval in [1, maxi]
    const uint64_t maxp2 = A.geti("maxp2", th ? 128 : 64);          // power-of-two intervals up to maxp2
    const uint64_t n_large = A.geti("large", th ? 200000 : 60000);
    const uint64_t n_vi = A.geti("vi", th ? 100000 : 30000);
    vh::config("bounded_domain", "offset,length in [0," + std::to_string(maxv) + "], interval in [1," + std::to_string(maxi) + "], power2 intervals <= " +
               std::to_string(maxp2) + ", 8 key-point tables; slice " + std::to_string(slice) + " of " + std::to_string(nexec));

    // ---------------- (a) bounded domain, complete enumeration of this execution's slice
    if (A.geti("small", 1)) {
        uint64_t item = 0;
        auto mine = [&]() { return (item++ % nexec) == slice; };
        Geo g;
        for (uint64_t I = 1; I <= maxi; ++I)
            for (uint64_t off = 0; off <= maxv; ++off) {
                if (!mine()) continue;
                g.var = V_FIXED; g.interval = I;
                for (uint64_t len = 0; len <= maxv; ++len) { run_one(g, Input{off, len}); c_in_small.add(); }
            }
        for (uint64_t I = 1; I <= maxp2; I *= 2)
            for (uint64_t off = 0; off <= maxv; ++off) {
                if (!mine()) continue;
                g.var = V_POW2; g.interval = I;
                for (uint64_t len = 0; len <= maxv; ++len) { run_one(g, Input{off, len}); c_in_small.add(); }
            }
        auto tabs = small_tables(maxv);
        int tid = 0;
        for (auto& t : tabs) {
            uint64_t* kp = heap_table(t);
            g.var = V_VI; g.kp = kp; g.n = t.size(); g.table_id = tid++; g.table_hash = vh::hash_bytes(kp, g.n * 8);
            for (uint64_t off = 0; off <= maxv; ++off) {
                if (!mine()) continue;
                for (uint64_t len = 0; len <= maxv; ++len) { run_one(g, Input{off, len}); c_in_small.add(); }
            }
            free(kp);
        }
        vh::set_exhaustive(true);       // this slice was enumerated completely (the driver ANDs the slices)
        vh::progress();
    }

    // ---------------- (b) seeded large values
    for (uint64_t k = 0; k < n_large; ++k) {
        Geo g;
        g.var = rng.chance(1, 3) ? V_POW2 : V_FIXED;
        uint64_t I;
        if (g.var == V_POW2) I = 1ull << rng.range(0, 63);
        else {
            I = rand_bits(rng, 63);
            if (I == 0) I = 1;
            if (rng.chance(1, 4)) { I = 1ull << rng.range(0, 62); I += rng.pick({(uint64_t)0, (uint64_t)1, (uint64_t)-1}); if (I == 0) I = 1; }
        }
        g.interval = I;
        // length: at most ~66 intervals, and length + interval <= 2^64-1
        u128 lim = std::min<u128>((u128)UINT64_MAX - I, (u128)I * 66);
        uint64_t len;
        switch (rng.below(8)) {
        case 0: len = 0; break;
        case 1: len = 1; break;
        case 2: len = I - 1; break;
        case 3: len = I; break;
        case 4: len = (uint64_t)std::min<u128>(lim, (u128)I + 1); break;
        case 5: len = (uint64_t)std::min<u128>(lim, (u128)I * rng.range(1, 64)); break;      // whole blocks
        default: len = (uint64_t)(((u128)rng.next() << 64 | rng.next()) % (lim + 1)); break;
        }
        if ((u128)len > lim) len = (uint64_t)lim;
        u128 omax = (u128)UINT64_MAX - len - I;          // offset + length + interval <= 2^64-1
        uint64_t off;
        uint64_t kmax = (uint64_t)(omax / I);
        uint64_t kblk = rng.chance(1, 3) ? kmax - std::min<uint64_t>(kmax, rng.below(3)) : std::min<uint64_t>(kmax, rand_bits(rng, 64));
        u128 base = (u128)kblk * I;
        switch (rng.below(5)) {
        case 0: off = (uint64_t)base; break;                                            // begins on a boundary
        case 1: off = (uint64_t)std::min<u128>(omax, base + I - 1); break;              // last byte of a block
        case 2: {                                                                       // ends on a boundary
            u128 e = base + (u128)I * (1 + len / I + 1);
            off = e >= len && e - len <= omax ? (uint64_t)(e - len) : (uint64_t)base;
            break;
        }
        case 3: off = (uint64_t)omax; break;                                            // as high as allowed
        default: off = (uint64_t)std::min<u128>(omax, base + rng.below(I)); break;
        }
        run_one(g, Input{off, len});
        c_in_large.add();
        if ((k & 0xfff) == 0) vh::progress();
    }

    // ---------------- (c) seeded key-point tables
    for (uint64_t k = 0; k < n_vi;) {
        uint64_t n = rng.range(3, 3 + rng.pick({2u, 6u, 20u}));
        std::vector<uint64_t> t(n);
        t[0] = 0;
        int style = (int)rng.below(3);
        for (uint64_t i = 1; i + 1 < n; ++i) {
            uint64_t step = style == 0 ? rng.range(1, 4) : style == 1 ? rng.range(1, 40) : rand_bits(rng, 40) + 1;
            t[i] = t[i - 1] + step;
        }
        t[n - 1] = UINT64_MAX;
        uint64_t* kp = heap_table(t);
        Geo g;
        g.var = V_VI; g.kp = kp; g.n = n; g.table_hash = vh::hash_bytes(kp, n * 8);
        uint64_t last = t[n - 2];
        uint64_t per = rng.range(8, 40);
        for (uint64_t j = 0; j < per && k < n_vi; ++j, ++k) {
            uint64_t off, len;
            // begin: on a key point, next to one, or anywhere up to the last key point of the table proper
            uint64_t ki = rng.below(n - 1);
            switch (rng.below(4)) {
            case 0: off = t[ki]; break;
            case 1: off = t[ki] ? t[ki] - 1 : 0; break;
            case 2: off = std::min(last, t[ki] + 1); break;
            default: off = rng.below(last + 1); break;
            }
            // end: on a key point at or after begin, next to one, inside the sentinel block, or len 0/1
            uint64_t ke = rng.range(g.index(off), n - 2);
            switch (rng.below(6)) {
            case 0: len = 0; break;
            case 1: len = 1; break;
            case 2: len = t[ke] >= off ? t[ke] - off : 0; break;
            case 3: len = t[ke] >= off ? t[ke] - off + 1 : 1; break;
            case 4: len = t[ke] > off ? t[ke] - off - 1 : 0; break;
            default: len = rng.below(last - off + 1 + rng.below(50)); break;
            }
            run_one(g, Input{off, len});
            c_in_vi_rand.add();
        }
        free(kp);
        vh::progress();
    }
    return vh::finish();
}
