// C06 - photon::rwlock and photon::qrwlock: writers exclusive, readers shared, a failed lock() is a no-op,
// waiters are admitted after the last holder unlocked.
// Occupancy monitor (conservative intervals: marked after lock() returned 0, unmarked before unlock()):
//   reader: readers++ then writer must be 0; writer: writer.exchange(1) must be 0 then readers must be 0.
#include "vh.h"
#include "vh_intr.h"
#include <photon/common/timeout.h>

using namespace photon;

static vh::NamedCounter c_r_ok("read_locked"), c_w_ok("write_locked"), c_timeout("lock_timeout"), c_intr("lock_interrupted"),
    c_try_ok("try_lock_ok"), c_try_fail("try_lock_fail"), c_shared("reader_entered_while_other_readers_inside"),
    c_sent("interrupts_sent"), c_stale("interrupt_code_seen_again"), c_blocked_wait("untimed_locks");

struct RW {
    bool q;                     // qrwlock?
    rwlock* a = nullptr;
    qrwlock* b = nullptr;
    std::atomic<int> readers{0}, writer{0};
    std::atomic<int> max_readers{0};
    uint64_t payload = 0;       // plain: written by writers, read by readers
    std::atomic<uint64_t> writes{0};
    int lock(int mode, Timeout t) { return q ? b->lock(mode, t) : a->lock(mode, t); }
    int unlock() { return q ? b->unlock() : a->unlock(); }
    const char* name() const { return q ? "qrwlock" : "rwlock"; }
};
constexpr int MAXT = 64;
struct Worker {
    vh::IntrTarget it;
    std::atomic<int> blocked_on{-1}, blocked_mode{0};
};
static std::vector<RW*> g_locks;
static Worker g_w[MAXT];
static int g_nw = 0;
static std::atomic<int> g_done{0}, g_aux{0};
static std::atomic<bool> g_stop{false};
static uint64_t g_ops = 0;
static thread_local volatile uint64_t g_sink;

static void enter(RW& L, int mode) {
    if (mode == RLOCK) {
        int before = L.readers.fetch_add(1, vh::MO);
        if (L.writer.load(vh::MO) != 0)
            vh::violation(std::string("exclusion/reader-with-writer:") + L.name(), "a read lock was granted while a writer was inside", "null");
        if (before > 0) c_shared.add();
        int m = L.max_readers.load(vh::MO);
        while (before + 1 > m && !L.max_readers.compare_exchange_weak(m, before + 1, vh::MO)) {}
        g_sink = L.payload;                 // plain read, concurrent with other readers only
        c_r_ok.add();
    } else {
        if (L.writer.exchange(1, vh::MO) != 0)
            vh::violation(std::string("exclusion/two-writers:") + L.name(), "a write lock was granted while another writer was inside", "null");
        if (L.readers.load(vh::MO) != 0)
            vh::violation(std::string("exclusion/writer-with-readers:") + L.name(), "a write lock was granted while readers were inside", "null");
        L.payload++;
        L.writes.fetch_add(1, vh::MO);
        c_w_ok.add();
    }
}
static void leave(RW& L, int mode) {
    if (mode == RLOCK) L.readers.fetch_sub(1, vh::MO); else L.writer.store(0, vh::MO);
    if (L.unlock() != 0)
        vh::violation(std::string("unlock/failed:") + L.name(), "unlock() of a held lock reported an error", vh::JObj().kv("errno", errno).str());
}

static void* worker_main(void* arg) {
    auto& w = *(Worker*)arg;
    w.it.th.store(CURRENT, std::memory_order_release);
    vh::Rng r(vh::mix(vh::args().xseed(), 100 + w.it.id));
    for (uint64_t op = 0; op < g_ops; ++op) {
        int li = r.below(g_locks.size());
        auto& L = *g_locks[li];
        int mode = r.chance(7, 10) ? RLOCK : WLOCK;
        int how = r.below(10);
        if (L.q && r.chance(1, 2)) how = 9;     // qrwlock: its lock-free try-lock paths are the interesting ones, hammer them
        vh::event();
        int ret;
        if (how < 3) {
            c_blocked_wait.add();
            w.blocked_mode.store(mode, vh::MO); w.blocked_on.store(li, vh::MO);
            ret = L.lock(mode, Timeout());
            int e = errno;
            w.blocked_on.store(-1, vh::MO);
            if (ret != 0) {
                if (e == ETIMEDOUT) vh::violation(std::string("timeout/untimed-lock:") + L.name(), "lock() without timeout returned ETIMEDOUT", "null");
                else { c_intr.add(); int k = w.it.reported_errno(e); if (k == 2) c_stale.add();
                       if (k == 0) vh::violation(std::string("errno/unexplained:") + L.name(), "lock failed with an errno that is neither ETIMEDOUT nor an interrupt code", vh::JObj().kv("errno", e).str()); }
            }
        } else if (how < 8 || !L.q) {
            Timeout t(r.pick<uint64_t>({0, 1, r.range(5, 300), r.range(5, 300), r.range(500, 2500)}));
            ret = L.lock(mode, t);
            int e = errno;
            if (ret != 0) {
                if (e == ETIMEDOUT) {
                    c_timeout.add();
                    auto rt = vh::boottime_us();
                    if (t.expiration() != 0 && rt < t.expiration())
                        vh::violation(std::string("timeout/early:") + L.name(), "ETIMEDOUT before the deadline",
                                      vh::JObj().kv("expiration", t.expiration()).kv("clock", rt).str());
                } else { c_intr.add(); int k = w.it.reported_errno(e); if (k == 2) c_stale.add();
                         if (k == 0) vh::violation(std::string("errno/unexplained:") + L.name(), "lock failed with an errno that is neither ETIMEDOUT nor an interrupt code", vh::JObj().kv("errno", e).str()); }
            }
        } else {
            ret = L.b->try_lock(mode);
            if (ret == 0) c_try_ok.add(); else c_try_fail.add();
        }
        if (ret == 0) {
            enter(L, mode);
            switch (r.below(4)) {
            case 0: break;
            case 1: thread_yield(); break;
            default: thread_usleep(r.range(1, 60));
            }
            leave(L, mode);
        }
        vh::progress();
        if (r.chance(1, 6)) thread_yield();
    }
    g_done.fetch_add(1, std::memory_order_acq_rel);
    while (!g_stop.load(std::memory_order_acquire)) { if (thread_usleep(1000) < 0 && w.it.reported_errno(errno) == 2) c_stale.add(); }
    return nullptr;
}
static void* interrupter_main(void* arg) {
    vh::Rng r(vh::mix(vh::args().xseed(), 500 + (uint64_t)arg));
    while (g_done.load(std::memory_order_acquire) < g_nw) {
        if (g_w[r.below(g_nw)].it.send()) c_sent.add();
        thread_usleep(r.range(1, 300));
    }
    g_aux.fetch_sub(1, std::memory_order_acq_rel);
    return nullptr;
}

static bool on_stuck(std::string& key, std::string& what, std::string& wit) {
    vh::JArr a;
    bool proved = false;
    for (int i = 0; i < g_nw; ++i) {
        int li = g_w[i].blocked_on.load();
        if (li < 0) continue;
        auto& L = *g_locks[li];
        int rd = L.readers.load(), wr = L.writer.load();
        a.raw(vh::JObj().kv("worker", i).kv("lock", li).kv("kind", L.name()).kv("wants", g_w[i].blocked_mode.load() == RLOCK ? "read" : "write")
                  .kv("readers_inside", rd).kv("writer_inside", wr).str());
        if (rd == 0 && wr == 0) {
            proved = true;
            key = std::string("stuck/nobody-inside-but-locker-blocked:") + L.name();
            what = "a thread stays blocked in lock() although no reader and no writer holds the lock";
        }
    }
    wit = a.str();
    if (!proved) { key = "rwlock-workload"; what = "no progress " + wit; }
    return proved;
}


// ------------------------------------------------------------------ scripted admission rounds (one vCPU)
// "after the last holder unlocks, a waiting writer or all waiting readers are admitted", also when a writer that
// was queued in front of those readers gave up meanwhile. One vCPU, so the verdict is in logical steps: a woken
// reader is READY and runs at the holder's next yield; a reader that is still blocked after many yields of the
// admitted ones (who keep holding the lock) was not woken.
namespace script {
struct Th { RW* L; int mode; int how; std::atomic<int> calling{0}, inside{0}, ret{99}, err{0}, finished{0}; std::atomic<thread*> th{nullptr}; };
static std::atomic<int> g_inside{0}, g_release{0};
static vh::NamedCounter c_rounds("script_rounds"), c_gaveup("script_writer_gave_up"), c_batch("script_reader_batches_admitted");
static void* locker(void* a) {
    Th& t = *(Th*)a;
    t.th.store(CURRENT, vh::MO);
    t.calling.store(1, vh::MO);
    int ret = t.how == 1 ? t.L->lock(t.mode, Timeout(3000)) : t.L->lock(t.mode, Timeout());
    t.err.store(errno, vh::MO); t.ret.store(ret, vh::MO);
    if (ret == 0) {
        enter(*t.L, t.mode);
        t.inside.store(1, vh::MO); g_inside.fetch_add(1, vh::MO);
        while (!g_release.load(vh::MO)) thread_usleep(50);
        g_inside.fetch_sub(1, vh::MO);
        leave(*t.L, t.mode);
    }
    t.finished.store(1, vh::MO);
    vh::progress();
    return nullptr;
}
static void settle(int yields = 40) { for (int i = 0; i < yields; ++i) { thread_usleep(20); vh::progress(); } }
static int run(vh::Rng& r) {
    int rounds = vh::args().thorough() ? 400 : 120;
    if (vh::is_tsan()) rounds /= 3;
    rounds = std::max<int>(10, rounds / vh::args().shape_div());
    using namespace photon::verif;
    vh::arm_stalls(r, {P_RWLOCK_UNLOCK, P_WAITQ_RESUME, P_PRELOCKED_INTERRUPT, P_RESUME_BEFORE_LOCK, P_MUTEX_UNLOCK});
    vh::config("section", "admission-script"); vh::config("vcpus", 1); vh::config("rounds", rounds);
    vh::start_supervisor([](std::string& k, std::string& w, std::string&) { k = "rwlock-script"; w = "script made no progress"; return false; });
    vh::VCpus vc;
    vc.run(1, nullptr, [&](int) {
        for (int round = 0; round < rounds; ++round) {
            RW L; L.q = vh::args().has("kind") ? vh::args().gets("kind", "") == "qrwlock" : r.chance(1, 3);
            if (L.q) L.b = new qrwlock; else L.a = new rwlock;
            int variant = r.below(4);       // 0,1: writer in front gives up (timeout / interrupt); 2: holder is a writer; 3: queued writer is admitted first
            int k = r.range(2, 5);
            int holder_mode = variant == 2 ? WLOCK : RLOCK;
            g_inside.store(0); g_release.store(0);
            if (L.lock(holder_mode, Timeout()) != 0) vh::machinery_failure("script: free lock refused");
            enter(L, holder_mode);
            std::vector<Th*> ths; std::vector<join_handle*> jh;
            Th* W = nullptr;
            auto start = [&](int mode, int how) {
                auto t = new Th; t->L = &L; t->mode = mode; t->how = how; ths.push_back(t);
                jh.push_back(thread_enable_join(thread_create(locker, t, 128 * 1024)));
                while (!t->calling.load(vh::MO)) thread_yield();
                thread_yield();
                return t;
            };
            if (variant != 2) W = start(WLOCK, variant == 0 ? 1 : 0);
            std::vector<Th*> R;
            for (int i = 0; i < k; ++i) R.push_back(start(RLOCK, 0));
            settle(10);
            std::string tag = std::string(L.name()) + (variant == 0 ? ":after-writer-timed-out" : variant == 1 ? ":after-writer-was-interrupted"
                                                        : variant == 2 ? ":after-writer-unlocked" : ":after-queued-writer-finished");
            if (variant == 0) { while (!W->finished.load(vh::MO)) { thread_usleep(200); vh::progress(); } }
            if (variant == 1) { thread_interrupt(W->th.load(vh::MO), EINTR); while (!W->finished.load(vh::MO)) { thread_usleep(50); vh::progress(); } }
            if (variant <= 1) {
                if (W->ret.load() == 0) vh::violation("exclusion/writer-with-readers:" + std::string(L.name()), "a write lock was granted while a reader held the lock", "null");
                c_gaveup.add();
            }
            int in0 = 0; for (auto t : R) in0 += t->inside.load(vh::MO);     // a lock may let readers pass a waiting writer
            leave(L, holder_mode);
            if (variant == 3 && in0 == 0) {             // the queued writer goes first and alone; the readers follow when it unlocks
                settle(20);
                if (!W->inside.load(vh::MO))
                    vh::violation("admission/waiting-writer-not-admitted:" + tag, "the last reader unlocked and the writer at the head of the queue was not admitted", "null");
                else if (g_inside.load(vh::MO) != 1)
                    vh::violation("exclusion/writer-with-readers:" + std::string(L.name()), "readers were admitted together with the queued writer", "null");
                // let only the writer go: readers still wait for g_release, so release is per thread here
            }
            if (variant != 3) {
                settle(40);
                int in = 0; for (auto t : R) in += t->inside.load(vh::MO);
                if (in != k)
                    vh::violation("admission/waiting-readers-not-all-admitted:" + tag,
                                  "the last holder unlocked, no writer is waiting, and some of the readers that were waiting stay blocked while the admitted ones hold the lock",
                                  vh::JObj().kv("waiting_readers", k).kv("admitted", in).kv("lock", L.name()).str());
                else c_batch.add();
            }
            g_release.store(1, vh::MO);
            for (auto h : jh) thread_join(h);
            for (auto t : R) if (t->ret.load() != 0) vh::violation("admission/untimed-read-lock-failed:" + tag, "an untimed, uninterrupted read lock failed", vh::JObj().kv("errno", t->err.load()).str());
            for (auto t : ths) delete t;
            if (L.lock(WLOCK, Timeout(0)) != 0)
                vh::violation(std::string("noop/write-lock-refused-at-quiescence:") + L.name(), "after all holders unlocked, a write lock is refused", "null");
            else L.unlock();
            if (L.q) delete L.b; else delete L.a;
            c_rounds.add(); vh::event(k + 2);
        }
    });
    vh::set_sig("script|" + std::to_string(vh::log2bucket(c_gaveup.get())) + "|" + std::to_string(vh::log2bucket(c_batch.get())), c_batch.get() > 0 && c_gaveup.get() > 0);
    vh::sample(vh::JObj().kv("section", "admission-script").kv("rounds", c_rounds.get()).kv("writer_gave_up_rounds", c_gaveup.get()).kv("reader_batches_admitted", c_batch.get()).str());
    return vh::finish();
}
}  // namespace script

int main(int argc, char** argv) {
    vh::init(argc, argv);
    vh::Rng r(vh::args().xseed());
    if (vh::args().has("section") ? vh::args().gets("section", "") == "script" : vh::args().exec % 8 == 6) return script::run(r);
    int nv = vh::args().geti("vcpus", r.pick({1, 2, 2, 3, 4}));
    int tpv = r.range(2, 8);
    g_ops = vh::args().geti("ops", vh::args().thorough() ? 15000 : 4000);
    if (vh::is_tsan()) g_ops /= 4;
    g_ops /= vh::args().shape_div();
    int nl = r.range(1, 2);
    std::string kinds;
    int force = vh::args().has("kind") ? (vh::args().gets("kind", "") == "qrwlock" ? 1 : 0) : -1;
    for (int i = 0; i < nl; ++i) {
        auto L = new RW;
        L->q = force >= 0 ? force : r.chance(1, 2);
        if (L->q) L->b = new qrwlock; else L->a = new rwlock;
        g_locks.push_back(L);
        kinds += std::string(L->name()) + ";";
    }
    g_nw = std::min(nv * tpv, MAXT);
    for (int i = 0; i < g_nw; ++i) g_w[i].it.init(i);
    bool with_intr = r.chance(3, 4);
    using namespace photon::verif;
    vh::arm_stalls(r, {P_QRW_UNLOCK_SHARED, P_RWLOCK_UNLOCK, P_WAITQ_RESUME, P_PRELOCKED_INTERRUPT, P_RESUME_BEFORE_LOCK, P_INTERRUPT_BEFORE_LOCK,
                       P_MUTEX_UNLOCK, P_MUTEX_LOCK_AFTER_WAKE});
    vh::config("vcpus", nv); vh::config("workers", g_nw); vh::config("locks", kinds); vh::config("ops", g_ops); vh::config("interrupters", with_intr);
    vh::start_supervisor(on_stuck);
    g_aux.store(with_intr ? nv : 0);
    vh::VCpus vc;
    vc.run(nv, nullptr, [&](int v) {
        std::vector<join_handle*> jh;
        for (int i = v; i < g_nw; i += nv) jh.push_back(thread_enable_join(thread_create(worker_main, &g_w[i], 256 * 1024)));
        join_handle* ih = with_intr ? thread_enable_join(thread_create(interrupter_main, (void*)(uint64_t)v, 128 * 1024)) : nullptr;
        if (ih) thread_join(ih);
        if (v == 0) { while (g_aux.load(std::memory_order_acquire) > 0) thread_usleep(200); g_stop.store(true, std::memory_order_release); }
        for (auto h : jh) thread_join(h);
        if (v == 0) {
            while (g_done.load(std::memory_order_acquire) < g_nw) thread_usleep(200);
            // quiescence: the lock state must be as if the failed calls had never happened
            for (size_t i = 0; i < g_locks.size(); ++i) {
                auto& L = *g_locks[i];
                if (L.lock(WLOCK, Timeout(0)) != 0)
                    vh::violation(std::string("noop/write-lock-refused-at-quiescence:") + L.name(),
                                  "after all holders unlocked, a write lock is refused: a failed lock() left a trace in the lock state",
                                  vh::JObj().kv("errno", errno).str());
                else {
                    L.unlock();
                    if (L.lock(RLOCK, Timeout(0)) != 0)
                        vh::violation(std::string("noop/read-lock-refused-at-quiescence:") + L.name(), "read lock refused on a free lock", "null");
                    else L.unlock();
                }
                if (L.payload != L.writes.load())
                    vh::violation(std::string("exclusion/lost-update:") + L.name(), "plain counter written under the write lock lost updates", "null");
            }
        }
    });
    int maxr = 0;
    for (auto L : g_locks) maxr = std::max(maxr, L->max_readers.load());
    bool nontrivial = maxr >= 2 && c_w_ok.get() > 0 && (c_timeout.get() + c_intr.get()) > 0;
    vh::set_sig(kinds + "|v" + std::to_string(nv) + "|w" + std::to_string(g_nw) + "|" +
                    vh::cov_signature({C_RWLOCK_WAIT, C_QRW_SLOWPATH, C_CROSS_VCPU_WAKE, C_INDIRECT_LOCK_RETRY}) +
                    "maxr:" + std::to_string(vh::log2bucket(maxr)) + ",to:" + std::to_string(vh::log2bucket(c_timeout.get())) +
                    ",in:" + std::to_string(vh::log2bucket(c_intr.get())),
                nontrivial);
    vh::sample(vh::JObj().kv("locks", kinds).kv("vcpus", nv).kv("workers", g_nw).kv("read_locked", c_r_ok.get()).kv("write_locked", c_w_ok.get())
                   .kv("max_concurrent_readers", maxr).kv("timeouts", c_timeout.get()).kv("interrupted", c_intr.get()).str());
    return vh::finish();
}
