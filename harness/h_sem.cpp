// C02 - photon::semaphore: token conservation, failed wait takes nothing, no lost wake-up,
// signal() from any OS thread, destroy right after wait() returned.
// Workload is demand driven: signallers add tokens only while the tokens supplied so far are fewer than
// the tokens requested by all waits started so far. Hence, once every started wait has been covered, nobody
// signals again, and a waiter that is still blocked although count() covers its demand stays blocked: the
// supervisor then proves the lost wake-up from the ledger (count() >= demand of a blocked waiter).
#include "vh.h"
#include "vh_intr.h"
#include <photon/common/timeout.h>

using namespace photon;

static vh::NamedCounter c_wait_ok("wait_ok"), c_wait_timeout("wait_timeout"), c_wait_intr("wait_interrupted"),
    c_signals("signals"), c_signals_os("signals_from_os_thread"), c_blocked("waits_that_blocked"),
    c_destroy("destroy_after_wait_rounds"), c_stale("interrupt_code_seen_again"), c_intr_sent("interrupts_sent"), c_arrived_during_signal("destroy_waiter_saw_token_before_wait");

struct Sem {
    semaphore* s;
    bool ooo;
    uint64_t initial;
    std::atomic<uint64_t> signalled_started{0};     // tokens of signal() calls that started
    std::atomic<uint64_t> taken{0};                 // tokens of waits that returned 0
    std::atomic<uint64_t> demand_started{0};        // tokens requested by waits that started
};

constexpr int MAXW = 64;
struct Waiter {
    vh::IntrTarget it;
    std::atomic<int> blocked_sem{-1};               // while inside an untimed wait
    std::atomic<uint64_t> blocked_demand{0};
};

static std::vector<Sem*> g_sems;
static Waiter g_w[MAXW];
static int g_nw = 0;
static std::atomic<int> g_waiters_done{0};
static std::atomic<bool> g_stop_aux{false};
static std::atomic<int> g_aux_running{0};
static uint64_t g_ops = 0;

static void on_errno(Waiter& w, int e, const char* where) {
    int r = w.it.reported_errno(e);
    if (r == 2) c_stale.add();          // decided by C04, only counted here
    if (r == 0)
        vh::violation(std::string("errno/unexplained:") + where, "wait failed with an errno that is neither ETIMEDOUT nor a code sent to this thread",
                      vh::JObj().kv("errno", e).str());
}

static void after_success(Sem& S, uint64_t m) {
    uint64_t t = S.taken.fetch_add(m, vh::MO) + m;
    uint64_t sup = S.initial + S.signalled_started.load(vh::MO);
    if (t > sup)
        vh::violation(S.ooo ? "conservation/taken-exceeds-supplied:ooo" : "conservation/taken-exceeds-supplied:inorder",
                      "successful waits took more tokens than were ever signalled",
                      vh::JObj().kv("taken", t).kv("supplied", sup).str());
}

static void* waiter_main(void* arg) {
    auto& w = *(Waiter*)arg;
    w.it.th.store(CURRENT, std::memory_order_release);
    vh::Rng r(vh::mix(vh::args().xseed(), 100 + w.it.id));
    for (uint64_t op = 0; op < g_ops; ++op) {
        int si = r.below(g_sems.size());
        auto& S = *g_sems[si];
        uint64_t m = r.pick<uint64_t>({1, 1, 2, 3, r.range(1, 6)});
        int how = r.below(10);
        vh::event();
        if (how < 4) {                          // wait(m): untimed, swallows interrupts
            S.demand_started.fetch_add(m, vh::MO);
            w.blocked_demand.store(m, vh::MO);
            w.blocked_sem.store(si, vh::MO);
            int ret = S.s->wait(m);
            w.blocked_sem.store(-1, vh::MO);
            if (ret != 0)
                vh::violation("wait/untimed-failed", "wait(m) without timeout returned an error", vh::JObj().kv("errno", errno).str());
            else { c_wait_ok.add(); after_success(S, m); }
        } else {
            uint64_t us = r.pick<uint64_t>({0, 1, r.range(5, 300), r.range(5, 300), r.range(500, 3000)});
            Timeout t(us);
            S.demand_started.fetch_add(m, vh::MO);
            int ret = how < 7 ? S.s->wait(m, t) : S.s->wait_interruptible(m, t);
            int e = errno;
            if (ret == 0) { c_wait_ok.add(); after_success(S, m); }
            else if (e == ETIMEDOUT) {
                c_wait_timeout.add();
                auto rt = vh::boottime_us();
                if (t.expiration() != 0 && rt < t.expiration())
                    vh::violation("timeout/early", "wait reported ETIMEDOUT before its deadline",
                                  vh::JObj().kv("expiration", t.expiration()).kv("clock", rt).str());
            } else {
                c_wait_intr.add();
                if (how < 7)
                    vh::violation("wait/uninterruptible-wait-interrupted", "semaphore::wait returned an interrupt errno", vh::JObj().kv("errno", e).str());
                on_errno(w, e, "wait_interruptible");
            }
        }
        vh::progress();
        if (r.chance(1, 6)) thread_yield();
    }
    g_waiters_done.fetch_add(1, std::memory_order_acq_rel);
    while (!g_stop_aux.load(std::memory_order_acquire) || g_aux_running.load(std::memory_order_acquire) > 0) {
        if (thread_usleep(300) < 0) { int r2 = w.it.reported_errno(errno); if (r2 == 2) c_stale.add(); }
    }
    return nullptr;
}

// one signalling step; returns true if it signalled
static bool signal_step(vh::Rng& r, bool os) {
    bool did = false;
    for (auto S : g_sems) {
        uint64_t sup = S->initial + S->signalled_started.load(vh::MO);
        uint64_t dem = S->demand_started.load(vh::MO);
        if (sup >= dem) continue;
        uint64_t n = r.range(1, 5);
        S->signalled_started.fetch_add(n, vh::MO);        // before the call
        S->s->signal(n);
        c_signals.add();
        if (os) c_signals_os.add();
        did = true;
    }
    return did;
}
static void* signaller_main(void* arg) {
    vh::Rng r(vh::mix(vh::args().xseed(), 300 + (uint64_t)arg));
    while (g_waiters_done.load(std::memory_order_acquire) < g_nw) {
        signal_step(r, false);
        if (r.chance(1, 3)) thread_usleep(r.range(1, 60)); else thread_yield();
    }
    g_aux_running.fetch_sub(1, std::memory_order_acq_rel);
    return nullptr;
}
static void* interrupter_main(void* arg) {
    vh::Rng r(vh::mix(vh::args().xseed(), 500 + (uint64_t)arg));
    while (g_waiters_done.load(std::memory_order_acquire) < g_nw) {
        if (g_w[r.below(g_nw)].it.send()) c_intr_sent.add();
        thread_usleep(r.range(1, 200));
    }
    g_aux_running.fetch_sub(1, std::memory_order_acq_rel);
    return nullptr;
}

static bool on_stuck(std::string& key, std::string& what, std::string& wit) {
    vh::JArr arr;
    bool proved = false;
    for (size_t si = 0; si < g_sems.size(); ++si) {
        auto& S = *g_sems[si];
        uint64_t cnt = S.s->count(), mx = 0, mn = ~0ull;
        int nb = 0;
        for (int i = 0; i < g_nw; ++i)
            if (g_w[i].blocked_sem.load() == (int)si) {
                uint64_t d = g_w[i].blocked_demand.load();
                mx = std::max(mx, d); mn = std::min(mn, d); nb++;
            }
        arr.raw(vh::JObj().kv("sem", (int)si).kv("ooo", S.ooo).kv("count", cnt).kv("blocked_waiters", nb)
                    .kv("max_demand", mx).kv("supplied", S.initial + S.signalled_started.load())
                    .kv("demand_started", S.demand_started.load()).kv("taken", S.taken.load()).str());
        if (!nb) continue;
        if (S.ooo ? cnt >= mn : cnt >= mx) {
            proved = true;
            key = S.ooo ? "lost-wakeup:ooo" : "lost-wakeup:inorder";
            what = "waiters stay blocked although count() covers the demand";
        }
    }
    wit = arr.str();
    if (!proved) { key = "sem-workload"; what = "no progress; " + wit; }
    return proved;
}

// ---- destroy-after-wait: the waiter deletes the semaphore as soon as wait() returned
static std::atomic<semaphore*> g_mailbox[4];
static std::atomic<bool> g_destroy_stop{false};
static void post_signal(vh::Rng& r) {
    for (auto& mb : g_mailbox) {
        auto s = mb.exchange(nullptr, std::memory_order_acq_rel);
        if (s) s->signal(1);
    }
}
static void* destroy_waiter(void* arg) {
    vh::Rng r(vh::mix(vh::args().xseed(), 700 + (uint64_t)arg));
    uint64_t rounds = g_ops;
    for (uint64_t i = 0; i < rounds; ++i) {
        auto s = new semaphore(0, r.chance(1, 2));
        auto& mb = g_mailbox[r.below(4)];
        semaphore* exp = nullptr;
        while (!mb.compare_exchange_weak(exp, s, std::memory_order_acq_rel)) { exp = nullptr; thread_yield(); }
        // sometimes arrive at wait() while signal() is still in progress (the token is already visible)
        if (r.chance(1, 2)) {
            for (int spin = 0; spin < 20000 && s->count() == 0; ++spin) { if ((spin & 255) == 255) thread_yield(); else _mm_pause(); }
            c_arrived_during_signal.add(s->count() != 0);
        }
        int ret = s->wait(1);
        delete s;                                   // immediately: signal() must not touch it any more
        if (ret != 0) vh::violation("wait/untimed-failed", "wait(1) failed in destroy-after-wait", "null");
        c_destroy.add();
        vh::event();
        vh::progress();
    }
    return nullptr;
}


// ---- scripted rounds: a head waiter with a large demand is interrupted (or times out) while smaller waiters are
// queued behind it and the count already covers them. In in-order mode they may only be resumed by the leaving
// head; nobody signals again, so a missing hand-over leaves them blocked with count() >= demand (supervisor).
struct ScriptRound {
    semaphore* s = nullptr;
    std::atomic<int> small_done{0}, head_done{0}, queued{0};
    std::atomic<thread*> head{nullptr};
    std::atomic<join_handle*> head_jh{nullptr};      // the head is joinable: its thread object stays valid until the director joins it
};
static std::atomic<ScriptRound*> g_sr{nullptr};
static std::atomic<int> g_script_blocked_small{0};
static vh::NamedCounter c_script("script_rounds"), c_script_head_intr("script_head_interrupted"), c_script_head_to("script_head_timed_out");
static void* script_head(void* arg) {
    auto sr = (ScriptRound*)arg;
    sr->head.store(CURRENT, std::memory_order_release);
    sr->queued.fetch_add(1);
    uint64_t tmo = (uint64_t)(uintptr_t)sr->s % 2 ? -1ULL : 3000;     // some heads leave by timeout instead
    int ret = sr->s->wait_interruptible(5, Timeout(tmo));
    if (ret == 0) vh::violation("script/head-got-tokens-that-do-not-exist", "wait(5) succeeded with only 2 tokens signalled", "null");
    else if (errno == ETIMEDOUT) c_script_head_to.add(); else c_script_head_intr.add();
    sr->head_done.store(1, std::memory_order_release);
    return nullptr;
}
static void* script_small(void* arg) {
    auto sr = (ScriptRound*)arg;
    sr->queued.fetch_add(1);
    g_script_blocked_small.fetch_add(1, vh::MO);
    int ret = sr->s->wait(1);
    g_script_blocked_small.fetch_sub(1, vh::MO);
    if (ret != 0) vh::violation("wait/untimed-failed", "wait(1) failed in the scripted round", "null");
    sr->small_done.fetch_add(1, std::memory_order_acq_rel);
    return nullptr;
}
static int run_script_mode(vh::Rng& r, int nv, uint64_t rounds) {
    vh::start_supervisor([](std::string& k, std::string& w, std::string& wit) {
        auto sr = g_sr.load();
        if (sr && sr->head_done.load() && sr->small_done.load() < 2 && sr->s->count() >= 1) {
            k = "lost-wakeup:inorder";
            w = "the head waiter left (interrupt/timeout) and count() covers the waiters queued behind it, but they stay blocked";
            wit = vh::JObj().kv("count", sr->s->count()).kv("small_waiters_done", sr->small_done.load()).str();
            return true;
        }
        k = "sem-script"; w = "scripted round made no progress";
        return false;
    });
    vh::VCpus vc;
    std::atomic<int> phase{0};          // round hand-shake between vCPU 0 (director) and the others
    std::atomic<bool> stop{false};
    std::vector<std::atomic<int>> place(3);
    vc.run(nv, nullptr, [&](int v) {
        if (v != 0) {                   // helpers: create the threads the director placed here
            int seen = 0;
            while (!stop.load(std::memory_order_acquire)) {
                int ph = phase.load(std::memory_order_acquire);
                if (ph != seen && ph > 0) {
                    seen = ph;
                    auto sr = g_sr.load(std::memory_order_acquire);
                    if (!sr) continue;
                    if (place[0].load() == v) sr->head_jh.store(thread_enable_join(thread_create(script_head, sr, 128 * 1024)), std::memory_order_release);
                    thread_yield();
                    if (place[1].load() == v) thread_create(script_small, sr, 128 * 1024);
                    if (place[2].load() == v) thread_create(script_small, sr, 128 * 1024);
                }
                thread_usleep(50);
            }
            return;
        }
        for (uint64_t i = 0; i < rounds; ++i) {
            auto sr = new ScriptRound;
            sr->s = new semaphore(0, true);
            g_sr.store(sr, std::memory_order_release);
            for (int k = 0; k < 3; ++k) place[k].store(r.below(nv));
            phase.fetch_add(1, std::memory_order_acq_rel);
            if (place[0].load() == 0) sr->head_jh.store(thread_enable_join(thread_create(script_head, sr, 128 * 1024)), std::memory_order_release);
            // the head must be first in the queue
            while (sr->queued.load() < 1) thread_usleep(20);
            thread_usleep(100);
            if (place[1].load() == 0) thread_create(script_small, sr, 128 * 1024);
            if (place[2].load() == 0) thread_create(script_small, sr, 128 * 1024);
            while (sr->queued.load() < 3) thread_usleep(20);
            thread_usleep(r.range(50, 400));            // let them block
            sr->s->signal(2);                            // covers both small waiters, not the head
            thread_usleep(r.range(0, 200));
            if (!sr->head_done.load()) thread_interrupt(sr->head.load(std::memory_order_acquire), EINTR);
            while (!sr->head_done.load() || sr->small_done.load() < 2) thread_usleep(50);   // supervisor watches this
            while (!sr->head_jh.load(std::memory_order_acquire)) thread_usleep(20);
            thread_join(sr->head_jh.load(std::memory_order_acquire));
            if (sr->s->count() != 0)
                vh::violation("conservation/mismatch:inorder", "tokens left after both small waiters were served", vh::JObj().kv("count", sr->s->count()).str());
            c_script.add();
            vh::event(3);
            vh::progress();
            g_sr.store(nullptr, std::memory_order_release);
            thread_usleep(200);                          // threads of this round exit (round objects are kept: a helper may still look at them)
        }
        stop.store(true, std::memory_order_release);
    });
    return 0;
}

int main(int argc, char** argv) {
    vh::init(argc, argv);
    vh::Rng r(vh::args().xseed());
    bool destroy_mode = vh::args().has("mode") ? vh::args().gets("mode", "") == "destroy" : (vh::args().exec % 4 == 2);
    int nv = vh::args().geti("vcpus", r.pick({1, 2, 2, 3, 4}));
    int tpv = r.range(2, 8);
    g_ops = vh::args().geti("ops", vh::args().thorough() ? 12000 : 3000);
    if (vh::is_tsan()) g_ops /= 4;
    g_ops /= vh::args().shape_div();
    bool os_signaller = r.chance(1, 2);
    using namespace photon::verif;
    vh::arm_stalls(r, {P_SEM_WAIT_AFTER_DEFER, P_SEM_SIGNAL_AFTER_RESUME, P_INTERRUPT_BEFORE_LOCK, P_RESUME_BEFORE_LOCK,
                       P_PRELOCKED_INTERRUPT, P_WAITQ_RESUME});
    bool script_mode = vh::args().has("mode") ? vh::args().gets("mode", "") == "script" : (vh::args().exec % 4 == 1);
    vh::config("mode", destroy_mode ? "destroy" : script_mode ? "script" : "ledger");
    if (script_mode && !destroy_mode) {
        vh::config("vcpus", nv);
        run_script_mode(r, nv, std::max<uint64_t>(20, g_ops / 10));
        vh::set_sig("script|v" + std::to_string(nv) + "|" + vh::cov_signature({photon::verif::C_SEM_INTERRUPTED_RESUME, photon::verif::C_CROSS_VCPU_WAKE}) +
                        "to:" + std::to_string(vh::log2bucket(c_script_head_to.get())), c_script.get() > 0 && c_script_head_intr.get() > 0);
        vh::sample(vh::JObj().kv("mode", "script").kv("vcpus", nv).kv("rounds", c_script.get()).kv("head_interrupted", c_script_head_intr.get())
                       .kv("head_timed_out", c_script_head_to.get()).str());
        return vh::finish();
    }
    vh::config("vcpus", nv); vh::config("ops", g_ops);

    if (destroy_mode) {
        if (nv < 2) nv = 2;
        vh::config("vcpus", nv);
        vh::start_supervisor([](std::string& k, std::string& w, std::string&) {
            k = "destroy-workload"; w = "destroy-after-wait rounds stopped"; return false; });
        std::atomic<int> waiters_left{0};
        std::thread os;
        if (os_signaller) os = std::thread([&] {
            vh::Rng rr(vh::mix(vh::args().xseed(), 901));
            while (!g_destroy_stop.load()) { post_signal(rr); if (rr.chance(1, 4)) sched_yield(); }
        });
        vh::VCpus vc;
        waiters_left = (nv - 1) * 2;
        vc.run(nv, nullptr, [&](int v) {
            if (v == 0) {       // signaller vCPU
                vh::Rng rr(vh::mix(vh::args().xseed(), 902));
                while (waiters_left.load() > 0) { post_signal(rr); thread_yield(); }
                g_destroy_stop.store(true);
            } else {
                auto a = thread_enable_join(thread_create(destroy_waiter, (void*)(uint64_t)(v * 2), 128 * 1024));
                auto b = thread_enable_join(thread_create(destroy_waiter, (void*)(uint64_t)(v * 2 + 1), 128 * 1024));
                thread_join(a); waiters_left.fetch_sub(1);
                thread_join(b); waiters_left.fetch_sub(1);
            }
        });
        g_destroy_stop.store(true);
        if (os.joinable()) os.join();
        vh::set_sig("destroy|v" + std::to_string(nv) + "|os" + std::to_string(os_signaller) + "|" +
                        vh::cov_signature({C_CROSS_VCPU_WAKE}), c_destroy.get() > 0);
        vh::sample(vh::JObj().kv("mode", "destroy-after-wait").kv("vcpus", nv).kv("rounds", c_destroy.get()).kv("os_signaller", os_signaller).str());
        return vh::finish();
    }

    int nsem = r.range(1, 2);
    std::string desc;
    for (int i = 0; i < nsem; ++i) {
        auto S = new Sem;
        S->ooo = r.chance(1, 2);
        S->initial = r.below(4);
        S->s = new semaphore(S->initial, !S->ooo);
        g_sems.push_back(S);
        desc += S->ooo ? "ooo;" : "inorder;";
    }
    g_nw = std::min(nv * tpv, MAXW);
    for (int i = 0; i < g_nw; ++i) g_w[i].it.init(i);
    bool with_intr = r.chance(3, 4);
    vh::config("sems", desc); vh::config("waiters", g_nw); vh::config("interrupters", with_intr); vh::config("os_signaller", os_signaller);
    vh::start_supervisor(on_stuck);
    g_aux_running.store(nv + (with_intr ? nv : 0) + (os_signaller ? 1 : 0));

    std::thread os;
    if (os_signaller) os = std::thread([&] {
        vh::Rng rr(vh::mix(vh::args().xseed(), 900));
        while (g_waiters_done.load(std::memory_order_acquire) < g_nw) {
            if (!signal_step(rr, true)) { struct timespec ts = {0, 20000}; nanosleep(&ts, nullptr); }
        }
        g_aux_running.fetch_sub(1, std::memory_order_acq_rel);
    });
    vh::VCpus vc;
    vc.run(nv, nullptr, [&](int v) {
        std::vector<join_handle*> jh, aux;
        for (int i = v; i < g_nw; i += nv) jh.push_back(thread_enable_join(thread_create(waiter_main, &g_w[i], 256 * 1024)));
        aux.push_back(thread_enable_join(thread_create(signaller_main, (void*)(uint64_t)v, 128 * 1024)));
        if (with_intr) aux.push_back(thread_enable_join(thread_create(interrupter_main, (void*)(uint64_t)v, 128 * 1024)));
        for (auto h : aux) thread_join(h);
        if (v == 0) {
            while (g_aux_running.load(std::memory_order_acquire) > 0) thread_usleep(200);
            g_stop_aux.store(true, std::memory_order_release);
        }
        for (auto h : jh) thread_join(h);
    });
    if (os.joinable()) os.join();

    // quiescence: exact conservation
    for (size_t si = 0; si < g_sems.size(); ++si) {
        auto& S = *g_sems[si];
        uint64_t lhs = S.taken.load() + S.s->count(), rhs = S.initial + S.signalled_started.load();
        if (lhs != rhs)
            vh::violation(S.ooo ? "conservation/mismatch:ooo" : "conservation/mismatch:inorder",
                          "taken + count() != initial + signalled at quiescence",
                          vh::JObj().kv("taken", S.taken.load()).kv("count", S.s->count()).kv("initial", S.initial)
                              .kv("signalled", S.signalled_started.load()).str());
    }
    bool nontrivial = c_wait_ok.get() > 0 && (c_wait_timeout.get() + c_wait_intr.get()) > 0 && c_signals.get() > 0;
    vh::set_sig("ledger|v" + std::to_string(nv) + "|w" + std::to_string(g_nw) + "|" + desc + "os" + std::to_string(os_signaller) + "|" +
                    vh::cov_signature({C_SEM_INTERRUPTED_RESUME, C_SEM_OOO_NONHEAD, C_CROSS_VCPU_WAKE, C_INDIRECT_LOCK_RETRY}) +
                    "to:" + std::to_string(vh::log2bucket(c_wait_timeout.get())) + ",in:" + std::to_string(vh::log2bucket(c_wait_intr.get())),
                nontrivial);
    vh::sample(vh::JObj().kv("mode", "ledger").kv("vcpus", nv).kv("waiters", g_nw).kv("sems", desc).kv("wait_ok", c_wait_ok.get())
                   .kv("timeouts", c_wait_timeout.get()).kv("interrupted", c_wait_intr.get()).kv("signals", c_signals.get())
                   .kv("signals_from_os_thread", c_signals_os.get()).str());
    return vh::finish();
}
