// LDFLAGS: -fno-sanitize=null,pointer-overflow
// C12 - RPC serialization: lossless round trip; hostile bytes never read out of bounds (DESIGN.md 3, C12)
//
// (The first line switches off two UBSan sub-checks for this translation unit only: on its *failure* paths
//  serialize.h binds a reference to `*(T*)nullptr` / computes `nullptr + n` without ever accessing it
//  (serialize.h:318, :325, :68).  That is not a read or write outside the input, which is all the property
//  speaks about, and it would kill the process on every rejected fixed_buffer/array.  Real null accesses are
//  still caught by ASan as SEGV.)
//
// One *input* = one (de)serialization that is checked:
//   round trip : seeded instance of one of 16 message types -> SerializerIOV -> flatten -> cut at seeded points
//                into 1..24 fragments, each its own exact-size heap block -> DeserializerIOV -> compare.
//   hostile    : the same valid byte string after one seeded edit (length/offset/slice/pointer word set to a
//                boundary value, truncation, extension, bit flips) or a random / length-shaped random string.
// Oracles (only what the statement says):
//   O1 round trip: result non-null, every field (length and bytes), every plain field, every map entry and
//      every find() equal to the original.
//   O2 any non-null result: the body and every variable-length field extent [ptr,ptr+len) lies inside one supplied
//      fragment or inside one block handed out by the iovector's (recording) allocator, and its bytes are the
//      bytes of the input at the position an independent reference walk of the wire format assigns to it (so a
//      "copy" that is not a copy of input bytes does not pass); a message whose wire lengths exceed the input
//      must not be accepted; every resolved sorted_map slice lies inside the map's base buffer.
//   O3 ASan/UBSan silence while deserialising, touching every byte of every field, iterating maps and find().
//   O4 an altered CheckedMessage is rejected: flagged when (a) the library accepts although its own checksum algorithm,
//      recomputed here, does not match, or (b) the alteration is one no 32-bit CRC can miss (<= 3 bits / burst <= 32 bits).
// Every batch of inputs runs in a forked child; results travel through a shared page; a child that dies
// (sanitizer report, signal) names the input, which is re-run alone to get the report, and the rest goes on.
#include <emmintrin.h>
#include "vh.h"
#include <photon/rpc/serialize.h>
#include <photon/common/checksum/crc32c.h>
#include <sys/mman.h>
#include <sys/wait.h>
#include <sys/stat.h>
#include <fcntl.h>
#include <set>

using namespace photon::rpc;

// ------------------------------------------------------------------ counters / shared page
#define CTRS(X) \
    X(roundtrip_ok) X(hostile_rejected) X(hostile_accepted) X(field_straddles_fragments) X(body_straddles_fragments) \
    X(zero_length_field) X(string_length_1) X(map_ge2_entries) X(map_1_entry) X(map_0_entries) \
    X(checksum_mismatch_rejected) X(checked_roundtrip_ok) X(allocator_copies) X(iovec_array_multi_fragment) \
    X(zero_length_fragment) X(fragments_ge8) X(single_fragment) X(edit_field_word) X(edit_resize) X(edit_bitflip) \
    X(edit_random) X(edit_left_bytes_unchanged) X(wire_lengths_exceed_input) X(wellformed_but_rejected) \
    X(map_slice_outside_base_flagged) X(map_with_zero_length_key_slice) X(flagged_oob_confirmed_by_sanitizer) X(flagged_oob_not_seen_by_sanitizer) X(flagged_map_library_call_skipped) \
    X(child_deaths) X(checked_altered_accepted_provable) X(checked_altered_accepted_not_provable) X(map_find_calls) X(map_entries_iterated) X(fields_walked) X(bytes_touched) \
    X(generator_iovfull_skipped) X(failpath_null_arith_executed) X(fixed_buffer_wire_length_mismatch_accepted) \
    X(stack_serializer_compared) X(nested_aligned_cases) X(repeat_of_recorded_crash_not_executed) X(timeout_not_reproduced) X(death_not_reproduced_alone) X(known_crash_repeats)
enum Ctr {
#define X(n) CT_##n,
    CTRS(X)
#undef X
    CT_N
};
static const char* ctr_name[] = {
#define X(n) #n,
    CTRS(X)
#undef X
};

constexpr int BATCH = 512;
struct Shm {
    volatile uint64_t cur, cur_hash, done;
    volatile int cur_nontrivial;
    char stage[40], kind[64], edit[24], type[32], mode[16];
    volatile int explicit_flagged;
    uint32_t flagged_lib_calls;
    uint32_t array_msg_overrun_deaths;      // maintained by the parent
    uint64_t ctr[CT_N];
    uint64_t events;
    uint32_t n_notes;
    struct { uint64_t hash; uint32_t nontrivial; } notes[BATCH + 1];
    uint32_t n_viol;
    struct { char key[160]; char what[400]; char witness[6000]; } viol[12];
    uint32_t n_samples;
    char samples[4][1500];
    char cur_witness[6000];
};
static Shm* shm;
static void bump(Ctr c, uint64_t n = 1) { shm->ctr[c] += n; }
static void cpy(char* dst, size_t cap, const std::string& s) {
    size_t n = std::min(cap - 1, s.size());
    memcpy(dst, s.data(), n);
    dst[n] = 0;
}
static void crumb(const char* stage) { cpy(shm->stage, sizeof(shm->stage), stage); }
static void crumb_kind(const std::string& k) { cpy(shm->kind, sizeof(shm->kind), k); }

// a violation found by an oracle inside a child
static void report(const std::string& key, const std::string& what, const std::string& witness) {
    for (uint32_t i = 0; i < shm->n_viol; ++i)
        if (key == shm->viol[i].key) return;
    if (shm->n_viol >= 12) return;
    auto& v = shm->viol[shm->n_viol];
    cpy(v.key, sizeof(v.key), key);
    cpy(v.what, sizeof(v.what), what);
    // the witness must stay valid JSON: if it does not fit, keep the key facts only
    if (witness.size() < sizeof(v.witness)) cpy(v.witness, sizeof(v.witness), witness);
    else cpy(v.witness, sizeof(v.witness), vh::JObj().kv("note", "witness too long").kv("head", witness.substr(0, 1200)).str());
    shm->n_viol++;
}

// ------------------------------------------------------------------ field kinds
enum Kind { K_BODY, K_BUFFER, K_ALIGNED_BUFFER, K_FIXED, K_ARRAY, K_ARRAY_MSG, K_STRING, K_IOVEC, K_ALIGNED_IOVEC,
            K_MAP_INDEX, K_MAP_BASE, K_NKIND };
static const char* kind_name[] = {"body", "buffer", "aligned_buffer", "fixed_buffer", "array", "array<message>", "string",
                                  "iovec_array", "aligned_iovec_array", "sorted_map.index", "sorted_map.base_buffer"};
enum EditClass { E_NONE, E_FIELD, E_RESIZE, E_BITFLIP, E_RANDOM };
static const char* edit_name[] = {"none", "field-edit", "resize", "bitflip", "random"};

struct FieldRec {
    uint8_t kind = 0, depth = 0, in_elem = 0;
    size_t lenword_off = SIZE_MAX, ptrword_off = SIZE_MAX;   // model: where the words sit in the byte string
    size_t len = 0;                                         // bytes (iovec kinds: summed_size)
    size_t data_off = 0, remaining = 0, elem = 1;           // model: payload offset, bytes left at the cursor
    const char* ptr = nullptr;                              // live: start of the field (iovec kinds: the iovec array)
    size_t arr_len = 0;                                     // live, iovec kinds: bytes of the iovec array
};
struct PlainRec { size_t off; const void* ptr; size_t size; };

// the same two passes the wire format is defined by: aligned fields of the top-level message first
template <class W> struct TopFilter {
    W* w; bool aligned;
    void process_field(aligned_buffer& x) { if (aligned) w->process_field(x); }
    void process_field(aligned_iovec_array& x) { if (aligned) w->process_field(x); }
    template <class P> void process_field(P& x) { if (!aligned) w->process_field(x); }
};
template <class W, class T> void walk_top(W& w, T* t) {
    TopFilter<W> a{&w, true};
    t->process_fields(a);
    TopFilter<W> b{&w, false};
    t->process_fields(b);
}
template <class D> struct WalkBase {
    int depth = 0;
    D* d() { return static_cast<D*>(this); }
    void process_field(buffer& x) { d()->on_buf(K_BUFFER, x, 1); }
    void process_field(aligned_buffer& x) { d()->on_buf(K_ALIGNED_BUFFER, x, 1); }
    template <class T> void process_field(fixed_buffer<T>& x) { d()->on_buf(K_FIXED, x, sizeof(T)); }
    template <class T> void process_field(array<T>& x) { arr(x, std::is_base_of<Message, T>()); }
    template <class T> void arr(array<T>& x, std::false_type) { d()->on_buf(K_ARRAY, x, sizeof(T)); }
    template <class T> void arr(array<T>& x, std::true_type) { d()->on_array_msg(x); }
    void process_field(string& x) { d()->on_buf(K_STRING, x, 1); }
    void process_field(iovec_array& x) { d()->on_iov(K_IOVEC, x); }
    void process_field(aligned_iovec_array& x) { d()->on_iov(K_ALIGNED_IOVEC, x); }
    template <class K, class V> void process_field(sorted_map<K, V>& x) { d()->on_map(x); }
    template <class T> typename std::enable_if<std::is_base_of<Message, T>::value>::type process_field(T& x) {
        depth++;
        x.process_fields(*d());
        depth--;
    }
    template <class T> typename std::enable_if<!std::is_base_of<Message, T>::value>::type process_field(T& x) {
        d()->on_plain(&x, sizeof(T));
    }
};

// Reference walk of the wire format over a byte string: the message body is the last sizeof(T) bytes, the fields
// follow from offset 0 in processing order, each `length` bytes long. Reads only length words, never pointers.
struct ModelWalker : WalkBase<ModelWalker> {
    const uint8_t* base;
    size_t limit, cur = 0;
    bool fail = false;          // first field whose wire length exceeds what remains: a correct receiver returns null
    int fail_kind = -1;
    size_t fail_len = 0, fail_remaining = 0;
    int in_elem = 0;
    bool failpath_null_arith = false;
    // The library goes on after the first failed extraction (it only remembers `failed`). The walk follows it without
    // recording anything, only to know whether it will then run over the elements of an array<Message> whose extraction
    // failed (known finding: null-based element access inside deserialize()).
    bool walks_null_elements = false;
    std::vector<FieldRec> f;
    std::vector<PlainRec> plain;
    ModelWalker(const uint8_t* b, size_t lim) : base(b), limit(lim) {}
    size_t off_of(const void* p) { return (size_t)((const uint8_t*)p - base); }
    void take(FieldRec& r) {
        r.remaining = limit - cur;
        r.data_off = cur;
        if (r.len == 0) return;
        if (r.len > limit - cur) {
            fail = true;
            fail_kind = r.kind;
            fail_len = r.len;
            fail_remaining = limit - cur;
            if (r.kind == K_FIXED || r.kind == K_ARRAY || r.kind == K_ARRAY_MSG || r.kind == K_MAP_INDEX) failpath_null_arith = true;
            if (r.kind == K_IOVEC || r.kind == K_ALIGNED_IOVEC) cur = limit;       // a failed extract_front(bytes, view) has consumed what there was
            return;
        }
        cur += r.len;
    }
    // after the first failure: true if these `len` bytes can still be taken
    bool after_fail_take(size_t len, bool is_iov) {
        if (len == 0) return true;
        if (len > limit - cur) { if (is_iov) cur = limit; return false; }
        cur += len;
        return true;
    }
    void on_buf(int kind, buffer& x, size_t elem) {
        if (walks_null_elements) return;
        if (fail) { after_fail_take(x._len, false); return; }
        FieldRec r;
        r.kind = kind; r.depth = depth; r.in_elem = in_elem; r.elem = elem;
        r.len = x._len;
        r.lenword_off = off_of(&x._len);
        r.ptrword_off = off_of(&x._ptr);
        take(r);
        f.push_back(r);
    }
    void on_iov(int kind, iovec_array& x) {
        if (walks_null_elements) return;
        if (fail) { after_fail_take(x.summed_size, true); return; }
        FieldRec r;
        r.kind = kind; r.depth = depth; r.in_elem = in_elem; r.elem = 1;
        r.len = x.summed_size;
        r.lenword_off = off_of(&x.summed_size);
        r.ptrword_off = off_of(&x._ptr);
        take(r);
        f.push_back(r);
    }
    template <class E> static bool elem_has_fields() {
        alignas(E) unsigned char tmp[sizeof(E)] = {};
        ModelWalker probe(tmp, 0);
        ((E*)tmp)->process_fields(probe);
        return !probe.f.empty();
    }
    template <class E> void on_array_msg(array<E>& x) {
        if (walks_null_elements) return;
        size_t len = x._len, d0 = cur;
        bool taken;
        if (fail) taken = after_fail_take(len, false);
        else { on_buf(K_ARRAY_MSG, x, sizeof(E)); taken = !fail; d0 = f.back().data_off; }
        if (!taken) {
            if (len >= sizeof(E) && elem_has_fields<E>()) walks_null_elements = true;
            return;
        }
        size_t cnt = len / sizeof(E);
        in_elem++;
        for (size_t i = 0; i < cnt && !walks_null_elements; ++i) {
            E* e = (E*)(base + d0 + i * sizeof(E));
            depth++;
            e->process_fields(*this);
            depth--;
        }
        in_elem--;
    }
    template <class K, class V> void on_map(sorted_map<K, V>& m) {
        on_buf(K_MAP_INDEX, m.index, sizeof(typename sorted_map<K, V>::ValueType));
        on_buf(K_MAP_BASE, m.base_buffer, 1);
    }
    void on_plain(void* p, size_t n) {
        if (fail) return;
        plain.push_back({off_of(p), nullptr, n});
    }
};

struct Extents {
    struct R { const char* p; size_t n; bool live; };
    std::vector<R> frags, allocs;
    // 1 inside one fragment, 2 inside one live allocator block, 0 neither
    int where(const void* p_, size_t n) const {
        auto p = (const char*)p_;
        for (auto& r : frags) if (p >= r.p && n <= r.n && (size_t)(p - r.p) <= r.n - n) return 1;
        for (auto& r : allocs) if (r.live && p >= r.p && n <= r.n && (size_t)(p - r.p) <= r.n - n) return 2;
        return 0;
    }
};

struct MapCtx;
// Walk of a live message (the original, or a deserialised result). `ext` (if set) must vouch for an array of
// messages before its elements are visited.
struct LiveWalker : WalkBase<LiveWalker> {
    const Extents* ext = nullptr;
    bool bad_extent = false;
    int in_elem = 0;
    std::vector<FieldRec> f;
    std::vector<PlainRec> plain;
    std::vector<std::function<void(MapCtx&)>> maps;
    void on_buf(int kind, buffer& x, size_t elem) {
        if (bad_extent) return;
        FieldRec r;
        r.kind = kind; r.depth = depth; r.in_elem = in_elem; r.elem = elem;
        r.len = x._len;
        r.ptr = (const char*)x._ptr;
        f.push_back(r);
    }
    void on_iov(int kind, iovec_array& x) {
        if (bad_extent) return;
        FieldRec r;
        r.kind = kind; r.depth = depth; r.in_elem = in_elem;
        r.len = x.summed_size;
        r.ptr = (const char*)x._ptr;
        r.arr_len = x._len;
        f.push_back(r);
    }
    template <class E> void on_array_msg(array<E>& x) {
        if (bad_extent) return;
        on_buf(K_ARRAY_MSG, x, sizeof(E));
        if (x._len == 0) return;
        if (ext && !ext->where(x._ptr, x._len)) { bad_extent = true; return; }
        in_elem++;
        for (size_t i = 0; i < x.size() && !bad_extent; ++i) {
            depth++;
            x.begin()[i].process_fields(*this);
            depth--;
        }
        in_elem--;
    }
    template <class K, class V> void on_map(sorted_map<K, V>& m);
    void on_plain(void* p, size_t n) {
        if (bad_extent) return;
        plain.push_back({0, p, n});
    }
};

// batch children do not pay for a symbolised report (about 3 s with the external symbolizer): the input that killed
// them is re-run alone with reports on
static bool g_fast_death = false;
extern "C" void __asan_on_error() { if (g_fast_death) _exit(99); }
// use-after-free is not what this harness looks for; a small quarantine keeps the working set of each child small
extern "C" const char* __asan_default_options() { return "quarantine_size_mb=1:thread_local_quarantine_size_kb=64"; }

static uint64_t g_sink;
static void touch(const void* p, size_t n) {
    auto c = (const volatile unsigned char*)p;
    uint64_t s = 0;
    for (size_t i = 0; i < n; ++i) s += c[i];
    g_sink += s;
    bump(CT_bytes_touched, n);
}

// canonical content of a message: plain fields and (length, bytes) of every variable-length field, no pointers
template <class V> std::string canon(V& v) {
    LiveWalker w;
    v.process_fields(w);       // nested use: no top-level aligned pass (same as the library does for map values: it
                               // serialises them with their own two passes, but content-wise the set is the same)
    std::string s;
    for (auto& p : w.plain) s.append((const char*)p.ptr, p.size);
    for (auto& r : w.f) {
        s.push_back((char)r.kind);
        uint64_t l = r.len;
        s.append((const char*)&l, 8);
        if (r.kind == K_ARRAY_MSG || r.kind == K_IOVEC || r.kind == K_ALIGNED_IOVEC) continue;
        if (r.len) s.append(r.ptr, r.len);
    }
    return s;
}

struct MapExpect { std::vector<std::pair<std::string, std::string>> entries; };     // sorted by key
struct MapCtx {
    bool roundtrip;
    const MapExpect* expect;        // round trip: what must be found
    const MapExpect* probes;        // hostile: keys of the original map, used as probes
    vh::Rng* rng;
    std::string witness;
    std::string edit;
};

template <class K, class V> void exercise_map(sorted_map<K, V>& m, MapCtx& c) {
    using SM = sorted_map<K, V>;
    crumb("map-slice-check");
    crumb_kind("sorted_map");
    size_t n = m.index.size(), blen = m.base_buffer.size();
    auto base = (const char*)m.base_buffer.addr();
    auto in_base = [&](const slice& s) {
        return s.offset >= 0 && (uint64_t)s.offset <= blen && s.length <= blen - (uint64_t)s.offset;
    };
    if (n == 0) bump(CT_map_0_entries); else if (n == 1) bump(CT_map_1_entry); else bump(CT_map_ge2_entries);
    bool bad = false;
    for (size_t i = 0; i < n && !bad; ++i) {
        const typename SM::ValueType& e = m.index[i];
        bool kb = !in_base(e.first), vb = !in_base(e.second);
        if (kb || vb) {
            bad = true;
            bump(CT_map_slice_outside_base_flagged);
            report(std::string(c.roundtrip ? "roundtrip" : "hostile") + "/extent-outside-input:sorted_map.slice:" + c.edit,
                   "deserialize() returned a message whose sorted_map index holds a slice that does not lie inside the map's base "
                   "buffer; find()/iteration resolve it without a bounds check (slice::anchor only asserts), so the key/value "
                   "they yield lies outside the supplied bytes",
                   vh::JObj().kv("entry", (uint64_t)i).kv("which", kb ? "key" : "value")
                       .kv("offset", (int64_t)(kb ? e.first.offset : e.second.offset))
                       .kv("length", (uint64_t)(kb ? e.first.length : e.second.length))
                       .kv("base_buffer_len", (uint64_t)blen).raw("input", c.witness).str());
        }
    }
    if (bad) {
        // Let the sanitizer confirm the explicit finding a few times per process, then stop paying a child for it. Only where
        // there is a sanitizer: iteration over an out-of-range value slice also *writes* there (deserialize<V> rewrites the
        // value's pointers in place), which in the plain flavor silently corrupts the heap of this child.
        if (!vh::is_asan() || shm->flagged_lib_calls >= 2) { bump(CT_flagged_map_library_call_skipped); return; }
        shm->flagged_lib_calls++;
        shm->explicit_flagged = 1;
    }
    // A key slice of length 0 is inside the base buffer, so nothing above objects. rpc::string::sv() of such a key is
    // {ptr, size()-1} = {ptr, SIZE_MAX}; what find() then reads is left to ASan, the breadcrumb only names the situation.
    bool zero_key = false;
    for (size_t j = 0; j < n && !bad; ++j) if (m.index[j].first.length == 0) zero_key = true;
    if (zero_key) { bump(CT_map_with_zero_length_key_slice); crumb_kind("sorted_map[zero-length-key]"); }
    crumb("map-iterate");
    size_t i = 0;
    for (auto it = m.begin(); it != m.end(); ++it, ++i) {
        auto& p = *it;
        bump(CT_map_entries_iterated);
        if (!bad) {
            // what iteration yields must lie inside the base buffer (which was itself checked against the input)
            auto kp = (const char*)p.first.addr();
            bool ok = p.first.size() == 0 || (kp >= base && kp + p.first.size() <= base + blen);
            LiveWalker w;
            p.second.process_fields(w);
            for (auto& r : w.f)
                if (r.len && r.kind != K_IOVEC && r.kind != K_ALIGNED_IOVEC && !(r.ptr >= base && r.ptr + r.len <= base + blen)) ok = false;
            if (!ok)
                report(std::string(c.roundtrip ? "roundtrip" : "hostile") + "/extent-outside-input:sorted_map.entry:" + c.edit,
                       "an entry yielded by sorted_map iteration has a key or value field outside the map's base buffer",
                       vh::JObj().kv("entry", (uint64_t)i).raw("input", c.witness).str());
            if (!ok) continue;
            touch(p.first.addr(), p.first.size());
            for (auto& r : w.f) if (r.len && r.kind != K_IOVEC && r.kind != K_ALIGNED_IOVEC) touch(r.ptr, r.len);
        } else {
            touch(p.first.addr(), p.first.size());
        }
        if (c.roundtrip) {
            bool same = i < c.expect->entries.size() && p.first.size() == c.expect->entries[i].first.size() + 1 &&
                        !memcmp(p.first.addr(), c.expect->entries[i].first.c_str(), p.first.size()) &&
                        canon(p.second) == c.expect->entries[i].second;
            if (!same)
                report("roundtrip/map-differs:iteration", "iterating a sorted_map after a round trip does not yield the original entries in key order",
                       vh::JObj().kv("entry", (uint64_t)i).kv("entries", (uint64_t)c.expect->entries.size()).raw("input", c.witness).str());
        }
    }
    if (c.roundtrip && i != c.expect->entries.size())
        report("roundtrip/map-differs:count", "a sorted_map has a different number of entries after a round trip",
               vh::JObj().kv("got", (uint64_t)i).kv("want", (uint64_t)c.expect->entries.size()).raw("input", c.witness).str());
    crumb("map-find");
    std::vector<std::string> probes;
    auto src = c.roundtrip ? c.expect : c.probes;
    if (src) for (auto& e : src->entries) if (probes.size() < 6 || c.roundtrip) probes.push_back(e.first);
    size_t n_present = c.roundtrip ? probes.size() : 0;
    probes.push_back("");
    { std::string s; for (int k = (int)c.rng->below(9); k > 0; --k) s.push_back((char)c.rng->range(33, 126)); probes.push_back(s); }
    for (size_t q = 0; q < probes.size(); ++q) {
        string k{std::string_view(probes[q])};
        bump(CT_map_find_calls);
        auto it = m.find(k);
        bool found = it != m.end();
        if (found) {
            auto& p = *it;
            touch(p.first.addr(), p.first.size());
            if (c.roundtrip) {
                bool is_present = false;
                const std::string* val = nullptr;
                for (auto& e : c.expect->entries) if (e.first == probes[q]) { is_present = true; val = &e.second; }
                std::string got((const char*)p.first.addr(), p.first.size() ? p.first.size() - 1 : 0);
                if (is_present ? (got != probes[q] || canon(p.second) != *val) : !(got > probes[q]))
                    report("roundtrip/map-differs:find", "find() on a round-tripped sorted_map returned the wrong entry",
                           vh::JObj().kv("probe", probes[q]).kv("got", got).raw("input", c.witness).str());
            }
        } else if (c.roundtrip && q < n_present) {
            report("roundtrip/map-differs:find", "find() on a round-tripped sorted_map does not find a key that was put in",
                   vh::JObj().kv("probe", probes[q]).raw("input", c.witness).str());
        }
    }
    // the library has been let loose on slices outside the input and the sanitizer saw nothing (they hit other live memory):
    // this child's memory can no longer be trusted, the parent goes on with a fresh one
    if (bad) _exit(77);
}
template <class K, class V> void LiveWalker::on_map(sorted_map<K, V>& m) {
    on_buf(K_MAP_INDEX, m.index, sizeof(typename sorted_map<K, V>::ValueType));
    on_buf(K_MAP_BASE, m.base_buffer, 1);
    if (bad_extent) return;
    auto* pm = &m;
    maps.push_back([pm](MapCtx& c) { exercise_map(*pm, c); });
}

// ------------------------------------------------------------------ the zoo
struct Pod16 { uint64_t a; uint32_t b; uint16_t c; uint8_t d, e; };
struct Pod3 { uint8_t x[3]; };
static_assert(sizeof(Pod16) == 16 && sizeof(Pod3) == 3, "layout");

struct M_Plain : Message { uint32_t u; int64_t i; char c; Pod16 p; double d; PROCESS_FIELDS(u, i, c, p, d); };
struct M_Buf : Message { int32_t code; buffer b1; uint64_t tag; buffer b2; PROCESS_FIELDS(code, b1, tag, b2); };
struct M_Aligned : Message { buffer head; aligned_buffer ab; uint32_t x; string s; aligned_buffer ab2; PROCESS_FIELDS(head, ab, x, s, ab2); };
struct M_Fixed : Message { uint16_t k; fixed_buffer<Pod16> f1; fixed_buffer<uint64_t> f2; fixed_buffer<Pod3> f3; PROCESS_FIELDS(k, f1, f2, f3); };
struct M_Array : Message { array<int32_t> ai; array<Pod16> ap; uint8_t z; array<uint8_t> ab; array<Pod3> a3; PROCESS_FIELDS(ai, ap, z, ab, a3); };
struct M_Str : Message { string s0; uint32_t mid; string s1; string s2; PROCESS_FIELDS(s0, mid, s1, s2); };
struct M_Iov : Message { int64_t ret; iovec_array v; string name; PROCESS_FIELDS(ret, v, name); };
struct M_AIov : Message { string fn; aligned_iovec_array av; uint64_t off; iovec_array v2; buffer tail; PROCESS_FIELDS(fn, av, off, v2, tail); };
struct N_Leaf : Message { int32_t x; string s; buffer b; PROCESS_FIELDS(x, s, b); };
struct N_Mid : Message { uint8_t t; N_Leaf leaf; buffer ab; array<uint16_t> arr; PROCESS_FIELDS(t, leaf, ab, arr); };
struct M_Nested : Message { uint32_t id; N_Mid mid; string after; N_Leaf leaf2; PROCESS_FIELDS(id, mid, after, leaf2); };
// aligned fields inside a nested message (the two-pass filter only exists at the top level)
struct N_AlignedInner : Message { int32_t x; aligned_buffer ab; buffer b; aligned_iovec_array av; PROCESS_FIELDS(x, ab, b, av); };
struct M_NestedAligned : Message { uint32_t id; N_AlignedInner in; string after; PROCESS_FIELDS(id, in, after); };
struct E_Plain : Message { int32_t a = 61; float f = 6.2f; PROCESS_FIELDS(a, f); };
struct E_Str : Message { int32_t x; string s; PROCESS_FIELDS(x, s); };
struct M_ArrMsg : Message { uint32_t n; array<E_Plain> ep; array<E_Str> es; string tail; PROCESS_FIELDS(n, ep, es, tail); };
struct MapVal : Message { int32_t a = 0; string b; char c = 0; PROCESS_FIELDS(a, b, c); };
struct MapVal2 : Message { uint64_t id; buffer blob; array<uint16_t> arr; PROCESS_FIELDS(id, blob, arr); };
struct M_Map : Message { int32_t code; buffer buf; sorted_map<string, MapVal> map; PROCESS_FIELDS(code, buf, map); };
struct M_Map2 : Message { sorted_map<string, MapVal2> m1; uint8_t sep; sorted_map<string, MapVal> m2; string tail; PROCESS_FIELDS(m1, sep, m2, tail); };
struct M_Checked : CheckedMessage<> { int32_t code; buffer buf; string s; array<uint32_t> arr; PROCESS_FIELDS(code, buf, s, arr); };
struct C_Nested : CheckedMessage<> { int32_t f1; string f2; PROCESS_FIELDS(f1, f2); };
struct M_CheckedMap : CheckedMessage<> { int32_t f2; string f3; C_Nested f4; sorted_map<string, MapVal> f5; array<E_Plain> f6; PROCESS_FIELDS(f2, f3, f4, f5, f6); };
struct M_CheckedIov : CheckedMessage<> { uint64_t off; aligned_iovec_array data; string name; fixed_buffer<Pod16> fx; PROCESS_FIELDS(off, data, name, fx); };
static_assert(sizeof(CheckedMessage<>) == 4, "the checksum is the first word of a checked message");

struct Arena {
    std::vector<void*> blocks;
    std::vector<std::function<void()>> dtors;
    std::vector<MapExpect> maps;
    ~Arena() {
        for (auto& d : dtors) d();
        for (auto p : blocks) free(p);
    }
    void* raw(size_t n) {      // exact-size heap block
        void* p = malloc(n);
        if (!p && n) vh::machinery_failure("malloc failed");
        if (p) blocks.push_back(p);
        return p;
    }
    template <class T> T* obj() {
        void* p = calloc(1, sizeof(T));
        blocks.push_back(p);
        return new (p) T;
    }
};
struct G {
    vh::Rng& r;
    Arena& a;
    bool big;
    size_t rlen(size_t cap) {
        auto x = r.below(100);
        size_t v;
        if (x < 22) v = 0;
        else if (x < 32) v = 1;
        else if (x < 70) v = r.range(2, 16);
        else if (x < 92) v = r.range(17, 300);
        else v = r.range(301, big ? 20000 : 3000);
        return std::min(v, cap);
    }
    uint8_t* bytes(size_t n) {
        auto p = (uint8_t*)a.raw(n);
        size_t i = 0;
        for (; i + 8 <= n; i += 8) { uint64_t v = r.next(); memcpy(p + i, &v, 8); }
        for (; i < n; ++i) p[i] = (uint8_t)r.next();
        return p;
    }
    template <class T> void plain(T& x) { for (size_t i = 0; i < sizeof(T); ++i) ((uint8_t*)&x)[i] = (uint8_t)r.next(); }
    void buf(buffer& b, size_t cap = 4000) { size_t n = rlen(cap); b.assign(n || r.chance(1, 2) ? bytes(n) : nullptr, n); }
    template <class T> void arr(array<T>& x, size_t capcount = 300) {
        size_t n = rlen(capcount);
        x.assign((const T*)bytes(n * sizeof(T)), n);
    }
    template <class T> void fixed(fixed_buffer<T>& f) { f.assign((const T*)bytes(sizeof(T))); }
    void str_set(string& s, const std::string& v) {
        auto p = (char*)a.raw(v.size() + 1);
        memcpy(p, v.c_str(), v.size() + 1);
        s.assign((const void*)p, v.size() + 1);
    }
    std::string text(size_t n) { std::string s; for (size_t i = 0; i < n; ++i) s.push_back((char)r.range(32, 126)); return s; }
    void str(string& s, size_t cap = 600) {
        size_t n = rlen(cap);      // bytes including the terminating NUL; 0 = default-constructed string
        if (n == 0) { if (r.chance(1, 2)) s = string(); else s.assign((const void*)a.raw(0), 0); return; }
        str_set(s, text(n - 1));
    }
    void iov(iovec_array& v, int maxcnt = 5, size_t cap = 400) {
        int n = (int)r.below(maxcnt + 1);
        auto arr = (iovec*)a.raw(n * sizeof(iovec));
        for (int i = 0; i < n; ++i) { size_t l = rlen(cap); arr[i] = {bytes(l), l}; }
        v.assign(arr, n);
    }
    template <class V, class GV> void map(sorted_map<string, V>& m, int maxn, GV genv) {
        auto x = r.below(100);
        int n = x < 12 ? 0 : x < 30 ? 1 : (int)r.range(2, maxn);
        auto f = new sorted_map_factory<string, V>;
        a.dtors.push_back([f] { delete f; });
        MapExpect ex;
        std::set<std::string> used;
        for (int i = 0; i < n; ++i) {
            std::string ks;
            do { ks = text(r.below(100) < 8 ? 0 : r.range(1, 9)); } while (used.count(ks));
            used.insert(ks);
            string k;
            str_set(k, ks);
            V* v = a.obj<V>();
            genv(*this, *v);
            f->append(k, *v);
            ex.entries.push_back({ks, canon(*v)});
        }
        f->assign_to(&m);
        std::sort(ex.entries.begin(), ex.entries.end());
        a.maps.push_back(std::move(ex));
    }
};
static void gen_mapval(G& g, MapVal& v) { g.plain(v.a); g.str(v.b, 40); g.plain(v.c); }
static void gen_mapval2(G& g, MapVal2& v) { g.plain(v.id); g.buf(v.blob, 60); g.arr(v.arr, 20); }
static void gen_leaf(G& g, N_Leaf& m) { g.plain(m.x); g.str(m.s); g.buf(m.b); }

static void gen(G& g, M_Plain& m) { g.plain(m.u); g.plain(m.i); g.plain(m.c); g.plain(m.p); g.plain(m.d); }
static void gen(G& g, M_Buf& m) { g.plain(m.code); g.buf(m.b1); g.plain(m.tag); g.buf(m.b2); }
static void gen(G& g, M_Aligned& m) { g.buf(m.head); g.buf(m.ab); g.plain(m.x); g.str(m.s); g.buf(m.ab2); }
static void gen(G& g, M_Fixed& m) { g.plain(m.k); g.fixed(m.f1); g.fixed(m.f2); g.fixed(m.f3); }
static void gen(G& g, M_Array& m) { g.arr(m.ai); g.arr(m.ap, 60); g.plain(m.z); g.arr(m.ab, 2000); g.arr(m.a3, 50); }
static void gen(G& g, M_Str& m) { g.str(m.s0); g.plain(m.mid); g.str(m.s1); g.str(m.s2); }
static void gen(G& g, M_Iov& m) { g.plain(m.ret); g.iov(m.v); g.str(m.name); }
static void gen(G& g, M_AIov& m) { g.str(m.fn); g.iov(m.av, 5, 1200); g.plain(m.off); g.iov(m.v2, 4); g.buf(m.tail); }
static void gen(G& g, M_Nested& m) {
    g.plain(m.id); g.plain(m.mid.t); gen_leaf(g, m.mid.leaf); g.buf(m.mid.ab); g.arr(m.mid.arr, 100);
    g.str(m.after); gen_leaf(g, m.leaf2);
}
static void gen(G& g, M_NestedAligned& m) { g.plain(m.id); g.plain(m.in.x); g.buf(m.in.ab, 300); g.buf(m.in.b, 300); g.iov(m.in.av, 3, 200); g.str(m.after); }
static void gen(G& g, M_ArrMsg& m) {
    g.plain(m.n);
    size_t n1 = g.rlen(40);
    auto e1 = (E_Plain*)g.a.raw(n1 * sizeof(E_Plain));
    for (size_t i = 0; i < n1; ++i) { new (e1 + i) E_Plain; g.plain(e1[i].a); g.plain(e1[i].f); }
    m.ep.assign(e1, n1);
    size_t n2 = g.r.below(100) < 20 ? 0 : g.r.range(1, 8);
    auto e2 = (E_Str*)g.a.raw(n2 * sizeof(E_Str));
    if (n2) memset((void*)e2, 0, n2 * sizeof(E_Str));
    for (size_t i = 0; i < n2; ++i) { new (e2 + i) E_Str; g.plain(e2[i].x); g.str(e2[i].s, 80); }
    m.es.assign(e2, n2);
    g.str(m.tail);
}
static void gen(G& g, M_Map& m) { g.plain(m.code); g.buf(m.buf); g.map(m.map, 8, gen_mapval); }
static void gen(G& g, M_Map2& m) { g.map(m.m1, 5, gen_mapval2); g.plain(m.sep); g.map(m.m2, 6, gen_mapval); g.str(m.tail); }
static void gen(G& g, M_Checked& m) { g.plain(m.code); g.buf(m.buf); g.str(m.s); g.arr(m.arr, 200); }
static void gen(G& g, M_CheckedMap& m) {
    g.plain(m.f2); g.str(m.f3); g.plain(m.f4.f1); g.str(m.f4.f2); g.map(m.f5, 6, gen_mapval);
    size_t n1 = g.rlen(20);
    auto e1 = (E_Plain*)g.a.raw(n1 * sizeof(E_Plain));
    for (size_t i = 0; i < n1; ++i) { new (e1 + i) E_Plain; g.plain(e1[i].a); g.plain(e1[i].f); }
    m.f6.assign(e1, n1);
}
static void gen(G& g, M_CheckedIov& m) { g.plain(m.off); g.iov(m.data, 6, 1500); g.str(m.name); g.fixed(m.fx); }

// ------------------------------------------------------------------ recording allocator of the receiving iovector
struct RecAlloc {
    Extents* ext;
    static int do_alloc(void* self, IOAlloc::RangeSize sz, void** out) {
        auto me = (RecAlloc*)self;
        *out = nullptr;
        if (sz.max < 0 || sz.min < 0 || sz.max < sz.min) return -1;
        if (sz.max > (64 << 20)) return -1;      // no input here is larger than a few hundred KiB: refusing is a legal answer of an allocator
        void* p = malloc((size_t)sz.max);       // exact size: ASan sees the end of every copy
        if (!p) return -1;
        memset(p, 0xA5, (size_t)sz.max);        // never-written bytes of a "copy" are recognisable (and not input bytes)
        me->ext->allocs.push_back({(const char*)p, (size_t)sz.max, true});
        bump(CT_allocator_copies);
        *out = p;
        return sz.max;
    }
    static int do_dealloc(void* self, void* p) {
        auto me = (RecAlloc*)self;
        for (auto& r : me->ext->allocs) if (r.live && r.p == p) r.live = false;
        free(p);        // a pointer we never handed out would be reported by ASan here
        return 0;
    }
};

// ------------------------------------------------------------------ edits
struct Edit {
    int cls = E_NONE;
    std::string desc;
    int target_kind = -1;
};
static const uint64_t BIG[] = {0x7fffffffull, 0x80000000ull, 0xffffffffull, 0x100000000ull, 0x7fffffffffffffffull,
                               0x8000000000000000ull, 0xffffffffffffffffull, 0xfffffffffffffff0ull};
static void put64(std::vector<uint8_t>& b, size_t off, uint64_t v) { if (off + 8 <= b.size()) memcpy(&b[off], &v, 8); }
static uint64_t get64(const std::vector<uint8_t>& b, size_t off) { uint64_t v = 0; if (off + 8 <= b.size()) memcpy(&v, &b[off], 8); return v; }

static uint64_t pick_len(vh::Rng& r, const FieldRec& f) {
    switch (r.below(12)) {
    case 0: return 0;
    case 1: return 1;
    case 2: return f.len - 1;
    case 3: return f.len + 1;
    case 4: return f.remaining - 1;
    case 5: return f.remaining;
    case 6: return f.remaining + 1;
    case 7: return f.len + f.elem;
    case 8: return r.below(2 * f.len + 8);
    case 9: return f.remaining + r.range(1, 64);
    default: return BIG[r.below(8)];
    }
}
static uint64_t pick_slice(vh::Rng& r, uint64_t blen, uint64_t other) {
    switch (r.below(12)) {
    case 0: return 0;
    case 1: return 1;
    case 2: return blen - 1;
    case 3: return blen;
    case 4: return blen + 1;
    case 5: return blen - other;
    case 6: return blen - other + 1;
    case 7: return (uint64_t)-1;
    case 8: return r.below(2 * blen + 2);
    case 9: return 4096 + r.below(1 << 20);
    default: return BIG[r.below(8)];
    }
}

// `valid` = model walk of the unedited bytes; `bodysz` = sizeof(T)
static Edit apply_edit(vh::Rng& r, std::vector<uint8_t>& b, const ModelWalker& valid, size_t bodysz) {
    Edit e;
    size_t n = b.size(), body_off = n - bodysz;
    auto& F = valid.f;
    std::vector<size_t> mapidx;
    for (size_t i = 0; i < F.size(); ++i) if (F[i].kind == K_MAP_INDEX && F[i].len >= 32) mapidx.push_back(i);
    auto x = r.below(100);
    char tmp[200];
    if (x < 40 && !F.empty()) {
        e.cls = E_FIELD;
        auto y = r.below(100);
        if (y < 30 && !mapidx.empty()) {
            auto& fi = F[mapidx[r.below(mapidx.size())]];
            uint64_t blen = (&fi)[1].len;            // the base buffer follows its index
            size_t ent = r.below(fi.len / 32), w = r.below(4);
            size_t off = fi.data_off + ent * 32 + w * 8;
            uint64_t other = get64(b, fi.data_off + ent * 32 + (w ^ 1) * 8);     // the partner word (offset <-> length) of the same slice
            uint64_t v = pick_slice(r, blen, other);
            put64(b, off, v);
            e.target_kind = K_MAP_INDEX;
            snprintf(tmp, sizeof(tmp), "slice entry %zu %s.%s := 0x%" PRIx64 " (base_buffer %" PRIu64 " bytes)", ent, w < 2 ? "key" : "value",
                     (w & 1) ? "length" : "offset", v, blen);
            e.desc = tmp;
            if (r.chance(1, 4)) {       // a second entry as well
                size_t ent2 = r.below(fi.len / 32), w2 = r.below(4);
                put64(b, fi.data_off + ent2 * 32 + w2 * 8, pick_slice(r, blen, 0));
                e.desc += " +1 more";
            }
        } else if (y < 40) {
            auto& f = F[r.below(F.size())];
            uint64_t v = r.pick({0ull, 1ull, 0xdeadbeefdeadbeefull, 0x7fffffffffffull, 0xffffffffffffffffull});
            put64(b, f.ptrword_off, v);
            e.target_kind = f.kind;
            snprintf(tmp, sizeof(tmp), "pointer word of %s field := 0x%" PRIx64, kind_name[f.kind], v);
            e.desc = tmp;
        } else {
            auto& f = F[r.below(F.size())];
            uint64_t v = pick_len(r, f);
            put64(b, f.lenword_off, v);
            e.target_kind = f.kind;
            snprintf(tmp, sizeof(tmp), "length word of %s field (was %zu, %zu bytes remained) := 0x%" PRIx64, kind_name[f.kind], f.len, f.remaining, v);
            e.desc = tmp;
            if (r.chance(1, 4) && F.size() > 1) {      // compensate on another field so that the total still fits
                auto& g = F[r.below(F.size())];
                if (&g != &f && g.len + f.len >= v && v < (1ull << 32)) {
                    put64(b, g.lenword_off, g.len + f.len - v);
                    e.desc += std::string(", and ") + kind_name[g.kind] + " adjusted to keep the sum";
                }
            }
        }
    } else if (x < 55) {
        e.cls = E_RESIZE;
        auto y = r.below(4);
        size_t k = r.chance(1, 2) ? r.range(1, 8) : r.range(1, std::max<size_t>(1, std::min<size_t>(n, bodysz + 40)));
        if (y == 0) { k = std::min(k, n); b.resize(n - k); snprintf(tmp, sizeof(tmp), "truncated by %zu bytes at the end", k); }
        else if (y == 1) { k = std::min(k, n); b.erase(b.begin(), b.begin() + k); snprintf(tmp, sizeof(tmp), "truncated by %zu bytes at the front", k); }
        else if (y == 2) { for (size_t i = 0; i < k; ++i) b.push_back((uint8_t)r.next()); snprintf(tmp, sizeof(tmp), "extended by %zu bytes at the end", k); }
        else { std::vector<uint8_t> p(k); for (auto& c : p) c = (uint8_t)r.next(); b.insert(b.begin(), p.begin(), p.end()); snprintf(tmp, sizeof(tmp), "extended by %zu bytes at the front", k); }
        e.desc = tmp;
    } else if (x < 80) {
        e.cls = E_BITFLIP;
        int k = (int)r.range(1, 6);
        e.desc = "bits flipped at";
        for (int i = 0; i < k; ++i) {
            size_t pos;
            auto y = r.below(100);
            if (y < 45 || body_off == 0) pos = body_off + r.below(bodysz);                   // in the body
            else if (y < 70 && !F.empty()) {                                                // in the low bytes of a length word
                auto& f = F[r.below(F.size())];
                pos = f.lenword_off + r.below(2);
            } else pos = r.below(n);
            if (pos >= n) pos = n - 1;
            int bit = (int)r.below(8);
            b[pos] ^= (uint8_t)(1u << bit);
            snprintf(tmp, sizeof(tmp), " %zu.%d", pos, bit);
            e.desc += tmp;
        }
    } else {
        e.cls = E_RANDOM;
        bool shaped = r.chance(1, 2);
        size_t nn = shaped ? bodysz + r.below(300) : r.below(2 * bodysz + 80);
        std::vector<uint8_t> nb(nn);
        for (auto& c : nb) c = (uint8_t)r.next();
        if (shaped) {
            // random bytes, but the length words of the body hold small numbers, so that the walk gets somewhere
            size_t budget = nn - bodysz;
            for (auto& f : F)
                if (f.lenword_off >= body_off && f.lenword_off + 8 <= n)
                    put64(nb, nn - bodysz + (f.lenword_off - body_off), r.chance(1, 5) ? 0 : r.below(budget / 2 + 2));
        }
        b.swap(nb);
        snprintf(tmp, sizeof(tmp), "%s random string of %zu bytes", shaped ? "length-shaped" : "fully", nn);
        e.desc = tmp;
    }
    return e;
}

// ------------------------------------------------------------------ one input
constexpr int VARIANTS = 4;         // variant 0 = round trip, 1..3 = hostile edits of the same instance
static bool g_thorough = false;

static std::vector<size_t> make_cuts(vh::Rng& r, size_t n, const std::vector<size_t>& bounds, size_t bodysz) {
    auto x = r.below(100);
    size_t k = x < 22 ? 1 : x < 45 ? 2 : x < 72 ? r.range(3, 6) : x < 95 ? r.range(7, 16) : r.range(17, 24);
    std::vector<size_t> cuts;
    if (n <= 24 && r.chance(1, 12)) { for (size_t i = 1; i < n; ++i) cuts.push_back(i); return cuts; }    // every byte its own fragment
    bool allow_empty = r.chance(1, 8);
    for (size_t i = 0; i + 1 < k; ++i) {
        size_t c;
        auto y = r.below(100);
        if (y < 45 || bounds.empty()) c = r.below(n + 1);
        else if (y < 85) { c = bounds[r.below(bounds.size())] + r.below(3) - 1; }
        else c = n - std::min(n, (size_t)r.range(1, bodysz));
        if (c > n) c = n;
        if (!allow_empty && (c == 0 || c == n)) continue;
        cuts.push_back(c);
    }
    std::sort(cuts.begin(), cuts.end());
    if (!allow_empty) cuts.erase(std::unique(cuts.begin(), cuts.end()), cuts.end());
    return cuts;
}

// everything that needs the static message type, behind plain function pointers (keeps run_input a single function)
struct TypeOps {
    const char* name;
    size_t bodysz;
    bool checked;
    bool rt_only;        // only the round trip is run (see wire_layout_mismatch)
    void* (*make)(G&);
    // returns false if the serialiser ran out of iovec slots; *sum = total bytes
    bool (*serialize)(void* m, std::vector<uint8_t>& flat, bool on_stack, size_t* sum, size_t expect);
    void (*model)(ModelWalker&, uint8_t* body);
    void (*live)(LiveWalker&, void* msg);
    void* (*deser)(iovector*);
};
template <class T> struct Ops {
    static void* make(G& g) { T* m = g.a.obj<T>(); gen(g, *m); return m; }
    static bool flatten(SerializerIOV& ser, std::vector<uint8_t>& flat, size_t* sum, size_t expect) {
        *sum = ser.iov.sum();
        if (ser.iovfull) return false;
        if (*sum > (1u << 24) || (expect != SIZE_MAX && *sum != expect)) return true;       // nonsense total: do not copy, the caller compares the sums
        flat.resize(*sum);
        size_t c = ser.iov.memcpy_to(flat.data(), flat.size());
        if (c != flat.size()) vh::machinery_failure("flatten copied a different number of bytes");
        return true;
    }
    static bool serialize(void* m, std::vector<uint8_t>& flat, bool on_stack, size_t* sum, size_t expect) {
        if (on_stack) {
            SerializerIOV st;                        // the way rpc.h uses it
            st.serialize(*(T*)m);
            return flatten(st, flat, sum, expect);
        }
        auto ser = new SerializerIOV;
        ser->serialize(*(T*)m);
        bool ok = flatten(*ser, flat, sum, expect);
        delete ser;
        return ok;
    }
    static void model(ModelWalker& w, uint8_t* body) { walk_top(w, (T*)body); }
    static void live(LiveWalker& w, void* msg) { walk_top(w, (T*)msg); }
    static void* deser(iovector* iov) {
        auto des = new DeserializerIOV;
        T* r = des->deserialize<T>(iov);
        delete des;
        return r;
    }
};
#define TYPES(X) X(M_Plain) X(M_Buf) X(M_Aligned) X(M_Fixed) X(M_Array) X(M_Str) X(M_Iov) X(M_AIov) X(M_Nested) X(M_ArrMsg) \
    X(M_Map) X(M_Map2) X(M_Checked) X(M_CheckedMap) X(M_CheckedIov) X(M_NestedAligned)
static const TypeOps g_types[] = {
#define X(t) {#t, sizeof(t), std::is_base_of<CheckedMessage<>, t>::value, std::is_same<t, M_NestedAligned>::value, &Ops<t>::make, &Ops<t>::serialize, &Ops<t>::model, &Ops<t>::live, &Ops<t>::deser},
    TYPES(X)
#undef X
};
constexpr int NTYPES = sizeof(g_types) / sizeof(g_types[0]);

static std::string witness_json(const char* type, const char* mode, const Edit& e, const std::vector<uint8_t>& in,
                                const std::vector<size_t>& cuts, uint64_t idx) {
    vh::JArr ca;
    for (size_t i = 0; i < cuts.size() && i < 32; ++i) ca.add((int64_t)cuts[i]);
    return vh::JObj().kv("type", type).kv("mode", mode).kv("input_index", idx).kv("edit_class", edit_name[e.cls]).kv("edit", e.desc)
        .kv("input_len", (uint64_t)in.size()).raw("cut_points", ca.str()).kv("input_hex", vh::hex(in.data(), in.size(), 700)).str();
}
static IOVector* new_receiving_iov(RecAlloc* ra) {
    return new IOVector(IOAlloc(IOAlloc::Allocator((void*)ra, &RecAlloc::do_alloc), IOAlloc::Deallocator((void*)ra, &RecAlloc::do_dealloc)), 0);
}

// Used (a) for the message type with aligned fields inside a nested message and (b) whenever the serialiser did not put
// on the wire what the reference walk of the message expects. Either a field was not transported (then the receiver is
// left with the sender's pointer: shown here), or the reference is wrong (machinery failure).
static void wire_layout_mismatch(const TypeOps& T, const std::vector<uint8_t>& flat, const ModelWalker& valid, uint64_t idx, uint64_t case_seed, bool layout_ok) {
    const size_t n0 = flat.size();
    bump(CT_nested_aligned_cases);
    Extents ext;
    void* blk = malloc(n0);
    memcpy(blk, flat.data(), n0);
    ext.frags.push_back({(const char*)blk, n0, true});
    RecAlloc ra{&ext};
    auto iov = new_receiving_iov(&ra);
    iov->push_back(blk, n0);
    crumb("deserialize");
    void* res = T.deser(iov);
    vh::event();
    Edit none;
    std::string wit = witness_json(T.name, "roundtrip", none, flat, {}, idx);
    int found = 0;
    if (!res) { report(std::string("roundtrip/rejected:") + T.name, "deserialize() returned null for the unmodified output of serialize()", wit); found = 1; }
    else {
        LiveWalker lr;
        lr.ext = &ext;
        T.live(lr, res);
        for (auto& r : lr.f) {
            bool is_iov = r.kind == K_IOVEC || r.kind == K_ALIGNED_IOVEC;
            size_t l = is_iov ? r.arr_len : r.len;
            if (l && !ext.where(r.ptr, l)) {
                found++;
                report(std::string("roundtrip/field-not-transported:") + kind_name[r.kind] + (r.depth ? "-in-nested-message" : ""),
                       "after serialize()+deserialize() a non-empty field of the result still holds the sender's pointer: the field was never put on the "
                       "wire (ArchiveBase's generic no-op process_field<T> is a better overload match for an aligned field than the archive's "
                       "process_field(buffer&)/(iovec_array&) once the top-level aligned filter is out of the way), so it lies outside the supplied bytes",
                       vh::JObj().kv("type", T.name).kv("field_kind", kind_name[r.kind]).kv("nesting_depth", (int)r.depth).kv("length", (uint64_t)l)
                           .kv("serialized_payload_bytes", (uint64_t)(n0 - T.bodysz)).kv("expected_payload_bytes_at_least", (uint64_t)valid.cur).raw("input", wit).str());
            }
        }
    }
    shm->cur_hash = vh::mix(0xA11, case_seed);
    shm->cur_nontrivial = 1;
    delete iov;
    free(blk);
    if (!found && !layout_ok) vh::machinery_failure(std::string("reference walk disagrees with the serialiser for ") + T.name + " although every field came back inside the input");
}

// O2 for a non-null result whose wire lengths fit: every field in lockstep with the reference walk. true = a violation was reported
static bool check_fields(LiveWalker& lr, ModelWalker& model, const Extents& ext, const std::vector<uint8_t>& in, const std::string& pfx,
                         const std::string& sfx, const std::string& wit) {
    // plain fields: bytes of the body (or of array elements) at the position the reference walk gives
    for (size_t i = 0; i < lr.plain.size() && i < model.plain.size(); ++i) {
        if (!ext.where(lr.plain[i].ptr, lr.plain[i].size) || memcmp(lr.plain[i].ptr, in.data() + model.plain[i].off, lr.plain[i].size)) {
            report(pfx + "/field-content-differs-from-input:plain" + sfx, "a fixed field of the result is not the corresponding bytes of the input", wit);
            return true;
        }
    }
    for (size_t i = 0; i < lr.f.size(); ++i) {
        auto& L = lr.f[i];
        if (i >= model.f.size() || L.kind != model.f[i].kind) { report(pfx + "/field-structure-differs" + sfx, "the result has a different field structure than the wire format describes", wit); return true; }
        auto& M = model.f[i];
        std::string k = kind_name[L.kind];
        crumb("walk-fields");
        crumb_kind(k);
        bump(CT_fields_walked);
        bool is_iov = L.kind == K_IOVEC || L.kind == K_ALIGNED_IOVEC;
        if (L.len != M.len) {
            report(pfx + "/field-length-differs:" + k + sfx, "a field of the result has a different length than on the wire",
                   vh::JObj().kv("got", (uint64_t)L.len).kv("wire", (uint64_t)M.len).raw("input", wit).str());
            return true;
        }
        if (L.kind == K_FIXED && L.len != L.elem) bump(CT_fixed_buffer_wire_length_mismatch_accepted);
        if (!is_iov) {
            if (L.len == 0) continue;
            if (!ext.where(L.ptr, L.len)) {
                report(pfx + "/extent-outside-input:" + k + sfx, "a variable-length field of the result lies neither inside one supplied fragment nor inside allocator memory",
                       vh::JObj().kv("length", (uint64_t)L.len).raw("input", wit).str());
                return true;
            }
            touch(L.ptr, L.len);
            if (L.kind != K_ARRAY_MSG && memcmp(L.ptr, in.data() + M.data_off, L.len)) {
                report(pfx + "/field-content-differs-from-input:" + k + sfx, "a variable-length field of the result does not hold the input bytes at its wire position",
                       vh::JObj().kv("length", (uint64_t)L.len).kv("wire_offset", (uint64_t)M.data_off).raw("input", wit).str());
                return true;
            }
        } else {
            if (L.arr_len == 0) { if (L.len) { report(pfx + "/field-length-differs:" + k + sfx, "iovec_array with a sum but no elements", wit); return true; } continue; }
            if (!ext.where(L.ptr, L.arr_len)) { report(pfx + "/extent-outside-input:" + k + sfx, "the iovec array of an iovec_array field lies outside allocator memory", wit); return true; }
            auto v = (const iovec*)L.ptr;
            size_t cnt = L.arr_len / sizeof(iovec), pos = M.data_off, sum = 0;
            for (size_t j = 0; j < cnt; ++j) {
                if (v[j].iov_len == 0) continue;
                if (!ext.where(v[j].iov_base, v[j].iov_len) || sum + v[j].iov_len > L.len) {
                    report(pfx + "/extent-outside-input:" + k + sfx, "an element of an iovec_array field lies outside the supplied fragments", wit);
                    return true;
                }
                touch(v[j].iov_base, v[j].iov_len);
                if (memcmp(v[j].iov_base, in.data() + pos, v[j].iov_len)) {
                    report(pfx + "/field-content-differs-from-input:" + k + sfx, "an iovec_array field does not hold the input bytes at its wire position", wit);
                    return true;
                }
                pos += v[j].iov_len;
                sum += v[j].iov_len;
            }
            if (sum != L.len) { report(pfx + "/field-length-differs:" + k + sfx, "the elements of an iovec_array field do not add up to its summed size", wit); return true; }
        }
    }
    if (lr.bad_extent || lr.f.size() != model.f.size() || lr.plain.size() != model.plain.size()) {
        report(pfx + "/extent-outside-input:array<message>" + sfx, "an array of messages in the result lies outside the input, or the field structure differs", wit);
        return true;
    }
    return false;
}

// O1: the result against the original. true = equal
static bool compare_roundtrip(LiveWalker& lo, LiveWalker& lr, const std::string& wit) {
    bool same = lo.f.size() == lr.f.size() && lo.plain.size() == lr.plain.size();
    if (!same) report("roundtrip/field-differs:structure", "the result has a different field structure than the original", wit);
    for (size_t i = 0; same && i < lo.plain.size(); ++i)
        if (memcmp(lo.plain[i].ptr, lr.plain[i].ptr, lo.plain[i].size)) { same = false; report("roundtrip/field-differs:plain", "a fixed field differs after a round trip", wit); }
    for (size_t i = 0; same && i < lo.f.size(); ++i) {
        auto &A = lo.f[i], &B = lr.f[i];
        bool eq = A.kind == B.kind && A.len == B.len;
        if (eq && A.len && A.kind != K_ARRAY_MSG) {
            if (A.kind == K_IOVEC || A.kind == K_ALIGNED_IOVEC) {
                std::string a, b;
                auto va = (const iovec*)A.ptr;
                for (size_t j = 0; j < A.arr_len / sizeof(iovec); ++j) a.append((const char*)va[j].iov_base, va[j].iov_len);
                auto vb = (const iovec*)B.ptr;
                for (size_t j = 0; j < B.arr_len / sizeof(iovec); ++j) b.append((const char*)vb[j].iov_base, vb[j].iov_len);
                eq = a == b;
            } else eq = !memcmp(A.ptr, B.ptr, A.len);
        }
        if (!eq) { same = false; report(std::string("roundtrip/field-differs:") + kind_name[A.kind], "a variable-length field differs after a round trip (length or bytes)",
                                       vh::JObj().kv("field_index", (uint64_t)i).kv("orig_len", (uint64_t)A.len).kv("got_len", (uint64_t)B.len).raw("input", wit).str()); }
    }
    return same;
}

static void run_input(uint64_t idx, uint64_t case_seed, int variant, int tindex) {
    const TypeOps& T = g_types[tindex];
    const bool checked = T.checked;
    const char* tname = T.name;
    const bool rt = variant == 0;
    if (T.rt_only && !rt) return;
    cpy(shm->type, sizeof(shm->type), tname);
    cpy(shm->mode, sizeof(shm->mode), rt ? "roundtrip" : "hostile");
    cpy(shm->edit, sizeof(shm->edit), "none");
    crumb("generate");
    crumb_kind(tname);

    // ---- the instance and its valid serialisation (same for all variants of a case)
    vh::Rng gr(case_seed);
    Arena arena;
    G g{gr, arena, g_thorough && gr.chance(1, 6)};
    void* m = T.make(g);
    crumb("serialize");
    std::vector<uint8_t> flat;
    size_t sum0 = 0;
    if (!T.serialize(m, flat, false, &sum0, SIZE_MAX)) { bump(CT_generator_iovfull_skipped); return; }
    vh::event();
    const size_t n0 = flat.size(), bodysz = T.bodysz;
    if (n0 != sum0 || n0 < bodysz) { report("roundtrip/short-serialization", "serialize() produced fewer bytes than the message body", "null"); return; }
    ModelWalker valid(flat.data(), n0 - bodysz);
    T.model(valid, flat.data() + n0 - bodysz);
    const bool layout_ok = !valid.fail && valid.cur == n0 - bodysz;
    if (!layout_ok || T.rt_only) {
        if (variant == 0) wire_layout_mismatch(T, flat, valid, idx, case_seed, layout_ok);
        return;
    }
    if (rt) {
        // the same call with the SerializerIOV (and its iovec array) as a local variable
        crumb("serialize-on-stack");
        std::vector<uint8_t> f2;
        size_t s2 = 0;
        bool ok2 = T.serialize(m, f2, true, &s2, n0);
        bump(CT_stack_serializer_compared);
        bool same = ok2 && s2 == n0 && f2.size() == n0;
        if (same && checked) memcpy(&f2[n0 - bodysz], &flat[n0 - bodysz], 4);      // the second call started from a non-zero checksum
        if (same) same = f2 == flat;
        if (!same)
            report("roundtrip/serializer-on-stack-differs", "SerializerIOV as a local variable produced a different byte string than a heap-allocated one for the same message",
                   vh::JObj().kv("type", tname).kv("bytes_heap", (uint64_t)n0).kv("bytes_stack", (uint64_t)s2).str());
    }
    LiveWalker lo;
    T.live(lo, m);
    uint64_t h = vh::mix(0xC12, tindex);
    for (auto& p : lo.plain) h = vh::hash_bytes(p.ptr, p.size, h);
    for (auto& r : lo.f) { h = vh::mix(h, r.len * 16 + r.kind); if (r.len && r.kind != K_ARRAY_MSG && r.kind != K_IOVEC && r.kind != K_ALIGNED_IOVEC) h = vh::hash_bytes(r.ptr, r.len, h); }

    // ---- the input of this variant
    vh::Rng vr(vh::mix(case_seed, 0x1000 + variant));
    std::vector<uint8_t> in = flat;
    Edit ed;
    if (!rt) {
        ed = apply_edit(vr, in, valid, bodysz);
        cpy(shm->edit, sizeof(shm->edit), edit_name[ed.cls]);
        bump(ed.cls == E_FIELD ? CT_edit_field_word : ed.cls == E_RESIZE ? CT_edit_resize : ed.cls == E_BITFLIP ? CT_edit_bitflip : CT_edit_random);
    }
    const bool altered = in != flat;
    if (!rt && !altered) bump(CT_edit_left_bytes_unchanged);
    const size_t n = in.size();
    h = vh::mix(h, variant);
    h = vh::hash_bytes(ed.desc.data(), ed.desc.size(), h);
    if (ed.cls == E_RANDOM || ed.cls == E_RESIZE) h = vh::hash_bytes(in.data(), std::min<size_t>(in.size(), 256), h);

    // ---- reference walk of the input
    bool body_short = n < bodysz;
    ModelWalker model(in.data(), body_short ? 0 : n - bodysz);
    if (!body_short) T.model(model, in.data() + n - bodysz);
    bool model_fail = body_short || model.fail;
    if (model_fail) bump(CT_wire_lengths_exceed_input);
    if (model.failpath_null_arith) bump(CT_failpath_null_arith_executed);
    bool crc_ok = true;
    if (checked && !body_short) {
        // the checksum word lives inside the body and holds the running value while the body is hashed (on both sides)
        std::vector<uint8_t> body(in.end() - bodysz, in.end());
        uint32_t stored, run = crc32c_extend(in.data(), n - bodysz, 0);
        memcpy(&stored, &body[0], 4);
        memcpy(&body[0], &run, 4);
        crc_ok = crc32c_extend(body.data(), bodysz, run) == stored;
    }

    // ---- fragmentation
    std::vector<size_t> bounds;
    if (!model_fail) for (auto& r : model.f) bounds.push_back(r.data_off);
    if (!body_short) bounds.push_back(n - bodysz);
    std::vector<size_t> cuts = n ? make_cuts(vr, n, bounds, bodysz) : std::vector<size_t>();
    for (auto c : cuts) h = vh::mix(h, c);
    std::string wit = witness_json(tname, rt ? "roundtrip" : "hostile", ed, in, cuts, idx);
    cpy(shm->cur_witness, sizeof(shm->cur_witness), wit);
    shm->cur_hash = h;

    int straddle = 0, multi_iov = 0;
    bool body_straddle = false;
    auto crosses = [&](size_t a, size_t b) { for (auto c : cuts) if (c > a && c < b) return true; return false; };
    if (!model_fail) {
        for (auto& r : model.f) {
            if (r.len == 0) { bump(CT_zero_length_field); continue; }
            if (r.kind == K_STRING && r.len == 1) bump(CT_string_length_1);
            if (crosses(r.data_off, r.data_off + r.len)) { if (r.kind == K_IOVEC || r.kind == K_ALIGNED_IOVEC) multi_iov++; else straddle++; }
        }
        body_straddle = crosses(n - bodysz, n);
        bump(CT_field_straddles_fragments, straddle);
        bump(CT_iovec_array_multi_fragment, multi_iov);
        if (body_straddle) bump(CT_body_straddles_fragments);
    }
    size_t big_map = 0;
    for (auto& me : arena.maps) big_map = std::max(big_map, me.entries.size());
    // non-triviality rule (see driver/checks/C12.py)
    bool nontrivial = rt ? (straddle > 0 || body_straddle || big_map >= 2) : (altered && n >= bodysz);
    shm->cur_nontrivial = nontrivial;

    Extents ext;
    std::vector<void*> fragmem;
    {
        size_t prev = 0;
        auto add = [&](size_t a, size_t b) {
            void* p = malloc(b - a);
            if (!p && b > a) vh::machinery_failure("malloc failed");
            if (b > a) memcpy(p, in.data() + a, b - a); else bump(CT_zero_length_fragment);
            fragmem.push_back(p);
            ext.frags.push_back({(const char*)p, b - a, true});
        };
        for (auto c : cuts) { add(prev, c); prev = c; }
        add(prev, n);
    }
    if (ext.frags.size() == 1) bump(CT_single_fragment);
    if (ext.frags.size() >= 8) bump(CT_fragments_ge8);
    if (idx % 997 == 0 && shm->n_samples < 4) {
        vh::JArr fl;
        for (auto& f : ext.frags) fl.add((int64_t)f.n);
        cpy(shm->samples[shm->n_samples++], 1500, vh::JObj().kv("type", tname).kv("mode", rt ? "roundtrip" : "hostile").kv("edit", ed.desc)
            .raw("fragment_lengths", fl.str()).kv("fields_straddling", straddle).kv("body_straddles", body_straddle).kv("bytes", (uint64_t)n).str());
    }

    // ---- deserialise
    if (!body_short && model.walks_null_elements && shm->array_msg_overrun_deaths >= 4) {
        // this execution has already recorded (4 times) that such an input kills the process inside deserialize(); a fifth
        // child would only cost time. Not counted as an evaluated input.
        bump(CT_repeat_of_recorded_crash_not_executed);
        for (auto p : fragmem) free(p);
        shm->cur_hash = 0;
        return;
    }
    RecAlloc ra{&ext};
    auto iov = new_receiving_iov(&ra);
    for (auto& f : ext.frags) iov->push_back((void*)f.p, f.n);
    crumb("deserialize");
    crumb_kind(body_short ? "body-overrun" : model.walks_null_elements ? "array<message>-overrun" : model.fail ? std::string(kind_name[model.fail_kind]) + "-overrun" : std::string("wellformed:") + tname);
    void* res = T.deser(iov);
    vh::event();
    const std::string pfx = rt ? "roundtrip" : "hostile";
    const std::string sfx = rt ? std::string() : std::string(":") + edit_name[ed.cls];

    crumb("check-result");
    if (!res) {
        if (rt) report(std::string("roundtrip/rejected:") + tname, "deserialize() returned null for the unmodified output of serialize()", wit);
        else {
            bump(CT_hostile_rejected);
            if (checked && altered && !crc_ok) bump(CT_checksum_mismatch_rejected);
            if (!model_fail && crc_ok) bump(CT_wellformed_but_rejected);
        }
    } else do {
        if (!rt) bump(CT_hostile_accepted);
        if (checked && !crc_ok) {
            report("checked/checksum-mismatch-accepted" + sfx, "a CheckedMessage was accepted although the checksum it carries is not the one its own algorithm computes over the received bytes", wit);
            break;
        }
        if (checked && altered) {
            // O4. Accepting an altered checked message is only called a violation when a 32-bit CRC over the message is
            // *certain* to notice the alteration: same length and at most 3 changed bits, or all changed bits within 32 bits
            // (CRC-32C: Hamming distance >= 4 at these lengths; every burst <= 32 bits). Anything else could be a collision.
            bool provable = false, in_body = false;
            if (n == n0) {
                size_t first = SIZE_MAX, last = 0, bits = 0;
                for (size_t i = 0; i < n; ++i) {
                    uint8_t d = in[i] ^ flat[i];
                    if (!d) continue;
                    if (i >= n - bodysz) in_body = true;
                    for (int b = 0; b < 8; ++b) if (d & (1u << b)) { bits++; size_t pos = i * 8 + b; if (first == SIZE_MAX) first = pos; last = pos; }
                }
                provable = bits > 0 && (bits <= 3 || last - first < 32);
            }
            if (provable) {
                report(std::string("checked/altered-accepted:") + (in_body ? "body" : "payload") + sfx,
                       "a CheckedMessage was accepted although its bytes were altered in a way a CRC-32 over the message cannot miss (<= 3 bits, or a burst <= 32 bits)",
                       vh::JObj().kv("altered_region", in_body ? "body" : "payload (the variable-length fields)").raw("input", wit).str());
                bump(CT_checked_altered_accepted_provable);
            } else bump(CT_checked_altered_accepted_not_provable);
        }
        if (!ext.where(res, bodysz)) { report(pfx + "/extent-outside-input:body" + sfx, "the returned message body is neither inside a supplied fragment nor inside allocator memory", wit); break; }
        if (model_fail) {
            std::string k = body_short ? "body" : kind_name[model.fail_kind];
            report(pfx + "/accepted-overlong-field:" + k + sfx,
                   "deserialize() returned a message although a field's wire length exceeds the bytes that remain in the input",
                   vh::JObj().kv("field_kind", k).kv("wire_length", (uint64_t)model.fail_len).kv("remaining", (uint64_t)model.fail_remaining).raw("input", wit).str());
            break;
        }
        LiveWalker lr;
        lr.ext = &ext;
        T.live(lr, res);
        if (check_fields(lr, model, ext, in, pfx, sfx, wit)) break;
        if (rt) {
            crumb("compare");
            if (compare_roundtrip(lo, lr, wit)) { bump(CT_roundtrip_ok); if (checked) bump(CT_checked_roundtrip_ok); }
        }
        // ---- maps: explicit slice check, iteration, find()
        for (size_t i = 0; i < lr.maps.size(); ++i) {
            MapCtx c;
            c.roundtrip = rt;
            c.expect = i < arena.maps.size() ? &arena.maps[i] : nullptr;
            c.probes = c.expect;
            c.rng = &vr;
            c.witness = wit;
            c.edit = edit_name[ed.cls];
            if (rt && !c.expect) vh::machinery_failure("map expectation missing");
            lr.maps[i](c);
        }
    } while (0);
    crumb("free");
    crumb_kind(tname);
    delete iov;                 // disposes the copies
    for (auto p : fragmem) free(p);
    shm->explicit_flagged = 0;
}

static void run_index(uint64_t xseed, uint64_t idx) {
    uint64_t cas = idx / VARIANTS;
    int variant = (int)(idx % VARIANTS);
    uint64_t cs = vh::mix(xseed, cas);
    int t = (int)(vh::mix(cs, 77) % NTYPES);
    int forced = (int)vh::args().geti("type", -1);
    if (forced >= 0 && forced < NTYPES) t = forced;
    run_input(idx, cs, variant, t);
}

// The plainest use there is, exactly as rpc.h's Stub::call() does it: a SerializerIOV as a local variable, serialize(), sum().
struct P_Flat : Message { int32_t id = 2; buffer b; PROCESS_FIELDS(id, b); };
__attribute__((noinline)) static size_t stack_probe_sum() {
    char B[10];
    memset(B, 'b', sizeof(B));
    P_Flat m;
    m.b.assign(B, sizeof(B));
    SerializerIOV s;
    s.serialize(m);
    return s.iov.sum();
}

// ------------------------------------------------------------------ parent: batches in forked children
static vh::NamedCounter* g_nc[CT_N];
static std::set<std::string> g_seen_death_keys;
static std::map<std::string, std::pair<std::string, std::string>> g_report_cache;

static void merge_shm(bool discard = false) {
    if (!discard) {
        for (int i = 0; i < CT_N; ++i) if (shm->ctr[i]) g_nc[i]->add((int64_t)shm->ctr[i]);
        vh::event(shm->events);
        for (uint32_t i = 0; i < shm->n_notes; ++i) vh::note_input(shm->notes[i].hash, shm->notes[i].nontrivial);
        for (uint32_t i = 0; i < shm->n_viol; ++i) vh::violation(shm->viol[i].key, shm->viol[i].what, shm->viol[i].witness);
        for (uint32_t i = 0; i < shm->n_samples; ++i) vh::sample(shm->samples[i]);
    }
    memset(shm->ctr, 0, sizeof(shm->ctr));
    shm->events = 0;
    shm->n_notes = shm->n_viol = shm->n_samples = 0;
}

static std::string slurp(const std::string& path, size_t max) {
    std::string s;
    FILE* f = fopen(path.c_str(), "rb");
    if (!f) return s;
    char buf[4096];
    size_t k;
    while ((k = fread(buf, 1, sizeof(buf), f)) > 0 && s.size() < max) s.append(buf, k);
    fclose(f);
    return s;
}

// returns wait status; runs inputs [from, to)
static int run_child(uint64_t xseed, uint64_t from, uint64_t to, const std::string& errfile, unsigned alarm_s, bool fast_death) {
    fflush(stdout);
    fflush(stderr);
    pid_t pid = fork();
    if (pid < 0) vh::machinery_failure("fork failed");
    if (pid == 0) {
        int fd = open(errfile.c_str(), O_WRONLY | O_CREAT | O_TRUNC, 0644);
        if (fd >= 0) { dup2(fd, 2); dup2(fd, 1); close(fd); }
        g_fast_death = fast_death;
        for (uint64_t i = from; i < to; ++i) {
            shm->cur = i;
            shm->cur_hash = 0;
            shm->cur_nontrivial = 0;
            shm->explicit_flagged = 0;
            alarm(alarm_s);
            uint64_t ev0 = vh::st().events.load();
            run_index(xseed, i);
            shm->events += vh::st().events.load() - ev0;
            if (shm->cur_hash && shm->n_notes <= BATCH) { shm->notes[shm->n_notes].hash = shm->cur_hash; shm->notes[shm->n_notes].nontrivial = shm->cur_nontrivial; shm->n_notes++; }
            shm->done = i + 1;
        }
        _exit(0);
    }
    int status = 0;
    while (waitpid(pid, &status, 0) < 0 && errno == EINTR) {}
    return status;
}

static std::string describe_status(int status) {
    if (WIFSIGNALED(status)) return std::string("killed by signal ") + std::to_string(WTERMSIG(status)) + " (" + strsignal(WTERMSIG(status)) + ")";
    if (WIFEXITED(status)) return "exit code " + std::to_string(WEXITSTATUS(status)) + (WEXITSTATUS(status) == 99 ? " (AddressSanitizer report)" : WEXITSTATUS(status) == 98 ? " (UBSan report)" : "");
    return "status " + std::to_string(status);
}
static std::string report_excerpt(const std::string& err) {
    auto p = err.find("ERROR: AddressSanitizer");
    if (p == std::string::npos) p = err.find("runtime error:");
    if (p == std::string::npos) return err.substr(0, 1500);
    if (p > 100) p -= 100; else p = 0;
    return err.substr(p, 2500);
}
static std::string sanitizer_summary(const std::string& err) {
    auto p = err.find("ERROR: AddressSanitizer: ");
    if (p != std::string::npos) { auto e = err.find_first_of(" \n", p + 25); return "AddressSanitizer " + err.substr(p + 25, e - p - 25); }
    p = err.find("runtime error: ");
    if (p != std::string::npos) { auto e = err.find('\n', p); return "UBSan " + err.substr(p + 15, std::min<size_t>(e - p - 15, 80)); }
    return "";
}

int main(int argc, char** argv) {
    vh::init(argc, argv);
    g_thorough = vh::args().thorough();
    for (int i = 0; i < CT_N; ++i) g_nc[i] = new vh::NamedCounter(ctr_name[i]);
    shm = (Shm*)mmap(nullptr, sizeof(Shm), PROT_READ | PROT_WRITE, MAP_SHARED | MAP_ANONYMOUS, -1, 0);
    if (shm == MAP_FAILED) vh::machinery_failure("mmap failed");
    memset(shm, 0, sizeof(Shm));
    // `salt` lets a second run of the same execution indices (the plain flavor) explore other inputs
    const uint64_t salt = (uint64_t)vh::args().geti("salt", 0);
    const uint64_t xseed = salt ? vh::mix(vh::args().xseed(), salt) : vh::args().xseed();
    uint64_t N = (uint64_t)vh::args().geti("inputs", g_thorough ? 16000 : 1400);
    int64_t only = vh::args().geti("only", -1);
    std::string dir = vh::args().scratch.empty() ? std::string("/tmp") : vh::args().scratch;
    mkdir(dir.c_str(), 0755);
    std::string errfile = dir + "/h_ser." + std::to_string(getpid()) + ".err";
    vh::config("inputs", (int64_t)N);
    vh::config("message_types", NTYPES);
    vh::config("variants_per_instance", VARIANTS);

    {
        size_t got = stack_probe_sum(), want = sizeof(P_Flat) + 10;
        vh::event();
        vh::config("stack_probe_bytes", (int64_t)std::min<size_t>(got, INT64_MAX));
        if (got != want)
            vh::violation("roundtrip/serializer-on-stack-differs",
                          "SerializerIOV as a local variable (the way rpc.h uses it) does not serialize a message with one 10-byte buffer to sizeof(message)+10 bytes: "
                          "stores into iovector::iovs[] (a zero-length array of the base class that the derived IOVectorEntity backs with its own array) are "
                          "dropped by the optimiser in this build",
                          vh::JObj().kv("type", "P_Flat{int32 id; buffer b(10 bytes)}").kv("bytes_expected", (uint64_t)want).kv("bytes_reported_by_iov_sum", (uint64_t)got).str());
    }
    uint64_t next = only >= 0 ? (uint64_t)only : 0, end = only >= 0 ? (uint64_t)only + 1 : N;
    while (next < end) {
        uint64_t to = std::min(end, next + BATCH);
        shm->cur = next;
        shm->done = next;
        int status = run_child(xseed, next, to, errfile, 60, true);
        vh::progress();
        bool clean = WIFEXITED(status) && WEXITSTATUS(status) == 0 && shm->done == to;
        uint64_t dying = shm->cur;
        bool flagged = shm->explicit_flagged;
        uint64_t dying_hash = shm->cur_hash;
        int dying_nt = shm->cur_nontrivial;
        std::string stage = shm->stage, kind = shm->kind, edit = shm->edit, mode = shm->mode, type = shm->type, wit = shm->cur_witness;
        merge_shm();
        if (clean) { next = to; continue; }
        if (WIFEXITED(status) && WEXITSTATUS(status) == 12) vh::machinery_failure("child reported a machinery failure: " + slurp(errfile, 2000));
        // ---- the child died while working on input `dying`
        g_nc[CT_child_deaths]->add();
        if (g_nc[CT_child_deaths]->get() > 60) {
            // something kills the process on a large share of the inputs: the violations are recorded, more children add nothing
            vh::config("stopped_early", "more than 60 children died; remaining inputs not run");
            end = next;
        }
        if (dying_hash) vh::note_input(dying_hash, dying_nt);
        else vh::st().inputs.fetch_add(1);
        std::string batch_err = slurp(errfile, 200000);
        next = dying + 1;
        if (WIFSIGNALED(status) && WTERMSIG(status) == SIGALRM) {
            // no progress on one input for 60 s: once more alone with twice the time before saying anything
            int st2 = run_child(xseed, dying, dying + 1, errfile, 120, true);
            merge_shm(true);
            if (WIFSIGNALED(st2) && WTERMSIG(st2) == SIGALRM)
                vh::violation(mode + "/hang:" + stage + ":" + kind + (mode == "hostile" ? ":" + edit : ""),
                              "an input kept the process busy for more than 120 s (stage " + stage + ")", wit.empty() ? "null" : wit);
            else g_nc[CT_timeout_not_reproduced]->add();
            continue;
        }
        if (flagged) {
            // the explicit oracle had already reported this input; the sanitizer agrees (or, exit code 77, saw nothing)
            g_nc[WIFEXITED(status) && WEXITSTATUS(status) == 77 ? CT_flagged_oob_not_seen_by_sanitizer : CT_flagged_oob_confirmed_by_sanitizer]->add();
            continue;
        }
        if (stage == "deserialize" && kind == "array<message>-overrun") shm->array_msg_overrun_deaths++;
        std::string key = mode + "/death:" + stage + ":" + kind + (mode == "hostile" ? ":" + edit : "");
        if (getenv("C12_DEBUG")) fprintf(stderr, "[h_ser] death at input %" PRIu64 ": %s (%s)\n", dying, key.c_str(), describe_status(status).c_str());
        if (g_seen_death_keys.count(key)) { g_nc[CT_known_crash_repeats]->add(); continue; }
        g_seen_death_keys.insert(key);
        // one symbolised report per (mode, stage, kind); the other edit classes of the same failure quote it
        std::string ckey = mode + "/" + stage + "/" + kind;
        auto cached = g_report_cache.find(ckey);
        std::string summ, excerpt, stat;
        bool again = true;
        if (cached != g_report_cache.end()) {
            summ = cached->second.first;
            excerpt = "(report of the first death at this stage and field kind in this execution) " + cached->second.second;
            stat = describe_status(status);
        } else {
            int st2 = run_child(xseed, dying, dying + 1, errfile, 120, false);
            merge_shm(true);
            std::string err2 = slurp(errfile, 200000);
            again = !(WIFEXITED(st2) && WEXITSTATUS(st2) == 0);
            if (!again) g_nc[CT_death_not_reproduced_alone]->add();
            const std::string& err = again ? err2 : batch_err;
            summ = sanitizer_summary(err);
            excerpt = report_excerpt(err);
            stat = describe_status(again ? st2 : status);
            if (again) g_report_cache[ckey] = {summ, excerpt};
        }
        vh::violation(key,
                      "the process died (" + stat + (summ.empty() ? "" : ", " + summ) + ") during stage '" + stage + "' of a " + mode +
                          " input of type " + type + " [" + kind + "]" + (again ? "" : " (in its batch; alone it did not die)"),
                      vh::JObj().raw("input", wit.empty() ? "null" : wit).kv("stage", stage).kv("status", stat).kv("report", excerpt).str());
    }
    unlink(errfile.c_str());
    return vh::finish();
}
