// C04 - thread_usleep / thread_yield / thread_interrupt / thread_shutdown and the sleep heap.
// History oracle: every sleep/yield call and every thread_interrupt call is stamped with one global sequence
// counter before the call and after it returned. A -1 (sleep) / non-zero (yield) result must carry the unique code
// of an interrupt sent to this thread whose send had started, that no other call reported before (at most once),
// and whose send had not already RETURNED before this call was even made (not delivered to a later, unrelated sleep).
// A 0 result of thread_usleep(T) requires CLOCK_BOOTTIME >= T.expiration().
// Heap invariants are checked inside the library by the guarded walker (E_SLEEPQ_BAD events).
#include "vh.h"
#include <photon/common/timeout.h>
#include <photon/io/fd-events.h>
#include <unistd.h>

using namespace photon;

static vh::NamedCounter c_sleep0("sleep_completed"), c_sleep_intr("sleep_interrupted"), c_yield_intr("yield_interrupted"),
    c_sent("interrupts_sent"), c_sent_cross("interrupts_cross_vcpu"), c_sent_os("interrupts_from_os_thread"),
    c_inf("infinite_sleeps"), c_ties("tie_deadline_sleeps"), c_shutdown("shutdown_sleeps"), c_yields("yields"),
    c_zero("zero_sleeps"), c_walk_events("sleepq_bad_events"), c_notstarted("not_started_rounds"), c_pending_ready("interrupt_while_ready");

static std::atomic<uint64_t> g_seq{1};
static uint64_t stamp() { return g_seq.fetch_add(1, vh::MO); }

constexpr int MAXS = 512;
constexpr int MAXC = 2048;
struct Sleeper {
    int id = 0, vcpu = 0;
    std::atomic<thread*> th{nullptr};
    std::atomic<uint8_t> state[MAXC];           // 0 none, 1 sent, 2 reported
    std::atomic<uint64_t> send_start[MAXC], send_end[MAXC];
    std::atomic<int> next_code{0};
    std::atomic<uint64_t> blocked_until{0};     // expiration of the finite sleep in progress (0 = not sleeping)
    std::atomic<bool> done{false};
    std::atomic<bool> in_infinite{false};      // inside an untimed sleep: only an interrupt can end it
    int code_of(int k) const { return 200000 + id * MAXC + k; }
};
static Sleeper* g_s = nullptr;
static int g_ns = 0;
static std::atomic<int> g_done{0};
static std::atomic<int> g_aux_running{0};
static std::atomic<bool> g_stop{false};
static uint64_t g_ops = 0;
static int g_nv = 1;

static bool send_interrupt(Sleeper& s, int kind /*0 same, 1 cross, 2 os*/) {
    auto th = s.th.load(std::memory_order_acquire);
    if (!th) return false;
    // the second half of the code space is reserved for ending untimed sleeps, so that one can always be ended
    if (s.next_code.load(vh::MO) >= MAXC / 2 && !s.in_infinite.load(vh::MO)) return false;
    int k = s.next_code.fetch_add(1, vh::MO);
    if (k >= MAXC) return false;
    s.send_start[k].store(stamp(), vh::MO);
    s.state[k].store(1, vh::MO);
    thread_interrupt(th, s.code_of(k));
    s.send_end[k].store(stamp(), vh::MO);
    c_sent.add();
    if (kind == 1) c_sent_cross.add();
    if (kind == 2) c_sent_os.add();
    return true;
}

// a call made at call_seq reported errno/code e
static void reported(Sleeper& s, int e, uint64_t call_seq, const char* what_call, const char* ctx = "") {
    int k = e - s.code_of(0);
    if (k < 0 || k >= MAXC || s.state[k].load(vh::MO) == 0) {
        vh::violation(std::string("interrupt/never-sent:") + what_call,
                      "a call failed with an errno that is not the code of any interrupt sent to this thread",
                      vh::JObj().kv("errno", e).kv("sleeper", s.id).str());
        return;
    }
    uint8_t st = s.state[k].load(vh::MO);
    if (st == 2) {
        vh::violation(std::string("interrupt/reported-twice:") + what_call,
                      "one thread_interrupt() was reported by two different calls of the target thread",
                      vh::JObj().kv("code", e).kv("sleeper", s.id).kv("second_call", what_call).str());
        return;
    }
    s.state[k].store(2, vh::MO);
    uint64_t se = s.send_end[k].load(vh::MO);
    if (se != 0 && se < call_seq)
        vh::violation(std::string("interrupt/delivered-to-later-call:") + what_call,
                      "thread_interrupt() had already returned before this call was made, yet this call reported it",
                      vh::JObj().kv("code", e).kv("send_returned_at_seq", se).kv("call_made_at_seq", call_seq).kv("call", what_call).kv("context", ctx).kv("sleeper", s.id).str());
}

static void do_sleep(Sleeper& s, Timeout t, bool finite, const char* ctx) {
    uint64_t cs = stamp();
    if (finite) s.blocked_until.store(t.expiration() ? t.expiration() : vh::boottime_us(), vh::MO);
    int ret = thread_usleep(t);
    int e = errno;
    auto rt = vh::boottime_us();
    s.blocked_until.store(0, vh::MO);
    vh::event();
    if (ret == 0) {
        c_sleep0.add();
        if (t.expiration() != 0 && rt < t.expiration())
            vh::violation(std::string("sleep/early:") + ctx, "thread_usleep returned 0 before its deadline on CLOCK_BOOTTIME",
                          vh::JObj().kv("expiration", t.expiration()).kv("clock", rt).str());
    } else {
        c_sleep_intr.add();
        reported(s, e, cs, "sleep", ctx);
    }
}
static void do_yield(Sleeper& s) {
    uint64_t cs = stamp();
    int e = thread_yield();
    c_yields.add();
    vh::event();
    if (e) { c_yield_intr.add(); reported(s, e, cs, "yield"); }
}

static void* sleeper_main(void* arg) {
    auto& s = *(Sleeper*)arg;
    s.th.store(CURRENT, std::memory_order_release);
    vh::Rng r(vh::mix(vh::args().xseed(), 1000 + s.id));
    for (uint64_t op = 0; op < g_ops; ++op) {
        int what = r.below(20);
        if (what < 4) { for (int i = r.range(1, 4); i > 0; --i) do_yield(s); }
        else if (what < 6) { c_zero.add(); do_sleep(s, Timeout(0), true, "zero"); }
        else if (what < 10) { c_ties.add(); do_sleep(s, Timeout(r.pick<uint64_t>({100, 200, 200, 400})), true, "tie"); }
        else if (what < 18) do_sleep(s, Timeout(r.range(10, r.chance(1, 8) ? 5000 : 800)), true, "finite");
        else if (s.next_code.load(vh::MO) < MAXC / 2) {
            c_inf.add();
            s.in_infinite.store(true, vh::MO);
            do_sleep(s, Timeout(), false, "infinite");
            s.in_infinite.store(false, vh::MO);
        }
        vh::progress();
    }
    s.done.store(true);
    g_done.fetch_add(1, std::memory_order_acq_rel);
    while (!g_stop.load(std::memory_order_acquire)) {
        uint64_t cs = stamp();
        if (thread_usleep(3000) < 0) reported(s, errno, cs, "sleep");
        vh::progress();
    }
    return nullptr;
}

static void* interrupter_main(void* arg) {
    int v = (int)(uint64_t)arg;
    vh::Rng r(vh::mix(vh::args().xseed(), 5000 + v));
    uint64_t gap = r.pick<uint64_t>({5, 30, 150});
    while (g_done.load(std::memory_order_acquire) < g_ns) {
        auto& s = g_s[r.below(g_ns)];
        send_interrupt(s, s.vcpu == v ? 0 : 1);
        thread_usleep(r.range(1, gap));
    }
    g_aux_running.fetch_sub(1, std::memory_order_acq_rel);
    return nullptr;
}

static void sleepq_event(uint32_t id, uint64_t a, uint64_t b) {
    if (id != photon::verif::E_SLEEPQ_BAD) return;
    c_walk_events.add();
    int kind = a & 0xff, site = (a >> 8) & 0xff;
    const char* k = kind == 1 ? "sleepq/back-index-wrong" : kind == 2 ? "sleepq/heap-order-broken"
                  : kind == 3 ? "sleepq/expired-sleeper-left-behind" : kind == 5 ? "sleepq/thread-of-another-vcpu-registered"
                  : "sleepq/expired-sleeper-starved-for-32-passes";
    vh::violation(k, "sleep-heap invariant violated (walker inside the scheduler)",
                  vh::JObj().kv("kind", kind).kv("site", site == 1 ? "push" : site == 2 ? "pop_front" : site == 3 ? "pop(middle)" : "resume-pass").kv("index", b).str());
}

static bool on_stuck(std::string& key, std::string& what, std::string& wit) {
    auto nowrt = vh::boottime_us();
    vh::JArr a;
    bool proved = false;
    for (int i = 0; i < g_ns; ++i) {
        auto until = g_s[i].blocked_until.load();
        if (!until) continue;
        a.raw(vh::JObj().kv("sleeper", i).kv("vcpu", g_s[i].vcpu).kv("expiration", until).kv("clock", nowrt).str());
        if (until + 2000000 < nowrt) {
            proved = true;
            key = "sleep/never-woken";
            what = "a thread whose finite sleep deadline passed more than 2 s ago is still blocked while nothing else makes progress";
        }
    }
    wit = a.str();
    if (!proved) { key = "sleep-workload"; what = "no progress " + wit; }
    return proved;
}

// ---------------------------------------------------------------- targeted: interrupt a created-but-not-started thread
struct NS { Sleeper* s; uint64_t sleep_us; };
static void* notstarted_body(void* arg) {
    auto ns = (NS*)arg;
    ns->s->th.store(CURRENT, std::memory_order_release);
    do_sleep(*ns->s, Timeout(ns->sleep_us), true, "first-sleep-of-new-thread");
    uint64_t cs = stamp();
    int e = thread_yield();
    if (e) reported(*ns->s, e, cs, "yield");
    return nullptr;
}
static void run_notstarted(vh::Rng& r, int rounds) {
    for (int i = 0; i < rounds; ++i) {
        auto& s = g_s[i % g_ns];
        NS ns{&s, r.range(200, 3000)};
        auto th = thread_create(notstarted_body, &ns, 128 * 1024);
        auto jh = thread_enable_join(th);
        s.th.store(th, std::memory_order_release);
        if (r.chance(3, 4)) { send_interrupt(s, 0); c_pending_ready.add(); }    // target is READY, has never run
        thread_join(jh);
        s.th.store(nullptr);
        c_notstarted.add();
        vh::progress();
    }
}

// ---------------------------------------------------------------- targeted: thread_shutdown
// A thread marked by thread_shutdown() must not block for more than the short bound, whatever it blocks in and
// whatever it passed through since it was marked: the mark may arrive while it is in a sleep, a semaphore / mutex /
// condition wait, a descriptor wait or a SCOPED_PAUSE_WORK_STEALING section, and it goes through a few more of those
// before the final sleeps, which must still fail with EPERM at once.
struct ShutCtl {
    std::atomic<int> flag{0}, blocked{0};
    uint64_t seed = 0;
    int first_op = 0;
    bool sync_waits = false;
    semaphore* sem; mutex* mtx; condition_variable* cv; int fd;
};
static vh::NamedCounter c_shut_ops("shutdown_blocking_calls_of_marked_threads");
static const char* shut_op_name[] = {"usleep", "semaphore-wait", "mutex-lock", "cvar-wait", "fd-wait", "pause-work-stealing-scope", "yield"};
// every op would block for 3 s if the thread were not marked (long against the 10 ms bound, short against the stuck detector)
constexpr uint64_t SHUT_BLOCK_US = 3 * 1000 * 1000;
static void shut_op(ShutCtl& c, int op, bool marked_before) {
    auto t0 = vh::boottime_us();
    int ret = -2, e = 0;
    errno = 0;
    switch (op) {
    case 0: ret = thread_usleep(SHUT_BLOCK_US); e = errno; break;
    case 1: ret = c.sem->wait(1, Timeout(SHUT_BLOCK_US)); e = errno; break;
    case 2: ret = c.mtx->lock(Timeout(SHUT_BLOCK_US)); e = errno; if (ret == 0) c.mtx->unlock(); break;
    case 3: ret = c.cv->wait_no_lock(Timeout(SHUT_BLOCK_US)); e = errno; break;
    case 4: ret = c.fd >= 0 ? wait_for_fd_readable(c.fd, Timeout(SHUT_BLOCK_US)) : thread_usleep(SHUT_BLOCK_US); e = errno; break;
    case 5: { SCOPED_PAUSE_WORK_STEALING; thread_yield(); ret = -1; e = EPERM; break; }
    default: thread_yield(); ret = -1; e = EPERM; break;
    }
    auto dt = vh::boottime_us() - t0;
    c_shut_ops.add(); vh::event(); vh::progress();
    if (dt >= SHUT_BLOCK_US - 150000)
        vh::violation(std::string("shutdown/not-bounded:") + shut_op_name[op], "a thread marked by thread_shutdown() blocked for the full 3 s of the call",
                      vh::JObj().kv("elapsed_us", dt).kv("op", shut_op_name[op]).kv("marked_before_the_call", marked_before).str());
    else if (dt >= 1500000) vh::inconclusive("a blocking call of a shut-down thread took " + std::to_string(dt) + " us (loaded machine?)");
    if (op == 0 && (ret != -1 || e != EPERM))
        vh::violation("shutdown/wrong-result", "a sleep of a thread marked by thread_shutdown() did not fail with EPERM",
                      vh::JObj().kv("ret", ret).kv("errno", e).kv("elapsed_us", dt).kv("marked_before_the_call", marked_before).str());
    if (op >= 1 && op <= 3 && ret == 0)
        vh::violation(std::string("shutdown/wait-succeeded-without-cause:") + shut_op_name[op], "a wait of a shut-down thread reported success although nothing was signalled / unlocked", "null");
}
static void* shutdown_body(void* arg) {
    auto& c = *(ShutCtl*)arg;
    vh::Rng rng(c.seed);
    while (c.flag.load() == 0) thread_yield();
    c.blocked.store(1);
    shut_op(c, c.first_op, false);          // the mark arrives before or during this one
    c_shutdown.add();
    // Waits on a semaphore / mutex / condition variable entered by an already marked thread are not capped by the
    // library (known finding shutdown/not-bounded:*): only the executions of the dedicated class go through them, so
    // that the others stay clean and keep reporting anything else
    static const int ops_all[] = {0, 1, 2, 3, 4, 5, 6}, ops_capped[] = {0, 4, 5, 6};
    for (int k = rng.below(4); k > 0; --k)
        shut_op(c, c.sync_waits ? ops_all[rng.below(7)] : ops_capped[rng.below(4)], true);
    // blocking again is still bounded, whatever the thread went through in between
    shut_op(c, 0, true);
    shut_op(c, 0, true);
    return nullptr;
}
static void run_shutdown(vh::Rng& r, int rounds) {
    bool engine = photon::fd_events_init(photon::INIT_EVENT_EPOLL) == 0;
    int pfd[2] = {-1, -1};
    if (engine && pipe(pfd) != 0) vh::machinery_failure("pipe");
    if (vh::args().exec % 8 == 3) rounds = std::min(rounds, vh::args().thorough() ? 16 : 8);    // each round may block for many seconds there
    for (int i = 0; i < rounds; ++i) {
        semaphore sem(0); mutex mtx; condition_variable cv;
        mtx.lock();                                             // held by this thread for the whole round
        ShutCtl c; c.seed = r.next(); c.sem = &sem; c.mtx = &mtx; c.cv = &cv; c.fd = engine ? pfd[0] : -1;
        c.first_op = r.below(6);
        c.sync_waits = vh::args().exec % 8 == 3;
        bool while_blocked = r.chance(1, 2);
        // marked before its first blocking call: the uncapped waits belong to the dedicated class only (see shutdown_body)
        if (!while_blocked && !c.sync_waits && c.first_op >= 1 && c.first_op <= 3) c.first_op = r.pick({0, 4, 5});
        // semaphore::wait() (unlike wait_interruptible()) swallows interrupts, also the EPERM one of thread_shutdown()
        if (while_blocked && !c.sync_waits && c.first_op == 1) c.first_op = r.pick({0, 2, 3, 4});
        auto th = thread_create(shutdown_body, &c, 128 * 1024);
        auto jh = thread_enable_join(th);
        if (while_blocked) {
            c.flag.store(1);
            while (!c.blocked.load()) thread_yield();
            thread_usleep(r.range(100, 2000));
            // it is inside the 3 s call now; outside the dedicated class it must really be suspended there (mutex::lock()
            // first spins through a number of yields, during which a mark is the "marked before the wait" case)
            if (!c.sync_waits) for (int k = 0; k < 100000 && thread_stat(th) != SLEEPING; ++k) thread_yield();
        }
        thread_shutdown(th);
        c.flag.store(1);
        thread_join(jh);
        mtx.unlock();
        vh::progress();
    }
    if (engine) { close(pfd[0]); close(pfd[1]); photon::fd_events_fini(); }
}


// ---------------------------------------------------------------- targeted: sustained cross-vCPU wake-up pressure
// vCPU 0 hosts workers that sleep without deadline and a few finite timers; vCPU 1 re-interrupts the workers as
// fast as it can, so that (almost) every scheduling round of vCPU 0 finds freshly interrupted threads in its
// stand-by queue. The timers must still be resumed in the first round after their deadline: the in-library walker
// counts consecutive resume passes that leave an expired sleeper behind (logical time, no wall-clock verdict).
static std::atomic<thread*> g_pw[4];
static std::atomic<int> g_pw_sleeping[4];
static std::atomic<bool> g_pressure_on{false}, g_pressure_end{false};
static std::atomic<int> g_pressure_alive{0};
static std::atomic<uint64_t> g_pressure_delivered{0};
static vh::NamedCounter c_pressure_intr("pressure_interrupts"), c_pressure_timer("pressure_timer_sleeps");
static void* pressure_worker(void* arg) {
    int i = (int)(uintptr_t)arg;
    g_pw[i].store(CURRENT, std::memory_order_release);
    while (!g_pressure_end.load(std::memory_order_acquire)) {
        g_pw_sleeping[i].store(1, std::memory_order_release);
        thread_usleep(-1);
        g_pw_sleeping[i].store(0, std::memory_order_release);
        // do not go back to sleep before the other vCPU has put another worker into our stand-by queue: this keeps
        // the queue non-empty at (almost) every scheduling round; a plain OS-level spin, bounded
        auto d0 = g_pressure_delivered.load(std::memory_order_acquire);
        for (int spin = 0; spin < 200000 && g_pressure_delivered.load(std::memory_order_acquire) == d0 &&
                           !g_pressure_end.load(std::memory_order_acquire); ++spin) _mm_pause();
    }
    g_pw[i].store(nullptr, std::memory_order_release);
    g_pressure_alive.fetch_sub(1);
    return nullptr;
}
static void* pressure_timer(void* arg) {
    vh::Rng r(vh::mix(vh::args().xseed(), 8800 + (uintptr_t)arg));
    while (!g_pressure_end.load(std::memory_order_acquire)) {
        Timeout t(r.range(500, 8000));
        int ret = thread_usleep(t);
        auto rt = vh::boottime_us();
        if (ret == 0 && rt < t.expiration())
            vh::violation("sleep/early:pressure", "thread_usleep returned 0 before its deadline", "null");
        c_pressure_timer.add();
        vh::event();
        vh::progress();
    }
    g_pressure_alive.fetch_sub(1);
    return nullptr;
}
static void run_pressure(int v, uint64_t interrupts) {
    if (v == 0) {
        g_pressure_alive.store(7);
        for (int i = 0; i < 4; ++i) thread_create(pressure_worker, (void*)(uintptr_t)i, 64 * 1024);
        for (int i = 0; i < 3; ++i) thread_create(pressure_timer, (void*)(uintptr_t)i, 64 * 1024);
        thread_usleep(2000);
        g_pressure_on.store(true, std::memory_order_release);
        while (!g_pressure_end.load(std::memory_order_acquire)) thread_usleep(1000);
        // end the workers: they may be in an untimed sleep
        while (g_pressure_alive.load() > 0) {
            for (auto& p : g_pw) if (auto th = p.load(std::memory_order_acquire)) thread_interrupt(th, EINTR);
            thread_usleep(500);
        }
    } else if (v == 1) {
        while (!g_pressure_on.load(std::memory_order_acquire)) thread_usleep(200);
        for (uint64_t n = 0; n < interrupts * 200000 && g_pressure_delivered.load(std::memory_order_relaxed) < interrupts; ++n) {
            if (auto th = g_pw[n & 3].load(std::memory_order_acquire)) {
                if (g_pw_sleeping[n & 3].load(std::memory_order_acquire)) {   // (about to be) asleep: the interrupt moves it into the stand-by queue
                    // the library's own coverage counter tells whether the interrupt really moved the thread
                    // into the other vCPU's stand-by queue (nobody else wakes threads across vCPUs in this phase)
                    auto before = vh::cov(photon::verif::C_CROSS_VCPU_WAKE);
                    thread_interrupt(th, EINTR);
                    if (vh::cov(photon::verif::C_CROSS_VCPU_WAKE) != before) {
                        g_pressure_delivered.fetch_add(1, std::memory_order_acq_rel);
                        c_pressure_intr.add();
                    }
                }
            }
            if ((n & 4095) == 4095) { thread_yield(); vh::progress(); }
        }
        g_pressure_end.store(true, std::memory_order_release);
    }
}

int main(int argc, char** argv) {
    vh::init(argc, argv);
    vh::Rng r(vh::args().xseed());
    bool single = vh::args().has("vcpus") ? vh::args().geti("vcpus", 1) == 1 : (vh::args().exec % 3 == 0);
    g_nv = single ? 1 : vh::args().geti("vcpus", r.pick({2, 2, 3, 4}));
    int per = vh::is_tsan() ? r.pick({4, 8, 20, 60}) : r.pick({4, 8, 20, 60, 200});
    if (g_nv * per > MAXS) per = MAXS / g_nv;
    g_ns = g_nv * per;
    g_ops = vh::args().geti("ops", (vh::args().thorough() ? 60000 : 12000) / per + 20);
    if (vh::is_tsan()) g_ops = g_ops / 3 + 5;
    g_ops = g_ops / vh::args().shape_div() + 5;
    g_s = new Sleeper[g_ns];
    for (int i = 0; i < g_ns; ++i) {
        g_s[i].id = i; g_s[i].vcpu = i % g_nv;
        for (int k = 0; k < MAXC; ++k) { g_s[i].state[k].store(0); g_s[i].send_start[k].store(0); g_s[i].send_end[k].store(0); }
    }
    bool os_intr = !single && r.chance(1, 2);
    using namespace photon::verif;
    // the heap walker: structural part always; "no expired sleeper left behind" only with a single writer of photon::now
    g_hooks.tunable[T_SLEEPQ_WALK].store(single ? 3 : 5);
    g_hooks.event = &sleepq_event;
    vh::arm_stalls(r, {P_INTERRUPT_BEFORE_LOCK, P_RESUME_BEFORE_LOCK, P_PRELOCKED_INTERRUPT, P_WAITQ_RESUME});
    vh::config("vcpus", g_nv); vh::config("sleepers_per_vcpu", per); vh::config("ops", g_ops); vh::config("os_interrupter", os_intr);
    vh::config("walker", single ? "structural+expired" : "structural+starvation");
    vh::start_supervisor(on_stuck);

    g_aux_running.store(g_nv + (os_intr ? 1 : 0));
    std::thread os;
    if (os_intr) os = std::thread([&] {
        vh::Rng rr(vh::mix(vh::args().xseed(), 4243));
        while (g_done.load(std::memory_order_acquire) < g_ns) {
            send_interrupt(g_s[rr.below(g_ns)], 2);
            struct timespec ts = {0, (long)rr.range(1000, 300000)};
            nanosleep(&ts, nullptr);
        }
        g_aux_running.fetch_sub(1, std::memory_order_acq_rel);
    });
    vh::VCpus vc;
    vc.run(g_nv, nullptr, [&](int v) {
        uint64_t base_sleeping = get_info(INFO_SLEEPING_THREAD_NUM);
        std::vector<join_handle*> jh;
        for (int i = v; i < g_ns; i += g_nv) jh.push_back(thread_enable_join(thread_create(sleeper_main, &g_s[i], 64 * 1024)));
        auto ih = thread_enable_join(thread_create(interrupter_main, (void*)(uint64_t)v, 128 * 1024));
        thread_join(ih);
        if (v == 0) {
            while (g_aux_running.load(std::memory_order_acquire) > 0) thread_usleep(200);
            g_stop.store(true, std::memory_order_release);
        }
        for (auto h : jh) thread_join(h);
        if (g_nv >= 2) run_pressure(v, (vh::args().thorough() ? 20000 : 5000) / (vh::is_tsan() ? 4 : 1));
        if (v == 0) {
            // targeted sub-workloads on a quiet vCPU
            for (int i = 0; i < g_ns; ++i) g_s[i].th.store(nullptr);
            vh::Rng rr(vh::mix(vh::args().xseed(), 77));
            run_notstarted(rr, vh::args().thorough() ? 60 : 15);
            run_shutdown(rr, vh::args().thorough() ? 60 : 16);
        }
        uint64_t n = get_info(INFO_SLEEPING_THREAD_NUM);
        if (n != base_sleeping)
            vh::violation("sleep/sleepers-left-at-quiescence", "INFO_SLEEPING_THREAD_NUM did not return to its initial value",
                          vh::JObj().kv("now", n).kv("initial", base_sleeping).str());
    });
    if (os.joinable()) os.join();
    bool nontrivial = c_sleep0.get() > 0 && c_sleep_intr.get() > 0 && vh::cov(C_SLEEPQ_WALK) > 0;
    vh::set_sig("v" + std::to_string(g_nv) + "|p" + std::to_string(per) + "|os" + std::to_string(os_intr) + "|" +
                    vh::cov_signature({C_SLEEPQ_POP_MIDDLE, C_RESUME_FOUND_STANDBY, C_CROSS_VCPU_WAKE, C_INTERRUPT_POSTLOCK_OUT}) +
                    "yi:" + std::to_string(vh::log2bucket(c_yield_intr.get())) + ",si:" + std::to_string(vh::log2bucket(c_sleep_intr.get())),
                nontrivial);
    vh::sample(vh::JObj().kv("vcpus", g_nv).kv("sleepers_per_vcpu", per).kv("sleeps_completed", c_sleep0.get())
                   .kv("sleeps_interrupted", c_sleep_intr.get()).kv("yields_interrupted", c_yield_intr.get())
                   .kv("interrupts_sent", c_sent.get()).kv("heap_walks", vh::cov(C_SLEEPQ_WALK)).kv("pop_from_middle", vh::cov(C_SLEEPQ_POP_MIDDLE)).str());
    return vh::finish();
}
