// C10 - socket streams over the event engine: ordered, complete, exactly-once bytes
//
// One execution = one seeded configuration (engine epoll / epoll-ng, level- or edge-triggered streams,
// TCP loopback or Unix-domain sockets, 1 or 2 vCPUs, 1..40 connections, syscall shim injecting or only
// counting). Per connection and direction the byte at stream offset o is gen(key(conn, dir), o), so the
// reader checks every byte by position whatever the segmentation.
//
// Oracles (DESIGN.md 3, C10):
//  1 ordered exactly-once bytes: reader's running offset + content check of every returned byte;
//  2 count contracts of read/readv/write/writev (full count, or bytes so far at EOF, or -1 + errno) and of
//    recv/send (1..n, 0 only at EOF); ETIMEDOUT only for a timed call and never before the deadline
//    (photon::now read just before the call + timeout, 5 ms slack, compared against CLOCK_BOOTTIME);
//  3 EOF exactness: the reader sees EOF only after the writer closed, at exactly the number of bytes written;
//  4 no lost event / cross-talk: stuck detector (>= 5 s without any completed call) claims a violation only
//    if the ledger proves the wake condition AND the kernel reports the descriptor ready at that moment;
//  5 ASan/UBSan: every iovec element and every iovec array is an exact-size heap block.
//
// Syscall shim: this executable defines recv/send/recvmsg/sendmsg/read (the functions net/basic_socket.cpp and
// net/kernel_socket.cpp call on stream sockets); libphoton.so binds to them by symbol interposition. For
// descriptors registered as test sockets the shim counts bytes / EAGAINs and, on seeded occasions, shortens
// the count, returns EINTR, or (level-triggered streams only) a spurious EAGAIN. Never anything a kernel
// cannot do: no spurious EAGAIN on edge-triggered streams, no 0 for a non-empty request, nothing on other fds.
#include "vh.h"
#include <photon/net/socket.h>
#include <photon/io/fd-events.h>
#include <photon/common/timeout.h>
#include <dlfcn.h>
#include <sys/uio.h>
#include <sys/ioctl.h>
#include <sys/stat.h>
#include <sys/un.h>
#include <poll.h>
#include <linux/sockios.h>

using namespace photon;
using namespace photon::net;

static vh::NamedCounter c_shim_hits("shim_hits"), c_shim_short("shim_short_counts"), c_shim_eintr("shim_eintr"),
    c_shim_eagain("shim_spurious_eagain"), c_eagain_rx("eagain_reader_side"), c_eagain_tx("eagain_writer_side"),
    c_writev_mid("writev_resumed_inside_element"), c_readv_mid("readv_resumed_inside_element"),
    c_both_dir("both_directions_waiting_on_one_fd"), c_timeout_r("timeouts_reader"), c_timeout_w("timeouts_writer"),
    c_timeout_inflight("timeout_with_data_in_flight"), c_eof("eof_seen"), c_eof_mid("eof_inside_full_read"),
    c_zero_ops("zero_length_calls"), c_iov_heap("iovcnt_above_inline_clone"), c_iov_empty("iovec_empty_elements"),
    c_conns("connections"), c_bytes("bytes_verified"), c_rcalls("reader_calls"), c_wcalls("writer_calls"),
    c_multi_buf("calls_larger_than_socket_buffer"), c_handler_conns("connections_via_start_loop_handler"),
    c_os_stalls("vcpu_os_level_stalls"), c_stale_code("stale_event_code_left_by_timed_call");

// ================================================================== syscall shim
namespace shim {
constexpr int MAXFD = 16384;
struct FdState {
    std::atomic<uint8_t> test{0};               // 0 not a test socket, 1 level-triggered, 2 edge-triggered
    std::atomic<uint8_t> inject{0};
    std::atomic<uint64_t> tx{0}, rx{0};         // bytes the kernel accepted / handed over
    std::atomic<uint32_t> eagain_tx{0}, eagain_rx{0};
    std::atomic<uint64_t> rng{0};               // used only by the vCPU that owns the stream (relaxed: fds are reused across vCPUs)
};
static FdState g_fd[MAXFD];
static uint32_t den_short = 8, den_eintr = 24, den_eagain = 24;
static std::atomic<uint64_t> hits{0};

typedef ssize_t (*recv_t)(int, void*, size_t, int);
typedef ssize_t (*send_t)(int, const void*, size_t, int);
typedef ssize_t (*recvmsg_t)(int, struct msghdr*, int);
typedef ssize_t (*sendmsg_t)(int, const struct msghdr*, int);
typedef ssize_t (*read_t)(int, void*, size_t);
static recv_t real_recv;
static send_t real_send;
static recvmsg_t real_recvmsg;
static sendmsg_t real_sendmsg;
static read_t real_read;
static void resolve() {
    if (!real_recv) real_recv = (recv_t)dlsym(RTLD_NEXT, "recv");
    if (!real_send) real_send = (send_t)dlsym(RTLD_NEXT, "send");
    if (!real_recvmsg) real_recvmsg = (recvmsg_t)dlsym(RTLD_NEXT, "recvmsg");
    if (!real_sendmsg) real_sendmsg = (sendmsg_t)dlsym(RTLD_NEXT, "sendmsg");
    if (!real_read) real_read = (read_t)dlsym(RTLD_NEXT, "read");
}
static inline uint64_t rnd(FdState& f) {
    uint64_t x = f.rng.load(vh::MO);
    x ^= x << 13; x ^= x >> 7; x ^= x << 17;
    f.rng.store(x, vh::MO);
    return x;
}
static inline FdState* state_of(int fd) {
    if (fd < 0 || fd >= MAXFD) return nullptr;
    auto& f = g_fd[fd];
    return f.test.load(vh::MO) ? &f : nullptr;
}
enum { PASS = 0, SHORT, EINTR_, EAGAIN_ };
// what to do with a request of `len` bytes on a test socket
static inline int decide(FdState& f, size_t len, size_t* newlen) {
    hits.fetch_add(1, vh::MO);
    if (!f.inject.load(vh::MO)) return PASS;
    uint64_t x = rnd(f);
    if ((x & 0xffff) % den_eintr == 0) { c_shim_eintr.add(); return EINTR_; }
    if (f.test.load(vh::MO) == 1 && ((x >> 16) & 0xffff) % den_eagain == 0) { c_shim_eagain.add(); return EAGAIN_; }
    if (len >= 2 && ((x >> 32) & 0xffff) % den_short == 0) {
        uint64_t y = rnd(f);
        // mostly a small prefix (so that multi-element requests are cut inside an early element)
        size_t lim = (y & 1) ? len - 1 : std::min<size_t>(len - 1, 1 + (len >> ((y >> 1) & 3)));
        *newlen = 1 + (y >> 8) % lim;
        c_shim_short.add();
        return SHORT;
    }
    return PASS;
}
static inline void account_rx(FdState& f, ssize_t r) {
    if (r > 0) f.rx.fetch_add(r, vh::MO);
    else if (r < 0 && (errno == EAGAIN || errno == EWOULDBLOCK)) { f.eagain_rx.fetch_add(1, vh::MO); c_eagain_rx.add(); }
}
static inline void account_tx(FdState& f, ssize_t r) {
    if (r > 0) f.tx.fetch_add(r, vh::MO);
    else if (r < 0 && (errno == EAGAIN || errno == EWOULDBLOCK)) { f.eagain_tx.fetch_add(1, vh::MO); c_eagain_tx.add(); }
}
constexpr int MAXIOV = 40;
// copy the first `want` bytes worth of iov[] into out[]; returns the element count
static inline int truncate_iov(const struct iovec* iov, size_t cnt, size_t want, struct iovec* out) {
    int k = 0;
    for (size_t i = 0; i < cnt && want > 0; ++i) {
        out[k] = iov[i];
        if (out[k].iov_len >= want) { out[k].iov_len = want; want = 0; }
        else want -= out[k].iov_len;
        ++k;
    }
    return k;
}
static inline size_t iov_total(const struct iovec* iov, size_t cnt) {
    size_t s = 0;
    for (size_t i = 0; i < cnt; ++i) s += iov[i].iov_len;
    return s;
}
// did a transfer of r bytes stop strictly inside an element?
static inline bool stops_inside(const struct iovec* iov, size_t cnt, size_t r) {
    for (size_t i = 0; i < cnt; ++i) {
        if (r == 0) return false;
        if (r < iov[i].iov_len) return true;
        r -= iov[i].iov_len;
    }
    return false;
}
static void reg(int fd, bool et, bool inject, uint64_t seed) {
    if (fd < 0 || fd >= MAXFD) vh::machinery_failure("test socket fd out of the shim's table");
    auto& f = g_fd[fd];
    f.tx.store(0, vh::MO); f.rx.store(0, vh::MO);
    f.eagain_tx.store(0, vh::MO); f.eagain_rx.store(0, vh::MO);
    f.rng.store(seed | 1, vh::MO);
    f.inject.store(inject, vh::MO);
    f.test.store(et ? 2 : 1, std::memory_order_release);
}
static void unreg(int fd) {
    if (fd >= 0 && fd < MAXFD) g_fd[fd].test.store(0, std::memory_order_release);
}
}  // namespace shim

extern "C" {
ssize_t recv(int fd, void* buf, size_t len, int flags) {
    if (!shim::real_recv) shim::resolve();
    auto f = shim::state_of(fd);
    if (!f) return shim::real_recv(fd, buf, len, flags);
    size_t nl = len;
    switch (shim::decide(*f, len, &nl)) {
    case shim::EINTR_: errno = EINTR; return -1;
    case shim::EAGAIN_: errno = EAGAIN; return -1;
    default: break;
    }
    ssize_t r = shim::real_recv(fd, buf, nl, flags);
    shim::account_rx(*f, r);
    return r;
}
ssize_t read(int fd, void* buf, size_t len) {
    if (!shim::real_read) shim::resolve();
    auto f = shim::state_of(fd);
    if (!f) return shim::real_read(fd, buf, len);
    size_t nl = len;
    switch (shim::decide(*f, len, &nl)) {
    case shim::EINTR_: errno = EINTR; return -1;
    case shim::EAGAIN_: errno = EAGAIN; return -1;
    default: break;
    }
    ssize_t r = shim::real_read(fd, buf, nl);
    shim::account_rx(*f, r);
    return r;
}
ssize_t send(int fd, const void* buf, size_t len, int flags) {
    if (!shim::real_send) shim::resolve();
    auto f = shim::state_of(fd);
    if (!f) return shim::real_send(fd, buf, len, flags);
    size_t nl = len;
    switch (shim::decide(*f, len, &nl)) {
    case shim::EINTR_: errno = EINTR; return -1;
    case shim::EAGAIN_: errno = EAGAIN; return -1;
    default: break;
    }
    ssize_t r = shim::real_send(fd, buf, nl, flags);
    shim::account_tx(*f, r);
    return r;
}
ssize_t recvmsg(int fd, struct msghdr* msg, int flags) {
    if (!shim::real_recvmsg) shim::resolve();
    auto f = shim::state_of(fd);
    if (!f || !msg) return shim::real_recvmsg(fd, msg, flags);
    size_t total = shim::iov_total(msg->msg_iov, msg->msg_iovlen), nl = total;
    int what = shim::decide(*f, msg->msg_iovlen <= (size_t)shim::MAXIOV ? total : 0, &nl);
    if (what == shim::EINTR_) { errno = EINTR; return -1; }
    if (what == shim::EAGAIN_) { errno = EAGAIN; return -1; }
    ssize_t r;
    if (what == shim::SHORT) {
        struct iovec tmp[shim::MAXIOV];
        struct msghdr m = *msg;
        m.msg_iovlen = shim::truncate_iov(msg->msg_iov, msg->msg_iovlen, nl, tmp);
        m.msg_iov = tmp;
        r = shim::real_recvmsg(fd, &m, flags);
        if (r >= 0) msg->msg_flags = m.msg_flags;
    } else {
        r = shim::real_recvmsg(fd, msg, flags);
    }
    shim::account_rx(*f, r);
    if (r > 0 && (size_t)r < total && shim::stops_inside(msg->msg_iov, msg->msg_iovlen, r)) c_readv_mid.add();
    return r;
}
ssize_t sendmsg(int fd, const struct msghdr* msg, int flags) {
    if (!shim::real_sendmsg) shim::resolve();
    auto f = shim::state_of(fd);
    if (!f || !msg) return shim::real_sendmsg(fd, msg, flags);
    size_t total = shim::iov_total(msg->msg_iov, msg->msg_iovlen), nl = total;
    int what = shim::decide(*f, msg->msg_iovlen <= (size_t)shim::MAXIOV ? total : 0, &nl);
    if (what == shim::EINTR_) { errno = EINTR; return -1; }
    if (what == shim::EAGAIN_) { errno = EAGAIN; return -1; }
    ssize_t r;
    if (what == shim::SHORT) {
        struct iovec tmp[shim::MAXIOV];
        struct msghdr m = *msg;
        m.msg_iovlen = shim::truncate_iov(msg->msg_iov, msg->msg_iovlen, nl, tmp);
        m.msg_iov = tmp;
        r = shim::real_sendmsg(fd, &m, flags);
    } else {
        r = shim::real_sendmsg(fd, msg, flags);
    }
    shim::account_tx(*f, r);
    if (r > 0 && (size_t)r < total && shim::stops_inside(msg->msg_iov, msg->msg_iovlen, r)) c_writev_mid.add();
    return r;
}
}  // extern "C"

// ================================================================== the byte stream of a direction
static inline uint64_t blk(uint64_t key, uint64_t i) {
    uint64_t z = key + i * 0x9E3779B97F4A7C15ull;
    z = (z ^ (z >> 30)) * 0xBF58476D1CE4E5B9ull;
    z = (z ^ (z >> 27)) * 0x94D049BB133111EBull;
    return z ^ (z >> 31);
}
static inline uint8_t gen(uint64_t key, uint64_t o) { return (uint8_t)(blk(key, o >> 3) >> ((o & 7) * 8)); }
static void fill(uint64_t key, uint64_t off, uint8_t* p, size_t n, uint8_t x) {
    for (size_t i = 0; i < n; ++i) p[i] = gen(key, off + i) ^ x;
}
// number of leading bytes of p[0..n) that equal the stream at off
static size_t match_prefix(uint64_t key, uint64_t off, const uint8_t* p, size_t n) {
    size_t i = 0;
    while (i < n && p[i] == gen(key, off + i)) ++i;
    return i;
}

// ================================================================== plan and ledger
enum { OP_FULL = 0, OP_ONCE = 1, OP_FULLV = 2, OP_ONCEV = 3 };
static const char* wop_name[] = {"write", "send", "writev", "sendv"};
static const char* rop_name[] = {"read", "recv", "readv", "recvv"};

struct Pace {
    int mode = 0;                   // 0 fast, 1 slow (random sleeps), 2 tick-synchronised
    uint32_t lo = 50, hi = 500;     // sleep range (us) for mode 1
    uint32_t tick = 2000;           // period (us) for mode 2
    uint32_t stall_every = 0;       // every that many calls: a stall longer than the peer's stream timeouts
    uint32_t stall_lo = 5000, stall_hi = 20000;
};
struct Role {                       // one end (writer or reader) of a direction
    Pace pace;
    uint32_t timed_of_16 = 0;       // how many of 16 calls carry a finite stream timeout
    uint32_t tmo_lo = 500, tmo_hi = 6000;
    uint32_t max_call = 4096;       // largest request
    uint32_t opmix = 0;             // bit set of allowed OP_*
};
struct CallSlot {                   // "blocked in call" breadcrumb for the stuck detector
    std::atomic<int> kind{-1};      // -1 not in a call, else OP_*
    std::atomic<uint64_t> n{0}, base{0}, deadline_rt{0}, seq{0}, since_rt{0};
};
struct Side {
    ISocketStream* s = nullptr;
    std::atomic<int> fd{-1};
    bool et = false;
    int sndbuf = 0, rcvbuf = 0;
};
struct Conn;
struct Dir {
    Conn* c = nullptr;
    int d = 0;                      // 0 client->server, 1 server->client
    bool exists = false;
    uint64_t key = 0, total = 0, max_ops = 0;
    int end_mode = 0;               // 0 shutdown(WR), 1 leave it to the close of the stream
    Role w, r;
    Side *ws = nullptr, *rs = nullptr;
    // ledger
    std::atomic<uint64_t> w_done{0};            // bytes known to have been accepted (sum of returned counts)
    std::atomic<uint64_t> w_final_lo{0}, w_final_hi{0};
    std::atomic<int> w_closed{0};               // set (after w_final_*) before the writer shuts down / closes
    std::atomic<uint64_t> r_done{0};            // bytes received and verified
    std::atomic<int> r_finished{0}, w_finished{0};
    CallSlot wcall, rcall;
};
struct Conn {
    int id = 0;
    Dir dir[2];
    Side side[2];                   // 0 client, 1 server
    int sndbuf[2] = {0, 0}, rcvbuf[2] = {0, 0};
    std::atomic<int> accepted{0};
};

struct VcpuCfg { uint64_t engine = INIT_EVENT_EPOLL; bool et = false; };
static struct Cfg {
    int nv = 1, nconn = 1;
    bool uds = false, inject = false, handler_mode = false;
    VcpuCfg v[2];                   // [0] server side, [1] client side (same vCPU if nv == 1)
    std::string uds_path;
    std::atomic<bool> shim_live{false};
} G;
static std::vector<Conn*> g_conns;
static std::atomic<int> g_server_ready{0}, g_server_port{0};
static std::atomic<int> g_conns_served{0}, g_work_left{0};

// breadcrumbs for an unexplained hang (never used for a verdict)
enum { PH_CONNECT = 0, PH_HS_WRITE, PH_HS_READ, PH_ACCEPT, PH_JOIN, PH_SERVER_WAIT, PH_FINI, PH_CLOSE, PH_N };
static const char* ph_name[] = {"connect", "handshake-write", "handshake-read", "accept", "join", "server-wait", "fini", "close"};
static std::atomic<int> g_phase[PH_N];
struct Phase {
    int p;
    explicit Phase(int p_) : p(p_) { g_phase[p].fetch_add(1, vh::MO); }
    ~Phase() { g_phase[p].fetch_sub(1, vh::MO); }
};

static std::string dir_name(const Dir& D) { return D.d == 0 ? "c2s" : "s2c"; }
static vh::JObj dir_witness(const Dir& D) {
    vh::JObj o;
    o.kv("conn", D.c->id).kv("dir", dir_name(D)).kv("planned_total", D.total).kv("w_done", D.w_done.load())
        .kv("r_done", D.r_done.load()).kv("w_closed", D.w_closed.load())
        .kv("writer_stream", D.ws->et ? "edge-triggered" : "level-triggered")
        .kv("reader_stream", D.rs->et ? "edge-triggered" : "level-triggered");
    return o;
}

// ================================================================== buffers (exact-size heap blocks)
struct Bufs {
    std::vector<uint8_t*> blocks;   // one malloc per non-empty element
    std::vector<size_t> lens;
    struct iovec* iov = nullptr;    // malloc(cnt * sizeof(iovec)), exact
    int cnt = 0;
    size_t total = 0;
    ~Bufs() {
        for (auto b : blocks) free(b);
        free(iov);
    }
    // one contiguous block
    void single(size_t n) {
        total = n;
        blocks.push_back((uint8_t*)malloc(n ? n : 1));
        lens.push_back(n);
    }
    uint8_t* base() { return blocks[0]; }
    // split n bytes into seeded elements, some of them empty
    void split(vh::Rng& r, size_t n, int maxcnt) {
        total = n;
        int want = (int)r.range(1, maxcnt);
        std::vector<size_t> cuts;
        for (int i = 1; i < want; ++i) cuts.push_back(r.below(n + 1));     // equal cuts give empty elements
        std::sort(cuts.begin(), cuts.end());
        std::vector<size_t> l;
        size_t prev = 0;
        for (auto c : cuts) { l.push_back(c - prev); prev = c; }
        l.push_back(n - prev);
        if (r.chance(1, 3) && (int)l.size() < maxcnt) l.insert(l.begin() + r.below(l.size() + 1), 0);
        cnt = (int)l.size();
        iov = (struct iovec*)malloc(cnt * sizeof(struct iovec));
        uint8_t* last_end = nullptr;
        for (int i = 0; i < cnt; ++i) {
            if (l[i] == 0) {
                c_iov_empty.add();
                iov[i].iov_base = r.chance(1, 2) ? nullptr : (void*)last_end;   // one-past-the-end of a block: any access trips ASan
                iov[i].iov_len = 0;
                continue;
            }
            auto b = (uint8_t*)malloc(l[i]);
            blocks.push_back(b);
            lens.push_back(l[i]);
            iov[i].iov_base = b;
            iov[i].iov_len = l[i];
            last_end = b + l[i];
        }
        if (cnt > 8) c_iov_heap.add();
    }
    void fill_stream(uint64_t key, uint64_t off, uint8_t x) {
        for (size_t i = 0; i < blocks.size(); ++i) { fill(key, off, blocks[i], lens[i], x); off += lens[i]; }
    }
    // number of leading bytes (over the concatenation) that equal the stream at off, looking at most at `upto`
    size_t matched(uint64_t key, uint64_t off, size_t upto) {
        size_t done = 0;
        for (size_t i = 0; i < blocks.size() && done < upto; ++i) {
            size_t look = std::min(lens[i], upto - done);
            size_t m = match_prefix(key, off + done, blocks[i], look);
            done += m;
            if (m < look) break;
        }
        return done;
    }
    std::string hex_at(size_t pos, size_t n) {
        std::string o;
        size_t done = 0;
        for (size_t i = 0; i < blocks.size() && n; ++i) {
            if (pos < done + lens[i]) {
                size_t s = pos - done, k = std::min(n, lens[i] - s);
                o += vh::hex(blocks[i] + s, k, 64);
                pos += k; n -= k;
            }
            done += lens[i];
        }
        return o;
    }
};

// ================================================================== helpers
static void pace(vh::Rng& r, const Pace& p, uint64_t opno) {
    switch (p.mode) {
    case 0: if (r.chance(1, 16)) thread_yield(); break;
    case 1: if (r.chance(1, 2)) thread_usleep(r.range(p.lo, p.hi)); break;
    default: { uint64_t t = photon::now; thread_usleep(p.tick - t % p.tick); }
    }
    if (p.stall_every && opno % p.stall_every == p.stall_every - 1) thread_usleep(r.range(p.stall_lo, p.stall_hi));
}
static uint64_t pick_timeout(vh::Rng& r, const Role& ro) {
    if (r.below(16) >= ro.timed_of_16) return -1ULL;
    if (r.chance(1, 8)) return 2 * 1000 * 1000;        // long: expected not to fire (if it does under load, that is legal)
    return r.range(ro.tmo_lo, ro.tmo_hi);
}
static int pick_op(vh::Rng& r, uint32_t mix) {
    for (;;) { int op = r.below(4); if (mix & (1u << op)) return op; }
}
static size_t pick_len(vh::Rng& r, const Role& ro, uint64_t remaining) {
    size_t n;
    switch (r.below(8)) {
    case 0: n = r.range(1, 16); break;
    case 1: n = ro.max_call; break;
    case 2: case 3: n = r.range(1, std::max<uint32_t>(ro.max_call / 8, 1)); break;
    default: n = r.range(1, ro.max_call);
    }
    return (size_t)std::min<uint64_t>(n, remaining);
}
struct CallMark {
    CallSlot& s;
    CallMark(CallSlot& s_, int kind, uint64_t n, uint64_t base, uint64_t tmo) : s(s_) {
        auto rt = vh::boottime_us();
        s.n.store(n, vh::MO); s.base.store(base, vh::MO);
        s.deadline_rt.store(tmo == -1ULL ? 0 : rt + tmo, vh::MO);
        s.since_rt.store(rt, vh::MO);
        s.seq.fetch_add(1, vh::MO);
        s.kind.store(kind, vh::MO);
    }
    ~CallMark() { s.kind.store(-1, vh::MO); }
};
// ETIMEDOUT is allowed only for a timed call and not before now(at call) + timeout (5 ms slack, DESIGN 2.4)
static void check_timeout(const Dir& D, const char* op, uint64_t tmo, uint64_t now_at_call, uint64_t rt) {
    if (tmo == -1ULL) {
        vh::violation(std::string("timeout/untimed-call-timed-out:") + op, "a call on a stream without timeout returned ETIMEDOUT",
                      dir_witness(D).kv("op", op).str());
        return;
    }
    if (rt + 5000 < now_at_call + tmo)
        vh::violation(std::string("timeout/early:") + op, "ETIMEDOUT before the stream timeout had elapsed",
                      dir_witness(D).kv("op", op).kv("timeout_us", tmo).kv("photon_now_at_call", now_at_call).kv("boottime_at_return", rt).str());
}
// the other thread of the same stream stayed suspended inside one call while this one went through EAGAIN:
// both directions of one descriptor were waited for at the same time
static inline void note_both_dir(CallSlot* other, uint64_t other_seq_before, bool other_in_call_before, bool went_eagain) {
    if (other && went_eagain && other_in_call_before && other->kind.load(vh::MO) >= 0 && other->seq.load(vh::MO) == other_seq_before)
        c_both_dir.add();
}

// After a call with a finite stream timeout the calling thread must neither be left with a pending "event
// arrived" wake-up code nor with an interest still registered: either one makes a later, unrelated sleep of
// this thread end as "event arrived" (the next wait_for_fd() would return 0 at its timeout without removing its
// interest: a lost timeout; with epoll-ng the abandoned registration points to a dead stack object). Nobody can
// legitimately send EOK to this thread here, since it waits for no descriptor: a 1 us sleep that comes back
// "interrupted by EOK" proves a wake-up that belongs to a finished wait.
static void probe_stale_code(const Dir& D, const char* op, ssize_t ret, int e) {
    errno = 0;
    int r = thread_usleep(1);
    if (r < 0 && errno == EOK) {
        c_stale_code.add();
        vh::violation("wakeup/stale-event-code-left-by-timed-call",
                      "after a stream call with a timeout returned, an event wake-up (EOK) reached the calling thread in an unrelated 1 us sleep although "
                      "it waits for no descriptor: a wake-up code left pending or an interest left registered by the finished call "
                      "(a later wait_for_fd of this thread would return 0 at its timeout)",
                      dir_witness(D).kv("op", op).kv("returned", (int64_t)ret).kv("errno", e).str());
    }
}

// ================================================================== writer
static void finish_writer(Dir& D, uint64_t lo, uint64_t hi) {
    D.w_final_lo.store(lo, vh::MO);
    D.w_final_hi.store(hi, vh::MO);
    D.w_closed.store(1, std::memory_order_release);
    if (D.end_mode == 0) D.ws->s->shutdown(ShutdownHow::Write);
    D.w_finished.store(1, vh::MO);
    vh::progress();
}
static void run_writer(Dir& D) {
    vh::Rng r(vh::mix(vh::args().xseed(), 0x1000 + D.c->id * 4 + D.d * 2));
    auto s = D.ws->s;
    int fd = D.ws->fd.load(vh::MO);
    auto& F = shim::g_fd[fd];
    Dir& other = D.c->dir[1 - D.d];                 // its reader runs on the same stream as this writer
    CallSlot* oslot = other.exists ? &other.rcall : nullptr;
    uint64_t off = 0, opno = 0;
    size_t sockbuf = D.ws->sndbuf ? D.ws->sndbuf * 2 : 65536;
    while (off < D.total && opno < D.max_ops) {
        pace(r, D.w.pace, opno);
        ++opno;
        int op = pick_op(r, D.w.opmix);
        size_t n = r.chance(1, 64) ? 0 : pick_len(r, D.w, D.total - off);
        uint64_t tmo = pick_timeout(r, D.w);
        Bufs B;
        bool vec = op == OP_FULLV || op == OP_ONCEV;
        if (vec) B.split(r, n, r.chance(1, 6) ? 24 : 6); else B.single(n);
        B.fill_stream(D.key, off, 0);
        if (n == 0) c_zero_ops.add();
        if (n > sockbuf) c_multi_buf.add();
        uint64_t tx0 = F.tx.load(vh::MO);
        uint32_t ea0 = F.eagain_tx.load(vh::MO);
        uint64_t oseq = oslot ? oslot->seq.load(vh::MO) : 0;
        bool oin = oslot && oslot->kind.load(vh::MO) >= 0;
        vh::event();
        c_wcalls.add();
        ssize_t ret;
        int e;
        uint64_t t0, rt_ret;
        {
            CallMark cm(D.wcall, op, n, off, tmo);
            s->timeout(tmo);
            t0 = photon::now;
            errno = 0;
            switch (op) {
            case OP_FULL: ret = s->write(B.base(), n); break;
            case OP_ONCE: ret = s->send(B.base(), n); break;
            case OP_FULLV: ret = s->writev(B.iov, B.cnt); break;
            default: ret = s->send(B.iov, B.cnt); break;
            }
            e = errno;
            rt_ret = vh::boottime_us();
        }
        if (tmo != -1ULL) probe_stale_code(D, wop_name[op], ret, e);
        uint64_t moved = F.tx.load(vh::MO) - tx0;       // exact when the shim is live
        note_both_dir(oslot, oseq, oin, F.eagain_tx.load(vh::MO) != ea0);
        bool full = op == OP_FULL || op == OP_FULLV;
        const char* opn = wop_name[op];
        if (ret >= 0) {
            bool ok = full ? (size_t)ret == n : ((size_t)ret <= n && (ret > 0 || n == 0));
            if (!ok) {
                vh::violation(std::string(full ? "count/short-write:" : "count/send-out-of-range:") + opn,
                              full ? "write()/writev() returned less than requested although the peer is open and no error occurred"
                                   : "send() returned 0 for a non-empty request or more than requested",
                              dir_witness(D).kv("op", opn).kv("requested", (uint64_t)n).kv("returned", (int64_t)ret).kv("offset", off)
                                  .kv("iovcnt", B.cnt).str());
                finish_writer(D, off, off + n);
                return;
            }
            if (G.shim_live && moved != (uint64_t)ret) {
                vh::violation(std::string("count/return-differs-from-bytes-sent:") + opn,
                              "the returned count differs from the number of bytes the kernel accepted during the call",
                              dir_witness(D).kv("op", opn).kv("requested", (uint64_t)n).kv("returned", (int64_t)ret).kv("kernel_accepted", moved).str());
                off += moved;
                D.w_done.store(off, vh::MO);
                finish_writer(D, off, off);
                return;
            }
            off += ret;
            D.w_done.store(off, vh::MO);
        } else if (e == ETIMEDOUT) {
            c_timeout_w.add();
            check_timeout(D, opn, tmo, t0, rt_ret);
            if (!G.shim_live) {
                // the number of bytes of this call that went out is unknown: end the direction here
                finish_writer(D, off, off + (n ? n - 1 : 0));
                return;
            }
            if (!full && moved)
                vh::violation(std::string("count/bytes-sent-by-failed-send:") + opn, "send() failed with ETIMEDOUT although it had transferred bytes",
                              dir_witness(D).kv("op", opn).kv("kernel_accepted", moved).str());
            if (moved) c_timeout_inflight.add();
            off += moved;
            D.w_done.store(off, vh::MO);
        } else {
            vh::violation(std::string("errno/unexpected:") + opn, "a write-side call failed although the peer is open and no timeout occurred",
                          dir_witness(D).kv("op", opn).kv("errno", e).kv("requested", (uint64_t)n).kv("offset", off).str());
            finish_writer(D, off, off + n);
            return;
        }
        vh::progress();
    }
    finish_writer(D, off, off);
}

// ================================================================== reader
static void run_reader(Dir& D) {
    vh::Rng r(vh::mix(vh::args().xseed(), 0x1001 + D.c->id * 4 + D.d * 2));
    auto s = D.rs->s;
    int fd = D.rs->fd.load(vh::MO);
    auto& F = shim::g_fd[fd];
    Dir& other = D.c->dir[1 - D.d];                 // its writer runs on the same stream as this reader
    CallSlot* oslot = other.exists ? &other.wcall : nullptr;
    uint64_t off = 0, opno = 0;
    bool eof = false;
    while (!eof) {
        pace(r, D.r.pace, opno);
        ++opno;
        int op = pick_op(r, D.r.opmix);
        size_t n = r.chance(1, 64) ? 0 : pick_len(r, D.r, UINT64_MAX);
        uint64_t tmo = pick_timeout(r, D.r);
        Bufs B;
        bool vec = op == OP_FULLV || op == OP_ONCEV;
        if (vec) B.split(r, n, r.chance(1, 6) ? 24 : 6); else B.single(n);
        B.fill_stream(D.key, off, 0xff);            // complement: the length of a transferred prefix is recognisable
        if (n == 0) c_zero_ops.add();
        uint32_t ea0 = F.eagain_rx.load(vh::MO);
        uint64_t oseq = oslot ? oslot->seq.load(vh::MO) : 0;
        bool oin = oslot && oslot->kind.load(vh::MO) >= 0;
        vh::event();
        c_rcalls.add();
        ssize_t ret;
        int e;
        uint64_t t0, rt_ret;
        {
            CallMark cm(D.rcall, op, n, off, tmo);
            s->timeout(tmo);
            t0 = photon::now;
            errno = 0;
            switch (op) {
            case OP_FULL: ret = s->read(B.base(), n); break;
            case OP_ONCE: ret = s->recv(B.base(), n); break;
            case OP_FULLV: ret = s->readv(B.iov, B.cnt); break;
            default: ret = s->recv(B.iov, B.cnt); break;
            }
            e = errno;
            rt_ret = vh::boottime_us();
        }
        if (tmo != -1ULL) probe_stale_code(D, rop_name[op], ret, e);
        note_both_dir(oslot, oseq, oin, F.eagain_rx.load(vh::MO) != ea0);
        bool full = op == OP_FULL || op == OP_FULLV;
        const char* opn = rop_name[op];
        if (ret >= 0) {
            if ((size_t)ret > n) {
                vh::violation(std::string("count/more-than-requested:") + opn, "a read-side call returned more than requested",
                              dir_witness(D).kv("op", opn).kv("requested", (uint64_t)n).kv("returned", (int64_t)ret).str());
                break;
            }
            size_t m = B.matched(D.key, off, ret);
            if (m != (size_t)ret) {
                // is it the right data at a wrong position?
                int64_t shift = 0;
                for (int64_t dlt = -4096; dlt <= 4096 && !shift; ++dlt)
                    if (dlt && (int64_t)(off + m) + dlt >= 0) {
                        uint64_t o2 = off + m + dlt;
                        size_t k = 0, lim = std::min<size_t>(ret - m, 16);
                        auto hx = B.hex_at(m, lim);
                        for (; k < lim; ++k) if ((uint8_t)strtoul(hx.substr(2 * k, 2).c_str(), nullptr, 16) != gen(D.key, o2 + k)) break;
                        if (k == lim && lim >= 4) shift = dlt;
                    }
                vh::violation(std::string("content/mismatch:") + opn, "a received byte differs from the byte written at that stream offset (lost, duplicated or reordered bytes)",
                              dir_witness(D).kv("op", opn).kv("call_offset", off).kv("requested", (uint64_t)n).kv("returned", (int64_t)ret)
                                  .kv("first_bad_offset", off + m).kv("iovcnt", B.cnt).kv("got", B.hex_at(m, 16))
                                  .kv("data_matches_stream_shifted_by", shift).kv("timeout_us", tmo == -1ULL ? (int64_t)-1 : (int64_t)tmo).str());
                break;
            }
            off += ret;
            D.r_done.store(off, vh::MO);
            c_bytes.add(ret);
            bool is_eof = full ? (size_t)ret < n : (ret == 0 && n > 0);
            if (is_eof) {
                c_eof.add();
                if (full && ret > 0) c_eof_mid.add();
                if (!D.w_closed.load(std::memory_order_acquire)) {
                    vh::violation(std::string(full ? "count/short-read-without-eof:" : "count/recv-zero-without-eof:") + opn,
                                  full ? "read()/readv() returned less than requested although the peer has not closed"
                                       : "recv() returned 0 although the peer has not closed",
                                  dir_witness(D).kv("op", opn).kv("requested", (uint64_t)n).kv("returned", (int64_t)ret).str());
                } else {
                    uint64_t lo = D.w_final_lo.load(vh::MO), hi = D.w_final_hi.load(vh::MO);
                    if (off < lo || off > hi)
                        vh::violation(std::string("eof/not-at-written-length:") + opn, "the reader saw EOF at an offset different from the number of bytes written before the close",
                                      dir_witness(D).kv("op", opn).kv("eof_at", off).kv("written_lo", lo).kv("written_hi", hi).str());
                }
                eof = true;
            }
        } else if (e == ETIMEDOUT) {
            c_timeout_r.add();
            check_timeout(D, opn, tmo, t0, rt_ret);
            size_t m = B.matched(D.key, off, n);    // bytes moved into the buffer before the deadline
            if (!full && m)
                vh::violation(std::string("count/bytes-consumed-by-failed-recv:") + opn, "recv() failed with ETIMEDOUT although it had transferred bytes into the buffer",
                              dir_witness(D).kv("op", opn).kv("bytes", (uint64_t)m).str());
            if (m) c_timeout_inflight.add();
            off += m;
            D.r_done.store(off, vh::MO);
            c_bytes.add(m);
        } else {
            vh::violation(std::string("errno/unexpected:") + opn, "a read-side call failed although no timeout occurred",
                          dir_witness(D).kv("op", opn).kv("errno", e).kv("requested", (uint64_t)n).kv("offset", off).str());
            break;
        }
        vh::progress();
    }
    D.r_finished.store(1, vh::MO);
    vh::progress();
}

// ================================================================== connections
static void* reader_entry(void* a) { run_reader(*(Dir*)a); return nullptr; }

static void apply_bufs(ISocketStream* s, Side& S) {
    if (S.sndbuf) s->setsockopt<int>(SOL_SOCKET, SO_SNDBUF, S.sndbuf);
    if (S.rcvbuf) s->setsockopt<int>(SOL_SOCKET, SO_RCVBUF, S.rcvbuf);
}
constexpr uint32_t HS_MAGIC = 0x43313053;
// both ends of a stream: optional reader thread + writer inline; returns when both are done
static void run_side(Conn& c, int side) {
    Dir& wd = c.dir[side == 0 ? 0 : 1];     // the direction this side writes
    Dir& rd = c.dir[side == 0 ? 1 : 0];     // the direction this side reads
    join_handle* jh = nullptr;
    if (rd.exists) jh = thread_enable_join(thread_create(reader_entry, &rd, 256 * 1024));
    if (wd.exists) run_writer(wd);
    Phase ph(PH_JOIN);
    if (jh) thread_join(jh);
}
// server end of one accepted stream
static void serve_stream(ISocketStream* s, bool et) {
    int fd = s->get_underlay_fd();
    vh::progress();
    shim::reg(fd, et, G.inject, vh::mix(vh::args().xseed(), 0x2000 + fd));
    uint32_t hs[2] = {0, 0};
    s->timeout(-1ULL);
    ssize_t ret;
    { Phase ph(PH_HS_READ); ret = s->read(hs, sizeof(hs)); }
    if (ret != (ssize_t)sizeof(hs) || hs[0] != HS_MAGIC || hs[1] >= (uint32_t)G.nconn || g_conns[hs[1]]->accepted.exchange(1)) {
        vh::violation("handshake/bad", "the 8-byte connection header written by the client did not arrive intact at the server",
                      vh::JObj().kv("returned", (int64_t)ret).kv("errno", errno).kv("magic", (uint64_t)hs[0]).kv("conn", (uint64_t)hs[1]).str());
        g_conns_served.fetch_add(1, vh::MO);
        shim::unreg(fd);
        return;
    }
    Conn& c = *g_conns[hs[1]];
    Side& S = c.side[1];
    S.s = s; S.et = et;
    S.fd.store(fd, std::memory_order_release);
    apply_bufs(s, S);
    vh::progress();
    run_side(c, 1);
    S.fd.store(-1, vh::MO);
    shim::unreg(fd);
    g_conns_served.fetch_add(1, vh::MO);
    vh::progress();
}
static void* accepted_entry(void* a) {
    auto s = (ISocketStream*)a;
    serve_stream(s, G.v[0].et);
    Phase ph(PH_CLOSE);
    delete s;
    return nullptr;
}
struct Server {
    ISocketServer* srv = nullptr;
    std::vector<join_handle*> jh;
    join_handle* acceptor = nullptr;
    int handler(ISocketStream* s) {
        c_handler_conns.add();
        serve_stream(s, G.v[0].et);
        return 0;
    }
    static void* acceptor_entry(void* a) {
        auto self = (Server*)a;
        for (int i = 0; i < G.nconn; ++i) {
            ISocketStream* s;
            { Phase ph(PH_ACCEPT); s = self->srv->accept(); }
            if (!s) vh::machinery_failure("accept failed");
            self->jh.push_back(thread_enable_join(thread_create(accepted_entry, s, 256 * 1024)));
        }
        return nullptr;
    }
    void start() {
        bool et = G.v[0].et;
        srv = et ? new_et_tcp_socket_server() : (G.uds ? new_uds_server(true) : new_tcp_socket_server());
        if (!srv) vh::machinery_failure("cannot create the socket server");
        int rc = G.uds ? srv->bind(G.uds_path.c_str()) : srv->bind_v4localhost(0);
        if (rc < 0 || srv->listen(1024) < 0) vh::machinery_failure(std::string("bind/listen failed: ") + strerror(errno));
        if (!G.uds) {
            auto ep = srv->getsockname();
            g_server_port.store(ep.port);
        }
        if (G.handler_mode) {
            srv->set_handler({this, &Server::handler});
            if (srv->start_loop(false) < 0) vh::machinery_failure("start_loop failed");
        } else {
            acceptor = thread_enable_join(thread_create(acceptor_entry, this, 256 * 1024));
        }
        g_server_ready.store(1, std::memory_order_release);
        vh::progress();
    }
    void wait() {
        Phase ph(PH_SERVER_WAIT);
        if (acceptor) thread_join(acceptor);
        for (auto h : jh) thread_join(h);
        while (g_conns_served.load(vh::MO) < G.nconn) thread_usleep(500);
        thread_usleep(2000);        // handler threads delete their stream after the handler returned
        if (G.handler_mode) srv->terminate();
        delete srv;
    }
};

static void* client_entry(void* a) {
    Conn& c = *(Conn*)a;
    vh::Rng r(vh::mix(vh::args().xseed(), 0x3000 + c.id));
    bool et = G.v[1].et;
    vh::progress();
    thread_usleep(r.below(3000));
    auto cli = et ? new_et_tcp_socket_client() : (G.uds ? new_uds_client() : new_tcp_socket_client());
    ISocketStream* s;
    {
        Phase ph(PH_CONNECT);
        s = G.uds ? cli->connect(G.uds_path.c_str()) : cli->connect(EndPoint(IPAddr::V4Loopback(), (uint16_t)g_server_port.load()));
    }
    if (!s) vh::machinery_failure(std::string("connect failed: ") + strerror(errno));
    delete cli;
    int fd = s->get_underlay_fd();
    vh::progress();
    shim::reg(fd, et, G.inject, vh::mix(vh::args().xseed(), 0x2800 + fd));
    Side& S = c.side[0];
    S.s = s; S.et = et;
    S.fd.store(fd, std::memory_order_release);
    apply_bufs(s, S);
    uint32_t hs[2] = {HS_MAGIC, (uint32_t)c.id};
    s->timeout(-1ULL);
    ssize_t ret;
    { Phase ph(PH_HS_WRITE); ret = s->write(hs, sizeof(hs)); }
    if (ret != (ssize_t)sizeof(hs)) {
        vh::violation("handshake/write", "writing the 8-byte connection header failed", vh::JObj().kv("returned", (int64_t)ret).kv("errno", errno).str());
    } else {
        // the library's send must have gone through this executable's shim (else: counting and injection are off)
        if (shim::g_fd[fd].tx.load(vh::MO) != sizeof(hs)) G.shim_live.store(false);
        vh::progress();
        run_side(c, 0);
    }
    S.fd.store(-1, vh::MO);
    shim::unreg(fd);
    { Phase ph(PH_CLOSE); delete s; }
    g_work_left.fetch_sub(1, vh::MO);
    vh::progress();
    return nullptr;
}

// OS-level stalls of a whole vCPU: while it is away the peers fill / drain many sockets, so that the next
// epoll_wait returns a large batch (DESIGN 2.3: stalls are OS-level only)
static void* staller_entry(void* a) {
    vh::Rng r(vh::mix(vh::args().xseed(), 0x4000 + (uint64_t)a));
    while (g_work_left.load(vh::MO) > 0) {
        thread_usleep(r.range(3000, 15000));
        struct timespec ts = {0, (long)r.range(500, 3000) * 1000};
        nanosleep(&ts, nullptr);
        c_os_stalls.add();
    }
    return nullptr;
}

// photon::init() of two OS threads at the same time races on a process-wide flag (reset_handle_registed, the
// pthread_atfork registration); that is not the subject of C10, so the vCPUs are brought up one after the other
static std::mutex g_init_mu;
static void vcpu_main(int v) {
    auto& vc = G.v[G.nv == 1 ? 0 : v];
    {
        std::lock_guard<std::mutex> g(g_init_mu);
        if (photon::init(vc.engine, vc.et ? INIT_IO_SOCKET_EDGE_TRIGGER : INIT_IO_NONE) < 0)
            vh::machinery_failure("photon::init failed");
    }
    vh::progress();
    {
        Server server;
        bool is_server = v == 0, is_client = G.nv == 1 || v == 1;
        if (is_server) server.start();
        std::vector<join_handle*> jh;
        join_handle* st = thread_enable_join(thread_create(staller_entry, (void*)(uint64_t)v, 128 * 1024));
        if (is_client) {
            while (!g_server_ready.load(std::memory_order_acquire)) thread_usleep(200);
            for (auto c : g_conns) jh.push_back(thread_enable_join(thread_create(client_entry, c, 256 * 1024)));
        }
        for (auto h : jh) thread_join(h);
        vh::progress();
        if (is_server) server.wait();
        vh::progress();
        thread_join(st);
        vh::progress();
    }
    std::lock_guard<std::mutex> g(g_init_mu);
    Phase ph(PH_FINI);
    photon::fini();
    vh::progress();
}

// ================================================================== stuck detector
static int kernel_ready(int fd, short ev) {
    if (fd < 0) return -1;
    struct pollfd p = {fd, ev, 0};
    int rc = ::poll(&p, 1, 0);
    return rc < 0 ? -1 : p.revents;
}
static bool on_stuck(std::string& key, std::string& what, std::string& wit) {
    vh::JArr blocked;
    bool proved = false;
    uint64_t rt = vh::boottime_us();
    for (auto c : g_conns)
        for (int d = 0; d < 2; ++d) {
            Dir& D = c->dir[d];
            if (!D.exists) continue;
            // ---- reader
            int k = D.rcall.kind.load();
            if (k >= 0) {
                uint64_t n = D.rcall.n.load(), base = D.rcall.base.load(), dl = D.rcall.deadline_rt.load();
                uint64_t wd = D.w_done.load();
                if (G.shim_live.load()) {
                    // bytes the kernel accepted from the writer (also those of a write call still in progress)
                    int wfd = D.ws->fd.load();
                    uint64_t hs = d == 0 ? 8 : 0;
                    if (wfd >= 0 && shim::g_fd[wfd].tx.load() >= hs) wd = std::max<uint64_t>(wd, shim::g_fd[wfd].tx.load() - hs);
                }
                int closed = D.w_closed.load();
                int rfd = D.rs->fd.load();
                int rev = kernel_ready(rfd, POLLIN | POLLRDHUP);
                int inq = -1;
                if (rfd >= 0) ioctl(rfd, FIONREAD, &inq);
                bool full = k == OP_FULL || k == OP_FULLV;
                bool must_return = closed || (full ? wd >= base + n : (wd > base && n > 0)) || n == 0;
                auto o = dir_witness(D);
                o.kv("blocked", std::string("reader in ") + rop_name[k]).kv("requested", n).kv("offset_at_call", base)
                    .kv("timed", dl != 0).kv("kernel_revents", rev).kv("kernel_inq", inq).kv("kernel_accepted_from_writer", wd)
                    .kv("blocked_for_us", rt - D.rcall.since_rt.load());
                blocked.raw(o.str());
                if (!proved && dl == 0 && must_return && rev > 0 && (rev & (POLLIN | POLLHUP | POLLRDHUP | POLLERR))) {
                    proved = true;
                    key = std::string("stuck/reader-not-woken:") + (D.rs->et ? "et:" : "lt:") + rop_name[k];
                    what = "a reader stays blocked although the peer has written (or closed) what the call needs and the kernel reports the descriptor readable";
                }
                if (!proved && dl != 0 && rt > dl + 5000000) {
                    proved = true;
                    key = std::string("stuck/hang-past-timeout:") + rop_name[k];
                    what = "a read-side call with a stream timeout has not returned 5 s after its deadline";
                }
            }
            // ---- writer
            k = D.wcall.kind.load();
            if (k >= 0) {
                uint64_t n = D.wcall.n.load(), base = D.wcall.base.load(), dl = D.wcall.deadline_rt.load();
                int wfd = D.ws->fd.load(), rfd = D.rs->fd.load();
                int rev = kernel_ready(wfd, POLLOUT);
                int outq = -1, inq = -1;
                if (wfd >= 0) ioctl(wfd, SIOCOUTQ, &outq);
                if (rfd >= 0) ioctl(rfd, FIONREAD, &inq);
                uint64_t txd = wfd >= 0 ? shim::g_fd[wfd].tx.load() : 0;
                auto o = dir_witness(D);
                o.kv("blocked", std::string("writer in ") + wop_name[k]).kv("requested", n).kv("offset_at_call", base)
                    .kv("timed", dl != 0).kv("kernel_revents", rev).kv("kernel_outq", outq).kv("peer_inq", inq)
                    .kv("shim_tx", txd).kv("blocked_for_us", rt - D.wcall.since_rt.load());
                blocked.raw(o.str());
                // the receiver has drained everything the kernel ever accepted: both socket buffers are empty
                bool drained = outq == 0 && inq == 0 && (!G.shim_live || D.r_done.load() + 8 * (d == 0) >= txd);
                if (!proved && dl == 0 && drained && rev > 0 && (rev & (POLLOUT | POLLERR | POLLHUP))) {
                    proved = true;
                    key = std::string("stuck/writer-not-woken:") + (D.ws->et ? "et:" : "lt:") + wop_name[k];
                    what = "a writer stays blocked although the receiver has drained both socket buffers and the kernel reports the descriptor writable";
                }
                if (!proved && dl != 0 && rt > dl + 5000000) {
                    proved = true;
                    key = std::string("stuck/hang-past-timeout:") + wop_name[k];
                    what = "a write-side call with a stream timeout has not returned 5 s after its deadline";
                }
            }
        }
    wit = blocked.str();
    if (!proved) {
        std::string ph;
        for (int i = 0; i < PH_N; ++i) if (g_phase[i].load()) ph += std::string(ph_name[i]) + ":" + std::to_string(g_phase[i].load()) + " ";
        key = "sock-workload";
        what = "no call completed; threads in [" + ph + "] served=" + std::to_string(g_conns_served.load()) + " clients_left=" + std::to_string(g_work_left.load()) +
               " blocked=" + wit.substr(0, 1500);
        if (vh::args().geti("stuck_pause", 0)) {        // debugging aid: keep the process for a debugger
            fprintf(stderr, "[h_sock] stuck: %s (pid %d)\n", what.c_str(), (int)getpid());
            sleep((unsigned)vh::args().geti("stuck_pause", 0));
        }
    }
    return proved;
}

// ================================================================== plan
static Pace plan_pace(vh::Rng& r, bool allow_tick) {
    Pace p;
    int m = r.below(8);
    p.mode = m < 3 ? 0 : (m < 6 || !allow_tick ? 1 : 2);
    p.lo = r.pick({20u, 100u, 300u});
    p.hi = p.lo + r.pick({100u, 800u, 2500u});
    p.tick = r.pick({1000u, 2000u, 3000u});
    p.stall_every = r.chance(1, 2) ? (uint32_t)r.range(6, 40) : 0;
    p.stall_lo = 4000; p.stall_hi = r.pick({9000u, 20000u, 30000u});
    return p;
}
static Role plan_role(vh::Rng& r, bool tick, uint32_t maxcall) {
    Role ro;
    ro.pace = plan_pace(r, true);
    if (tick) { ro.pace.mode = 2; }
    ro.timed_of_16 = r.pick({0u, 0u, 2u, 6u, 12u});
    ro.tmo_lo = r.pick({300u, 1000u});
    ro.tmo_hi = ro.tmo_lo + r.pick({700u, 3000u, 7000u});
    ro.max_call = maxcall;
    ro.opmix = r.chance(1, 3) ? (1u << r.below(4)) | (1u << r.below(4)) : 0xf;
    return ro;
}


// ------------------------------------------------------------------ probe: many descriptors become ready in one burst
// N readers (17 <= N <= 48) of one vCPU block in read() on N connections; one OS-level pass without any photon
// scheduling writes a message to every connection; then nothing more happens in that direction. Every reader has to
// come back: an engine that reports only a batch of the ready descriptors and is then not told about the rest again
// leaves the others asleep next to their data. (The ordinary workload keeps producing new events, which rescues such
// sleepers and turns the defect into latency only.) Verdict: a reader still blocked 3 s after the burst although the
// kernel reports its bytes - the same kind of gated silence window as the stuck rules of the main workload.
namespace burst {
struct R { photon::net::ISocketStream* s = nullptr; std::atomic<int> state{0}; ssize_t ret = -2; int err = 0; char buf[64]; };
static vh::NamedCounter c_rounds("burst_rounds"), c_woken("burst_readers_woken"), c_accepts("burst_accepts_in_one_go");
static void* reader(void* a) {
    R& r = *(R*)a;
    r.state.store(1, vh::MO);
    r.ret = r.s->read(r.buf, sizeof(r.buf));
    r.err = errno;
    r.state.store(2, vh::MO);
    c_woken.add(); vh::event(); vh::progress();
    return nullptr;
}
static int run(vh::Rng& r) {
    using namespace photon; using namespace photon::net;
    uint64_t engine = vh::args().has("engine") ? (vh::args().geti("engine", 0) ? INIT_EVENT_EPOLL_NG : INIT_EVENT_EPOLL) : (r.chance(2, 3) ? INIT_EVENT_EPOLL_NG : INIT_EVENT_EPOLL);
    const char* en = engine == INIT_EVENT_EPOLL_NG ? "epoll-ng" : "epoll";
    int rounds = vh::args().thorough() ? 12 : 4;
    if (vh::is_tsan()) rounds = std::max(2, rounds / 2);
    vh::config("section", "burst-probe"); vh::config("engine", en); vh::config("rounds", rounds);
    vh::start_supervisor([](std::string& k, std::string& w, std::string&) { k = "sock-burst-probe"; w = "probe made no progress"; return false; });
    vh::VCpus vc;
    vc.run(1, nullptr, [&](int) {
        auto srv = new_tcp_socket_server();
        if (srv->bind(EndPoint(IPAddr("127.0.0.1"), 0)) != 0 || srv->listen(256) != 0) vh::machinery_failure("burst: bind/listen");
        auto ep = srv->getsockname();
        auto cli = new_tcp_socket_client();
        for (int round = 0; round < rounds; ++round) {
            int n = r.pick({17, 20, 24, 33, 48});
            std::vector<R> rd(n);
            std::vector<ISocketStream*> cs(n);
            std::vector<join_handle*> jh;
            // connect all first: the accepts below then find all connections pending at once as well
            for (int i = 0; i < n; ++i) { cs[i] = cli->connect(ep); if (!cs[i]) vh::machinery_failure("burst: connect"); }
            for (int i = 0; i < n; ++i) { rd[i].s = srv->accept(); if (!rd[i].s) vh::machinery_failure("burst: accept"); rd[i].s->timeout(20UL * 1000 * 1000); c_accepts.add(); }
            for (int i = 0; i < n; ++i) jh.push_back(thread_enable_join(thread_create(reader, &rd[i], 128 * 1024)));
            // all readers suspended in read()
            for (int i = 0; i < n; ++i) while (rd[i].state.load(vh::MO) < 1 || thread_stat((thread*)jh[i]) != SLEEPING) thread_usleep(200);
            thread_usleep(2000);
            // the burst: plain writes on the client descriptors, no photon scheduling in between
            char msg[64];
            for (int i = 0; i < n; ++i) {
                memset(msg, 'a' + (i % 26), sizeof(msg));
                int fd = cs[i]->get_underlay_fd();
                if (::write(fd, msg, sizeof(msg)) != (ssize_t)sizeof(msg)) vh::machinery_failure("burst: write on a fresh connection failed");
            }
            auto t0 = vh::boottime_us();
            int done = 0;
            while (vh::boottime_us() - t0 < 3000000) {
                done = 0;
                for (int i = 0; i < n; ++i) done += rd[i].state.load(vh::MO) == 2;
                if (done == n) break;
                thread_usleep(1000);
                vh::progress();
            }
            if (done < n) {
                int readable = 0; std::string asleep;
                for (int i = 0; i < n; ++i) if (rd[i].state.load(vh::MO) != 2) {
                    int q = 0; ioctl(rd[i].s->get_underlay_fd(), FIONREAD, &q);
                    if (q >= 64) readable++;
                    asleep += std::to_string(i) + " ";
                }
                if (readable > 0)
                    vh::violation(std::string("burst/reader-not-woken:") + en, "readers stay blocked in read() 3 s after their bytes arrived together with those of many other "
                                  "descriptors of the same vCPU, and nothing else happens in that direction",
                                  vh::JObj().kv("readers", n).kv("woken", done).kv("asleep_with_bytes_in_the_socket", readable).kv("asleep", asleep).str());
                else vh::inconclusive("burst probe: readers not done and the kernel does not report their bytes");
                for (int i = 0; i < n; ++i) if (rd[i].state.load(vh::MO) != 2) thread_interrupt((thread*)jh[i], ECANCELED);
            }
            for (auto h : jh) thread_join(h);
            for (int i = 0; i < n; ++i)
                if (rd[i].state.load(vh::MO) == 2 && rd[i].ret == 64) {
                    for (int k = 0; k < 64; ++k) if (rd[i].buf[k] != 'a' + (i % 26)) { vh::violation("burst/content-mismatch", "a reader got other bytes than were written to its connection", "null"); break; }
                } else if (done == n)
                    vh::violation("burst/short-read", "read(64) of a reader returned another count although 64 bytes were written to its connection",
                                  vh::JObj().kv("ret", (int64_t)rd[i].ret).kv("errno", rd[i].err).str());
            for (int i = 0; i < n; ++i) { delete rd[i].s; delete cs[i]; }
            c_rounds.add();
            vh::progress();
        }
        delete cli; delete srv;
    }, [&](int) { if (photon::fd_events_init(engine) != 0) vh::machinery_failure("fd_events_init"); }, [&](int) { photon::fd_events_fini(); });
    vh::set_sig(std::string("burst|") + en, c_woken.get() >= 17);
    vh::sample(vh::JObj().kv("section", "burst-probe").kv("engine", en).kv("rounds", c_rounds.get()).kv("readers_woken", c_woken.get()).str());
    return vh::finish();
}
}  // namespace burst

int main(int argc, char** argv) {
    vh::init(argc, argv);
    shim::resolve();
    vh::Rng r(vh::args().xseed());
    if (vh::args().has("section") ? vh::args().gets("section", "") == "burst" : vh::args().exec % 8 == 4) return burst::run(r);
    auto& A = vh::args();
    // ---- configuration
    G.nv = A.geti("vcpus", r.chance(1, 2) ? 1 : 2);
    if (vh::is_tsan()) G.nv = A.geti("vcpus", 2);
    G.uds = A.geti("uds", r.chance(1, 2));
    for (int i = 0; i < 2; ++i) {
        G.v[i].engine = r.chance(1, 2) ? INIT_EVENT_EPOLL : INIT_EVENT_EPOLL_NG;
        G.v[i].et = r.chance(2, 5);
    }
    if (A.has("engine")) G.v[0].engine = G.v[1].engine = A.geti("engine", 0) ? INIT_EVENT_EPOLL_NG : INIT_EVENT_EPOLL;
    if (A.has("et")) G.v[0].et = G.v[1].et = A.geti("et", 0);
    if (G.nv == 1) G.v[1] = G.v[0];
    G.nconn = A.geti("conns", r.pick({1, 2, 3, 6, 12, 20, 28, 40}));
    G.inject = A.geti("shim", r.chance(2, 3));
    G.handler_mode = r.chance(1, 3);
    // start_loop() creates every handler thread with the default 8 MB stack before the first handler runs; under a
    // sanitizer each such allocation is slow on a loaded machine (a long silent start-up, nothing to do with C10)
    if (G.handler_mode && (vh::is_asan() || vh::is_tsan())) G.nconn = std::min(G.nconn, 12);
    shim::den_short = r.pick({3u, 6u, 12u});
    shim::den_eintr = r.pick({8u, 24u, 64u});
    shim::den_eagain = r.pick({8u, 24u, 64u});
    bool tick_all = G.nconn >= 12 && r.chance(1, 2);        // synchronised writers: many descriptors ready at once
    uint64_t budget = A.geti("bytes", A.thorough() ? 3000000 : 1200000);   // bytes per execution, all directions together
    budget /= A.shape_div();
    if (vh::is_tsan()) budget /= 4;
    if (!vh::is_asan() && !vh::is_tsan()) budget *= 2;
    uint64_t max_ops = A.geti("ops", A.thorough() ? 720 : 240);
    // confined to one or two cores every sleep-paced call costs the same wall time: fewer calls and connections
    if (A.shape_div() >= 10) { max_ops /= 4; G.nconn = std::min(G.nconn, 20); }
    else if (A.shape_div() >= 4) max_ops /= 2;
    // scratch directory / UDS path
    std::string dir = A.scratch.empty() ? std::string("/tmp") : A.scratch;
    mkdir(dir.c_str(), 0755);
    G.uds_path = dir + "/s";
    if (G.uds_path.size() > 100) G.uds_path = "/tmp/vh_sock_" + std::to_string(getpid());
    unlink(G.uds_path.c_str());

    // ---- per-connection plans
    uint64_t per_dir = std::min<uint64_t>(std::max<uint64_t>(budget / (2 * G.nconn), 2000), A.thorough() ? 300000 : 100000);
    for (int i = 0; i < G.nconn; ++i) {
        auto c = new Conn;
        c->id = i;
        vh::Rng cr(vh::mix(A.xseed(), 0x5000 + i));
        for (int sd = 0; sd < 2; ++sd) {
            // TCP: the kernel doubles the value; values below ~4 KB make loopback TCP crawl (window < one segment)
            static const int tcp_bufs[] = {0, 4096, 4096, 8192, 32768};
            static const int uds_bufs[] = {0, 1, 4096, 4096, 16384};
            c->side[sd].sndbuf = (G.uds ? uds_bufs : tcp_bufs)[cr.below(5)];
            c->side[sd].rcvbuf = (G.uds ? uds_bufs : tcp_bufs)[cr.below(5)];
        }
        for (int d = 0; d < 2; ++d) {
            Dir& D = c->dir[d];
            D.c = c; D.d = d;
            D.exists = d == 0 || cr.chance(3, 4);
            D.key = vh::mix(A.xseed(), 0x6000 + i * 2 + d);
            D.ws = &c->side[d == 0 ? 0 : 1];
            D.rs = &c->side[d == 0 ? 1 : 0];
            uint64_t len;
            switch (cr.below(10)) {
            case 0: len = 0; break;
            case 1: len = cr.range(1, 64); break;
            case 2: case 3: len = cr.range(100, 9000); break;
            default: len = cr.range(per_dir / 4, per_dir * 2);
            }
            D.total = len;
            D.max_ops = max_ops;
            uint32_t maxcall = cr.pick({64u, 1500u, 4096u, 20000u, 70000u, 200000u});
            D.w = plan_role(cr, tick_all && cr.chance(3, 4), maxcall);
            D.r = plan_role(cr, false, cr.pick({64u, 1500u, 4096u, 20000u, 70000u}));
            // work is bounded by call counts: the writer stops after max_ops calls, and the reader's requests are
            // large enough to consume what the writer can have written within about as many calls
            uint64_t eff = std::min<uint64_t>(len, max_ops * (uint64_t)maxcall * 2 / 5);
            D.r.max_call = (uint32_t)std::max<uint64_t>(D.r.max_call, eff * 3 / max_ops);
            D.end_mode = cr.chance(1, 3) ? 1 : 0;
        }
        // leaving the end of a direction to the close of the stream is only graceful if nothing is left unread
        // on that side, i.e. when the reverse direction does not exist
        for (int d = 0; d < 2; ++d) if (c->dir[1 - d].exists) c->dir[d].end_mode = 0;
        g_conns.push_back(c);
        c_conns.add();
    }
    g_work_left.store(G.nconn);
    auto ename = [](uint64_t e) { return e == INIT_EVENT_EPOLL ? "epoll" : "epoll-ng"; };
    std::string cfgs = std::string(G.uds ? "uds" : "tcp") + "|v" + std::to_string(G.nv) + "|srv:" + ename(G.v[0].engine) + (G.v[0].et ? "/et" : "/lt") +
                       "|cli:" + ename(G.v[1].engine) + (G.v[1].et ? "/et" : "/lt") + "|conns:" + std::to_string(G.nconn) +
                       "|shim:" + (G.inject ? "inject" : "count") + (G.handler_mode ? "|handler" : "|accept") + (tick_all ? "|tick" : "");
    vh::config("config", cfgs);
    vh::config("bytes_budget", budget);
    vh::start_supervisor(on_stuck, 5000);

    // is the shim really reached in this flavor? (a sanitizer runtime may interpose the same functions)
    {
        int sp[2];
        if (socketpair(AF_UNIX, SOCK_STREAM, 0, sp) == 0) {
            shim::reg(sp[0], false, false, 1);
            typedef ssize_t (*send_t)(int, const void*, size_t, int);
            // call through the dynamic symbol exactly as libphoton.so would
            auto fn = (send_t)dlsym(RTLD_DEFAULT, "send");
            char ch = 'x';
            if (fn) fn(sp[0], &ch, 1, 0);
            G.shim_live.store(shim::g_fd[sp[0]].tx.load() == 1);
            shim::unreg(sp[0]);
            close(sp[0]); close(sp[1]);
        }
    }

    std::vector<std::thread> ths;
    for (int v = 0; v < G.nv; ++v) ths.emplace_back(vcpu_main, v);
    for (auto& t : ths) t.join();
    unlink(G.uds_path.c_str());

    // ---- quiescence: every direction ended, every byte accounted for
    for (auto c : g_conns)
        for (int d = 0; d < 2; ++d) {
            Dir& D = c->dir[d];
            if (!D.exists) continue;
            if (vh::n_violations()) break;
            if (!D.r_finished.load() || !D.w_finished.load())
                vh::violation("quiescence/direction-unfinished", "all threads ended but a direction was not completed", dir_witness(D).str());
        }
    // the library must have gone through the shim on the test sockets, otherwise the rare-path counters mean nothing
    uint64_t hits = shim::hits.load();
    c_shim_hits.add(hits);
    vh::config("shim_live", G.shim_live.load() ? 1 : 0);
    if (!G.shim_live.load() || hits == 0) vh::config("shim", "NOT REACHED in this flavor: counting and injection are off");
    using namespace photon::verif;
    bool nontrivial = G.shim_live.load() ? (c_eagain_rx.get() > 0 && c_eagain_tx.get() > 0) : vh::cov(C_EPOLL_WAIT_FD) > 0;
    auto b = [](int64_t v) { return std::to_string(vh::log2bucket(v)); };
    vh::set_sig(cfgs + "|" + vh::cov_signature({C_EPOLL_BATCH_FULL, C_EPOLL_STALE_EVENT}) + "earx:" + b(c_eagain_rx.get()) + ",eatx:" + b(c_eagain_tx.get()) +
                    ",wmid:" + b(c_writev_mid.get()) + ",both:" + b(c_both_dir.get()) + ",tmo:" + b(c_timeout_r.get() + c_timeout_w.get()) +
                    ",tfl:" + b(c_timeout_inflight.get()) + ",eofmid:" + b(c_eof_mid.get()),
                nontrivial);
    vh::sample(vh::JObj().kv("config", cfgs).kv("reader_calls", c_rcalls.get()).kv("writer_calls", c_wcalls.get()).kv("bytes_verified", c_bytes.get())
                   .kv("eagain_reader_side", c_eagain_rx.get()).kv("eagain_writer_side", c_eagain_tx.get())
                   .kv("writev_resumed_inside_element", c_writev_mid.get()).kv("both_directions_waiting", c_both_dir.get())
                   .kv("timeouts", c_timeout_r.get() + c_timeout_w.get()).kv("timeout_with_data_in_flight", c_timeout_inflight.get())
                   .kv("eof_inside_full_read", c_eof_mid.get()).kv("batch_full", vh::cov(C_EPOLL_BATCH_FULL)).str());
    return vh::finish();
}
