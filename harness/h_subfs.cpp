// C20 - sub-filesystem: no path reaches outside the base directory; nothing legal is refused.
//
// A recording IFileSystem(+XAttr) underlay stores the exact path strings of every call it
// receives. A real new_subfs() is put on top of it and every one- and two-path operation is
// called for every input path. Two oracles, reported under distinct keys:
//
//   escape:<class>        a string was forwarded whose lexical resolution ('.', '..', empty
//                         components) lies outside the configured base directory;
//   reject-legal:<class>  (converse) an input whose every component-prefix stays at depth >= 0
//                         (and whose length is far below the limit) was not forwarded, or
//   forward-changed:<class>  ... was forwarded as something else than <base>/ + input.
//
// <class> is a normal form: the failing input is minimised by deleting components while the same
// failure persists, then every component is replaced by its kind ("name", ".n" = dot + one char,
// ".nn" = dot-name of three or more chars, ".", "..", "" = empty component, "longname").
// If only some operations fail for an input the operation name is appended (":op=<name>").
//
// Inputs: (a) every string over {'/', '.', 'a', 'b'} up to length L (cfg maxlen; split over the
// executions by index mod nexec), (b) seeded longer paths out of interesting components, up to and
// beyond the length limit. One input = (path string, operation class) with operation classes
// one-path (all 30 one-path operations are called), two-path/first operand, two-path/second
// operand (link and rename, with a legal and an illegal partner).
// Non-trivial input: the path has at least one ".." component, or is within 64 bytes of the
// length limit.
//
// Not judged: symlink()'s oldname (link content, forwarded verbatim by design); a sub-filesystem
// without base directory (empty base) is only checked for "forwarded unchanged".
#include "vh.h"
#include <photon/fs/filesystem.h>
#include <photon/fs/subfs.h>
#include <sys/stat.h>
#include <sys/statvfs.h>
#include <sys/vfs.h>
#include <utime.h>
#include <limits.h>

using namespace photon;
using namespace photon::fs;

static vh::NamedCounter c_calls("subfs_calls"), c_fwd("forwarded"), c_rej("rejected"), c_legal("legal_inputs"),
    c_illegal("illegal_inputs"), c_exh("exhaustive_strings"), c_seeded("seeded_strings"), c_long("near_limit_strings"),
    c_conv_checked("converse_checked_calls"), c_two("two_path_calls"), c_nobase("nobase_calls");

// ------------------------------------------------------------------ operations
enum Op {
    OPEN2, OPEN3, CREAT, MKDIR, RMDIR, SYMLINK_NEW, READLINK, UNLINK, CHMOD, CHOWN, LCHOWN, OPENDIR, STAT, LSTAT,
    ACCESS, TRUNCATE, STATFS, STATVFS, UTIME, UTIMES, LUTIMES, MKNOD, GETXATTR, LGETXATTR, LISTXATTR, LLISTXATTR,
    SETXATTR, LSETXATTR, REMOVEXATTR, LREMOVEXATTR, N_ONE, LINK = N_ONE, RENAME, N_OPS
};
static const char* op_name[] = {"open", "open3", "creat", "mkdir", "rmdir", "symlink(newname)", "readlink", "unlink",
    "chmod", "chown", "lchown", "opendir", "stat", "lstat", "access", "truncate", "statfs", "statvfs", "utime", "utimes",
    "lutimes", "mknod", "getxattr", "lgetxattr", "listxattr", "llistxattr", "setxattr", "lsetxattr", "removexattr",
    "lremovexattr", "link", "rename"};

// ------------------------------------------------------------------ recording underlay
constexpr size_t RECMAX = 3 * PATH_MAX;
struct RecPath {
    bool present = false, null = false;
    size_t len = 0;
    char s[RECMAX];
    void set(const char* p) {
        present = true;
        null = (p == nullptr);
        len = 0;
        if (p) {
            len = strnlen(p, RECMAX - 1);
            memcpy(s, p, len);
            s[len] = 0;
        }
    }
};
struct RecCall {
    int op = -1;
    RecPath p[2];
};
static char g_sentinel_file[64], g_sentinel_dir[64];

class RecFS : public IFileSystem, public IFileSystemXAttr {
public:
    int ncalls = 0;
    RecCall calls[2];        // the first two calls of the current operation
    void reset() { ncalls = 0; calls[0].p[0].present = calls[0].p[1].present = false; calls[1].p[0].present = calls[1].p[1].present = false; }
    // returns true if every path operand is a string (then the call "succeeds")
    bool rec(int op, const char* a, const char* b = nullptr, bool two = false) {
        if (ncalls < 2) {
            auto& c = calls[ncalls];
            c.op = op;
            c.p[0].set(a);
            if (two) c.p[1].set(b); else c.p[1].present = false;
        }
        ++ncalls;
        bool ok = a && (!two || b);
        if (!ok) errno = EFAULT;
        return ok;
    }
    IFile* f(bool ok) { return ok ? (IFile*)g_sentinel_file : nullptr; }
    int r(bool ok) { return ok ? 0 : -1; }

    IFile* open(const char* p, int) override { return f(rec(OPEN2, p)); }
    IFile* open(const char* p, int, mode_t) override { return f(rec(OPEN3, p)); }
    IFile* creat(const char* p, mode_t) override { return f(rec(CREAT, p)); }
    int mkdir(const char* p, mode_t) override { return r(rec(MKDIR, p)); }
    int rmdir(const char* p) override { return r(rec(RMDIR, p)); }
    int symlink(const char* o, const char* n) override { (void)o; return r(rec(SYMLINK_NEW, n)); }
    ssize_t readlink(const char* p, char*, size_t) override { return r(rec(READLINK, p)); }
    int link(const char* o, const char* n) override { return r(rec(LINK, o, n, true)); }
    int rename(const char* o, const char* n) override { return r(rec(RENAME, o, n, true)); }
    int unlink(const char* p) override { return r(rec(UNLINK, p)); }
    int chmod(const char* p, mode_t) override { return r(rec(CHMOD, p)); }
    int chown(const char* p, uid_t, gid_t) override { return r(rec(CHOWN, p)); }
    int lchown(const char* p, uid_t, gid_t) override { return r(rec(LCHOWN, p)); }
    int statfs(const char* p, struct statfs*) override { return r(rec(STATFS, p)); }
    int statvfs(const char* p, struct statvfs*) override { return r(rec(STATVFS, p)); }
    int stat(const char* p, struct stat* st) override {
        bool ok = rec(STAT, p);
        if (ok && st) { memset(st, 0, sizeof(*st)); st->st_mode = S_IFDIR | 0755; }
        return r(ok);
    }
    int lstat(const char* p, struct stat* st) override {
        bool ok = rec(LSTAT, p);
        if (ok && st) { memset(st, 0, sizeof(*st)); st->st_mode = S_IFDIR | 0755; }
        return r(ok);
    }
    int access(const char* p, int) override { return r(rec(ACCESS, p)); }
    int truncate(const char* p, off_t) override { return r(rec(TRUNCATE, p)); }
    int utime(const char* p, const struct utimbuf*) override { return r(rec(UTIME, p)); }
    int utimes(const char* p, const struct timeval[2]) override { return r(rec(UTIMES, p)); }
    int lutimes(const char* p, const struct timeval[2]) override { return r(rec(LUTIMES, p)); }
    int mknod(const char* p, mode_t, dev_t) override { return r(rec(MKNOD, p)); }
    int syncfs() override { return 0; }
    photon::fs::DIR* opendir(const char* p) override { return rec(OPENDIR, p) ? (photon::fs::DIR*)g_sentinel_dir : nullptr; }
    ssize_t getxattr(const char* p, const char*, void*, size_t) override { return r(rec(GETXATTR, p)); }
    ssize_t lgetxattr(const char* p, const char*, void*, size_t) override { return r(rec(LGETXATTR, p)); }
    ssize_t listxattr(const char* p, char*, size_t) override { return r(rec(LISTXATTR, p)); }
    ssize_t llistxattr(const char* p, char*, size_t) override { return r(rec(LLISTXATTR, p)); }
    int setxattr(const char* p, const char*, const void*, size_t, int) override { return r(rec(SETXATTR, p)); }
    int lsetxattr(const char* p, const char*, const void*, size_t, int) override { return r(rec(LSETXATTR, p)); }
    int removexattr(const char* p, const char*) override { return r(rec(REMOVEXATTR, p)); }
    int lremovexattr(const char* p, const char*) override { return r(rec(LREMOVEXATTR, p)); }
};

// ------------------------------------------------------------------ lexical model
static void split(const char* s, size_t n, std::vector<std::string>& out) {
    out.clear();
    size_t b = 0;
    for (size_t i = 0; i <= n; ++i)
        if (i == n || s[i] == '/') { out.emplace_back(s + b, i - b); b = i + 1; }
}
static std::string join(const std::vector<std::string>& v) {
    std::string o;
    for (size_t i = 0; i < v.size(); ++i) { if (i) o += '/'; o += v[i]; }
    return o;
}
// every component-prefix of the (relative-to-base) path stays at depth >= 0
static bool legal_path(const char* s, size_t n) {
    long depth = 0;
    size_t i = 0;
    while (i < n) {
        while (i < n && s[i] == '/') ++i;
        size_t b = i;
        while (i < n && s[i] != '/') ++i;
        size_t l = i - b;
        if (!l) break;
        if (l == 1 && s[b] == '.') continue;
        if (l == 2 && s[b] == '.' && s[b + 1] == '.') { if (--depth < 0) return false; }
        else ++depth;
    }
    return true;
}
static bool has_dotdot(const char* s, size_t n) {
    for (size_t i = 0; i + 1 < n; ++i)
        if (s[i] == '.' && s[i + 1] == '.' && (i == 0 || s[i - 1] == '/') && (i + 2 == n || s[i + 2] == '/')) return true;
    return false;
}
// lexical resolution: component stack; 'above' counts '..' that climb above the start of a relative path
struct Resolved { bool absolute = false; long above = 0; std::vector<std::string> comps; };
static Resolved resolve(const char* s, size_t n) {
    Resolved r;
    r.absolute = n && s[0] == '/';
    size_t i = 0;
    while (i < n) {
        while (i < n && s[i] == '/') ++i;
        size_t b = i;
        while (i < n && s[i] != '/') ++i;
        size_t l = i - b;
        if (!l) break;
        if (l == 1 && s[b] == '.') continue;
        if (l == 2 && s[b] == '.' && s[b + 1] == '.') {
            if (!r.comps.empty()) r.comps.pop_back();
            else if (!r.absolute) ++r.above;          // "/.." is "/"
        } else r.comps.emplace_back(s + b, l);
    }
    return r;
}
static bool inside(const Resolved& base, const Resolved& f) {
    if (base.absolute != f.absolute || base.above != f.above) return false;
    if (f.comps.size() < base.comps.size()) return false;
    for (size_t i = 0; i < base.comps.size(); ++i) if (base.comps[i] != f.comps[i]) return false;
    return true;
}

// ------------------------------------------------------------------ the system under test
struct Sub {
    std::string base_arg;       // as given to new_subfs
    std::string prefix;         // what a forwarded path must start with (base + '/'), "" if no base
    Resolved rbase;
    RecFS* rec = nullptr;
    IFileSystem* fs = nullptr;
    IFileSystemXAttr* xfs = nullptr;
    int id = 0;
    bool nobase() const { return base_arg.empty(); }
};
static std::vector<Sub*> g_subs;
constexpr size_t CONVERSE_LEN_LIMIT = 3900;       // far below every plausible "length limit" (PATH_MAX = 4096)

static Sub* make_sub(const std::string& base, int id) {
    auto s = new Sub;
    s->base_arg = base;
    s->id = id;
    s->rec = new RecFS;
    s->fs = new_subfs(s->rec, base.c_str(), false);
    if (!s->fs) vh::machinery_failure("new_subfs failed for base " + base);
    s->xfs = dynamic_cast<IFileSystemXAttr*>(s->fs);
    if (!s->xfs) vh::machinery_failure("subfs has no xattr interface");
    s->prefix = base;
    if (!base.empty() && base.back() != '/') s->prefix += '/';
    s->rbase = resolve(base.data(), base.size());
    s->rec->reset();
    return s;
}

static struct stat g_st;
static struct statfs g_stfs;
static struct statvfs g_stvfs;
static char g_buf[64];

// returns true if the operation reported failure
static bool call_one(Sub* S, int op, const char* p) {
    auto fs = S->fs;
    auto x = S->xfs;
    S->rec->reset();
    c_calls.add();
    switch (op) {
    case OPEN2: return fs->open(p, 0) == nullptr;
    case OPEN3: return fs->open(p, 0, 0644) == nullptr;
    case CREAT: return fs->creat(p, 0644) == nullptr;
    case MKDIR: return fs->mkdir(p, 0755) < 0;
    case RMDIR: return fs->rmdir(p) < 0;
    case SYMLINK_NEW: return fs->symlink("target", p) < 0;
    case READLINK: return fs->readlink(p, g_buf, sizeof(g_buf)) < 0;
    case UNLINK: return fs->unlink(p) < 0;
    case CHMOD: return fs->chmod(p, 0644) < 0;
    case CHOWN: return fs->chown(p, 0, 0) < 0;
    case LCHOWN: return fs->lchown(p, 0, 0) < 0;
    case OPENDIR: return fs->opendir(p) == nullptr;
    case STAT: return fs->stat(p, &g_st) < 0;
    case LSTAT: return fs->lstat(p, &g_st) < 0;
    case ACCESS: return fs->access(p, 0) < 0;
    case TRUNCATE: return fs->truncate(p, 0) < 0;
    case STATFS: return fs->statfs(p, &g_stfs) < 0;
    case STATVFS: return fs->statvfs(p, &g_stvfs) < 0;
    case UTIME: return fs->utime(p, nullptr) < 0;
    case UTIMES: return fs->utimes(p, nullptr) < 0;
    case LUTIMES: return fs->lutimes(p, nullptr) < 0;
    case MKNOD: return fs->mknod(p, 0644, 0) < 0;
    case GETXATTR: return x->getxattr(p, "n", g_buf, sizeof(g_buf)) < 0;
    case LGETXATTR: return x->lgetxattr(p, "n", g_buf, sizeof(g_buf)) < 0;
    case LISTXATTR: return x->listxattr(p, g_buf, sizeof(g_buf)) < 0;
    case LLISTXATTR: return x->llistxattr(p, g_buf, sizeof(g_buf)) < 0;
    case SETXATTR: return x->setxattr(p, "n", "v", 1, 0) < 0;
    case LSETXATTR: return x->lsetxattr(p, "n", "v", 1, 0) < 0;
    case REMOVEXATTR: return x->removexattr(p, "n") < 0;
    case LREMOVEXATTR: return x->lremovexattr(p, "n") < 0;
    }
    vh::machinery_failure("bad op");
}
static bool call_two(Sub* S, int op, const char* a, const char* b) {
    S->rec->reset();
    c_calls.add();
    c_two.add();
    return op == LINK ? S->fs->link(a, b) < 0 : S->fs->rename(a, b) < 0;
}

// what happened to one path operand of one call
enum Outcome { O_OK = 0, O_REJECTED, O_ESCAPE, O_CHANGED };
// forwarded operands of the current operation are judged against input (in, n)
static Outcome judge_operand(Sub* S, const RecPath* fwd, bool op_failed, const char* in, size_t n,
                             const std::string& expect, bool expect_inside) {
    if (!fwd || !fwd->present || fwd->null) return O_REJECTED;     // no call, or a null path: rejected
    (void)op_failed;
    if (fwd->len == expect.size() && memcmp(fwd->s, expect.data(), fwd->len) == 0)
        return (S->nobase() || expect_inside) ? O_OK : O_ESCAPE;
    // forwarded as something else: resolve it
    if (!S->nobase()) {
        auto r = resolve(fwd->s, fwd->len);
        if (!inside(S->rbase, r)) return O_ESCAPE;
    }
    return O_CHANGED;
}

// slots: 0..29 one-path ops; 30.. two-path: (op, position, partner) -> 30 + ((op-LINK)*2 + pos)*2 + partner
constexpr int N_SLOTS = N_ONE + 8;
static const char* PARTNER_LEGAL = "x/y";
static const char* PARTNER_ILLEGAL = "../z";
static std::string slot_name(int slot) {
    if (slot < N_ONE) return op_name[slot];
    int k = slot - N_ONE;
    int partner = k & 1, pos = (k >> 1) & 1, op = LINK + (k >> 2);
    return std::string(op_name[op]) + (pos ? "(newname" : "(oldname") + (partner ? ", other operand illegal)" : ")");
}

struct SlotResult { Outcome o; bool converse_applies; };

// run one slot for one input; also judges the partner operand of two-path operations
static SlotResult run_slot(Sub* S, int slot, const char* in, size_t n, bool legal, bool in_converse_range,
                           const std::string& expect, bool expect_inside, std::string* fwd_out = nullptr) {
    SlotResult res{O_OK, false};
    auto rec = S->rec;
    if (slot < N_ONE) {
        bool failed = call_one(S, slot, in);
        const RecPath* f = rec->ncalls ? &rec->calls[0].p[0] : nullptr;
        res.o = judge_operand(S, f, failed, in, n, expect, expect_inside);
        // a second underlay call for one operation: judge it as well (the worse outcome counts)
        if (rec->ncalls > 1 && res.o == O_OK) res.o = judge_operand(S, &rec->calls[1].p[0], failed, in, n, expect, expect_inside);
        res.converse_applies = legal && in_converse_range;
        if (fwd_out) *fwd_out = !f ? "<no call>" : f->null ? "<null>" : std::string(f->s, f->len);
    } else {
        int k = slot - N_ONE;
        int partner = k & 1, pos = (k >> 1) & 1, op = LINK + (k >> 2);
        const char* q = partner ? PARTNER_ILLEGAL : PARTNER_LEGAL;
        bool failed = pos ? call_two(S, op, q, in) : call_two(S, op, in, q);
        const RecPath* f = rec->ncalls ? &rec->calls[0].p[pos] : nullptr;
        res.o = judge_operand(S, f, failed, in, n, expect, expect_inside);
        res.converse_applies = legal && in_converse_range && !partner;     // only when both operands are legal
        if (fwd_out) *fwd_out = !f ? "<no call>" : f->null ? "<null>" : std::string(f->s, f->len);
    }
    if (res.o == O_OK || res.o == O_CHANGED || res.o == O_ESCAPE) c_fwd.add(); else c_rej.add();
    if (res.converse_applies) c_conv_checked.add();
    vh::event();
    return res;
}

static bool is_failure(const SlotResult& r, Outcome* kind) {
    if (r.o == O_ESCAPE) { *kind = O_ESCAPE; return true; }
    if (r.converse_applies && r.o != O_OK) { *kind = r.o; return true; }
    return false;
}

// ------------------------------------------------------------------ class of a failing path
static std::string token_of(const std::string& c) {
    if (c.empty()) return "";
    if (c == ".") return ".";
    if (c == "..") return "..";
    if (c.size() > 255) return "longname";
    if (c[0] != '.') return "name";
    return c.size() == 2 ? ".n" : ".nn";
}
static std::string class_of(const std::vector<std::string>& comps) {
    std::string o;
    for (size_t i = 0; i < comps.size(); ++i) { if (i) o += '/'; o += token_of(comps[i]); }
    if (o.size() > 120) o = o.substr(0, 120) + "...";
    return o.empty() ? "<empty>" : o;
}
// does `path` still fail in `slot` with the same kind of failure?
static bool still_fails(Sub* S, int slot, const std::string& path, Outcome kind) {
    bool legal = legal_path(path.data(), path.size());
    bool in_range = S->prefix.size() + path.size() <= CONVERSE_LEN_LIMIT;
    std::string expect = S->prefix + path;
    bool exp_inside = S->nobase() || inside(S->rbase, resolve(expect.data(), expect.size()));
    auto r = run_slot(S, slot, path.data(), path.size(), legal, in_range, expect, exp_inside);
    Outcome k;
    return is_failure(r, &k) && k == kind;
}
static std::vector<std::string> minimise(Sub* S, int slot, const std::string& path, Outcome kind) {
    std::vector<std::string> comps;
    split(path.data(), path.size(), comps);
    bool progress = true;
    int budget = 4000;
    while (progress && budget > 0) {
        progress = false;
        // remove chunks of decreasing size, then pairs
        for (size_t chunk = std::max<size_t>(1, comps.size() / 2); chunk >= 1 && !progress; chunk /= 2) {
            for (size_t i = 0; i + chunk <= comps.size() && budget > 0; ++i) {
                std::vector<std::string> c(comps.begin(), comps.begin() + i);
                c.insert(c.end(), comps.begin() + i + chunk, comps.end());
                --budget;
                if (still_fails(S, slot, join(c), kind)) { comps = c; progress = true; break; }
            }
            if (chunk == 1) break;
        }
        if (progress) continue;
        for (size_t i = 0; i < comps.size() && !progress; ++i)
            for (size_t j = i + 1; j < comps.size() && budget > 0; ++j) {
                std::vector<std::string> c;
                for (size_t k = 0; k < comps.size(); ++k) if (k != i && k != j) c.push_back(comps[k]);
                --budget;
                if (still_fails(S, slot, join(c), kind)) { comps = c; progress = true; break; }
            }
    }
    // replace every name by the plainest representative with which the failure persists: an ordinary
    // name "a" first (so a failure that does not depend on the leading dot or on the length gets the
    // class "name"), else the shortest name of its own kind
    for (size_t i = 0; i < comps.size() && budget > 0; ++i) {
        auto t = token_of(comps[i]);
        if (t == "" || t == "." || t == "..") continue;
        std::vector<std::string> cands = {"a"};
        if (comps[i][0] == '.') { cands.push_back(".a"); cands.push_back(".aa"); }
        for (auto& canon : cands) {
            if (canon == comps[i]) break;
            if (token_of(canon) == t && canon.size() >= comps[i].size()) continue;
            auto c = comps;
            c[i] = canon;
            --budget;
            if (still_fails(S, slot, join(c), kind)) { comps = c; break; }
        }
    }
    return comps;
}

static std::unordered_set<std::string> g_classified;      // raw class + slot mask already reported

// evaluate one path against every slot of one sub-filesystem
static void check_path(Sub* S, const char* in, size_t n, bool exhaustive_src) {
    bool legal = legal_path(in, n);
    bool in_range = S->prefix.size() + n <= CONVERSE_LEN_LIMIT;
    std::string expect = S->prefix;
    expect.append(in, n);
    bool exp_inside = S->nobase() || inside(S->rbase, resolve(expect.data(), expect.size()));
    if (legal && !exp_inside) vh::machinery_failure("model: legal path resolves outside base: " + std::string(in, n));
    (legal ? c_legal : c_illegal).add();

    uint64_t failmask = 0, conv_applicable = 0;
    Outcome kinds[N_SLOTS];
    for (int slot = 0; slot < N_SLOTS; ++slot) {
        auto r = run_slot(S, slot, in, n, legal, in_range, expect, exp_inside);
        if (S->nobase()) c_nobase.add();
        Outcome k = O_OK;
        kinds[slot] = O_OK;
        if (is_failure(r, &k)) { failmask |= 1ull << slot; kinds[slot] = k; }
        if (r.converse_applies) conv_applicable |= 1ull << slot;
    }
    // inputs: (path, operation class)
    bool nontrivial = has_dotdot(in, n) || (S->prefix.size() + n + 64 >= PATH_MAX && S->prefix.size() + n <= PATH_MAX + 64);
    uint64_t h = vh::hash_bytes(in, n, 1469598103934665603ull ^ (uint64_t)(S->id + 1) * 0x9E3779B97F4A7C15ull);
    vh::note_input(vh::mix(h, 1), nontrivial);
    vh::note_input(vh::mix(h, 2), nontrivial);
    vh::note_input(vh::mix(h, 3), nontrivial);
    if (!failmask) return;

    // report: one key per (kind, class); the operation is named only if not all applicable slots fail
    std::vector<std::string> raw;
    split(in, n, raw);
    std::string memo = class_of(raw) + "#" + std::to_string(failmask) + "#" + std::to_string(S->id);
    if (!g_classified.insert(memo).second) return;
    // per kind of failure: do all slots in which it could be observed fail? (escape: every slot;
    // converse failures: the slots where the converse applies)
    auto all_of_kind = [&](Outcome kind) {
        if (kind == O_ESCAPE) {
            uint64_t m = 0;
            for (int s = 0; s < N_SLOTS; ++s) if ((failmask >> s & 1) && kinds[s] == O_ESCAPE) m |= 1ull << s;
            return m == (1ull << N_SLOTS) - 1;
        }
        return (failmask & conv_applicable) == conv_applicable;     // every slot where the converse applies fails somehow
    };
    std::unordered_set<std::string> done;
    for (int slot = 0; slot < N_SLOTS; ++slot) {
        if (!(failmask >> slot & 1)) continue;
        Outcome kind = kinds[slot];
        bool all = all_of_kind(kind);
        std::string gen = std::to_string(kind) + (all ? "" : slot_name(slot));
        if (!done.insert(gen).second) continue;
        std::string fwd;
        run_slot(S, slot, in, n, legal, in_range, expect, exp_inside, &fwd);
        auto mini = minimise(S, slot, std::string(in, n), kind);
        std::string key = std::string(kind == O_ESCAPE ? "escape:" : kind == O_REJECTED ? "reject-legal:" : "forward-changed:") +
                          class_of(mini);
        if (S->nobase()) key = "nobase/" + key;
        if (!all) key += ":op=" + slot_name(slot);
        const char* what = kind == O_ESCAPE ? "a forwarded path resolves outside the base directory"
                           : kind == O_REJECTED ? "a path whose every prefix stays at or below the base was rejected"
                                                : "a legal path was forwarded changed (not base + input)";
        vh::violation(key, what,
                      vh::JObj().kv("base", S->base_arg).kv("op", slot_name(slot)).kv("input", std::string(in, std::min<size_t>(n, 300)))
                          .kv("input_len", (uint64_t)n).kv("forwarded", fwd.substr(0, 400)).kv("minimised", join(mini).substr(0, 300))
                          .kv("failing_slots", (uint64_t)__builtin_popcountll(failmask)).kv("slots", (uint64_t)N_SLOTS)
                          .kv("from_exhaustive_enumeration", exhaustive_src).str());
    }
}

// ------------------------------------------------------------------ input generators
static const char ALPHA[4] = {'/', '.', 'a', 'b'};

static void exhaustive(Sub* S, int maxlen, uint64_t exec, uint64_t nexec) {
    char buf[32];
    uint64_t g = 0;          // global index over all strings of length 0..maxlen
    for (int len = 0; len <= maxlen; ++len) {
        uint64_t cnt = 1ull << (2 * len);
        // first index of this length handled by this execution
        uint64_t first = (exec + nexec - g % nexec) % nexec;
        for (uint64_t i = first; i < cnt; i += nexec) {
            uint64_t v = i;
            for (int k = len - 1; k >= 0; --k) { buf[k] = ALPHA[v & 3]; v >>= 2; }
            buf[len] = 0;
            check_path(S, buf, len, true);
            c_exh.add();
            if ((i & 0xfff) == 0) vh::progress();
        }
        g += cnt;
    }
}

static std::string seeded_path(vh::Rng& r) {
    static const std::vector<std::string> comps = {"..", "..", "..", ".", "", "a", "b", "ab", ".a", ".b", "..a", "...", "....",
                                                   ".a.", "a.", "a..", "x..y", ".ab", "..ab", "dir", "file.txt", ".hidden", "-"};
    int n = r.chance(1, 8) ? (int)r.range(12, 48) : (int)r.range(1, 11);
    std::string p;
    if (r.chance(1, 3)) p += r.chance(1, 4) ? "//" : "/";
    for (int i = 0; i < n; ++i) {
        if (i) p += r.chance(1, 10) ? "//" : "/";
        if (r.chance(1, 40)) p += std::string(r.range(200, 300), 'n');
        else p += r.pick(comps);
    }
    if (r.chance(1, 4)) p += "/";
    return p;
}
// a path whose total forwarded length is near PATH_MAX
static std::string near_limit_path(vh::Rng& r, size_t prefix_len) {
    long target = (long)PATH_MAX - (long)prefix_len + (long)r.range(0, 24) - 12;     // input length
    if (r.chance(1, 6)) target += r.range(0, 2 * PATH_MAX);
    static const std::vector<std::string> tails = {"", "/..", "/../..", "/a/..", "/.", "/", "/.../..", "/../../../.."};
    std::string tail = r.pick(tails);
    std::string head = r.chance(1, 4) ? "../" : r.chance(1, 3) ? "/" : "";
    std::string p = head;
    while ((long)(p.size() + tail.size()) < target) {
        long room = target - (long)(p.size() + tail.size());
        long l = std::min<long>(room, (long)r.range(1, 255));
        if (r.chance(1, 5) && room >= 3) { p += "../"; continue; }
        p += std::string(l, r.chance(1, 2) ? 'a' : '.');
        if ((long)(p.size() + tail.size()) < target) p += '/';
    }
    return p + tail;
}

int main(int argc, char** argv) {
    vh::init(argc, argv);
    auto& A = vh::args();
    uint64_t nexec = std::max<int64_t>(1, A.geti("nexec", 1));
    uint64_t exec = A.exec % nexec;
    int maxlen = (int)A.geti("maxlen", A.thorough() ? 11 : 9);
    int maxlen_other = (int)A.geti("maxlen_other", std::max(0, maxlen - 3));
    uint64_t n_seeded = A.geti("seeded", A.thorough() ? 60000 : 6000);
    uint64_t n_long = A.geti("near_limit", A.thorough() ? 4000 : 600);
    if (maxlen > 15) vh::machinery_failure("maxlen too large");

    // the first base gets the full enumeration; the others a shorter one plus the seeded paths
    const char* bases[] = {"/base", "/base/sub/", "rel/dir", "/", ""};
    for (int i = 0; i < 5; ++i) g_subs.push_back(make_sub(bases[i], i));
    vh::config("maxlen", maxlen);
    vh::config("maxlen_other_bases", maxlen_other);
    vh::config("nexec", (int64_t)nexec);
    vh::config("bases", "/base;/base/sub/;rel/dir;/;<none>");

    // replay of one recorded input
    if (A.has("path")) {
        auto p = A.gets("path", "");
        for (auto S : g_subs) check_path(S, p.data(), p.size(), false);
        return vh::finish();
    }

    exhaustive(g_subs[0], maxlen, exec, nexec);
    for (size_t b = 1; b < g_subs.size(); ++b) exhaustive(g_subs[b], maxlen_other, exec, nexec);

    vh::Rng r(A.xseed());
    for (uint64_t i = 0; i < n_seeded; ++i) {
        auto p = seeded_path(r);
        auto S = g_subs[r.below(g_subs.size())];
        check_path(S, p.data(), p.size(), false);
        c_seeded.add();
        if (i < 2) vh::sample(vh::JObj().kv("kind", "seeded").kv("base", S->base_arg).kv("path", p).kv("legal", legal_path(p.data(), p.size())).str());
        if ((i & 0xff) == 0) vh::progress();
    }
    for (uint64_t i = 0; i < n_long; ++i) {
        auto S = g_subs[r.below(g_subs.size() - 1)];
        auto p = near_limit_path(r, S->prefix.size());
        check_path(S, p.data(), p.size(), false);
        c_long.add();
        if (i < 1) vh::sample(vh::JObj().kv("kind", "near-limit").kv("base", S->base_arg).kv("path_len", (uint64_t)p.size()).kv("path_head", p.substr(0, 40)).str());
    }
    vh::sample(vh::JObj().kv("kind", "exhaustive").kv("alphabet", "/.ab").kv("maxlen", maxlen).kv("slice", (int64_t)exec).kv("of", (int64_t)nexec)
                   .kv("strings_in_slice", c_exh.get()).str());
    vh::set_exhaustive(true);        // this execution enumerated its whole slice of the bounded space
    return vh::finish();
}
