// C08 - WorkPool: every task handed in through call() / async_call(), from photon threads and from plain OS threads, runs
// exactly once on a vCPU of the pool in the three thread modes; call() returns only after its task finished; an async task
// object is deleted exactly once, after it ran; destroying the pool waits for all accepted tasks.
//
// One execution = `rounds` pools, each created, loaded by all submitters and destroyed while the last accepted tasks are still
// queued or running (never concurrently with a submission). Oracles (DESIGN.md 3, C08): per task record (heap object, relaxed
// atomics) exec / finished / deleted counters, a plain payload per record (TSan: ordering of call() return and of ~WorkPool
// after the bodies), by-value state inside heap functors freed at the earliest legal moment (ASan), executing vCPU is not a
// submitter's vCPU and at most vcpu_num distinct ones execute, stuck detector over the ledger.
#include "vh.h"
#include <photon/thread/workerpool.h>
#include <photon/common/timeout.h>
#include <photon/thread/stack-allocator.h>
#include <sys/mman.h>

using namespace photon;

static vh::NamedCounter c_tasks("tasks"), c_sync("sync_calls"), c_async("async_calls"), c_sync_arg("sync_calls_with_args"),
    c_auto("auto_context_calls"), c_os_tasks("tasks_from_os_threads"), c_photon_tasks("tasks_from_photon_threads"),
    c_running_at_dtor("tasks_running_at_destructor_entry"), c_queued_at_dtor("tasks_started_after_destructor_entry"),
    c_overlap("task_started_while_previous_on_same_vcpu_unfinished"), c_reuse("pooled_thread_reused"),
    c_pools("pools_destroyed"), c_dtor_photon("pools_destroyed_from_photon_thread"), c_dtor_os("pools_destroyed_from_os_thread"),
    c_bodies_sleep("bodies_sleeping"), c_bodies_yield("bodies_yielding"), c_bursts_gt_ring("bursts_larger_than_ring"),
    c_drains("drains"), c_final_burst("final_burst_tasks"), c_call_interrupted("submitters_interrupted_inside_call");

enum BodyKind : uint8_t { B_NOP = 0, B_YIELD, B_SLEEP };
enum TaskKind : uint8_t { T_SYNC = 0, T_SYNC_ARG, T_ASYNC };
enum SubState : int { S_IDLE = 0, S_IN_CALL, S_IN_ASYNC_CALL, S_DRAIN, S_CREATE, S_DESTROY, S_WAIT_ROUND, S_WAIT_SUBMITTERS, S_FINISHED };
static const char* state_name[] = {"idle", "in-call", "in-async_call", "waiting-for-own-async-tasks", "creating-pool", "in-destructor",
                                   "waiting-for-round", "waiting-for-submitters", "finished"};

struct Rec {
    std::atomic<int> exec{0}, finished{0}, deleted{0};
    std::atomic<void*> vcpu{nullptr};
    uint64_t payload = 0;           // plain memory: written by the body, read after call() returned / after ~WorkPool returned
    uint64_t magic = 0;
    uint32_t id = 0;
    uint16_t sub = 0, sleep_us = 0;
    TaskKind kind = T_SYNC;
    BodyKind body = B_NOP;
    uint8_t yields = 0;
    bool auto_ctx = false;
};

constexpr int MAXSUB = 40;
constexpr int MAXV = 16;
struct Sub {
    int id = 0;
    bool is_photon = false;
    int vcpu = -1;                          // index of the submitter vCPU (photon submitters)
    std::atomic<int> state{S_IDLE};
    std::atomic<photon::thread*> th{nullptr};   // photon submitters: for the interrupter
    std::atomic<Rec*> cur{nullptr};         // the task of the call()/async_call() in progress
    std::atomic<uint64_t> async_submitted{0}, async_finished{0};
    std::vector<Rec*> recs;                 // owner-only during a round; read by the destroyer after the submitters' barrier
    size_t checked = 0;
};
static Sub g_subs[MAXSUB];                  // [0] is the main OS thread, then photon submitters, then OS-thread submitters
static int g_nsub = 0;                      // submitters that run a program each round (the main thread is not one of them)

struct VSlot {                              // one executing vCPU of the current pool
    std::atomic<void*> vcpu{nullptr};
    std::atomic<int> inflight{0};
    std::atomic<void*> ths[64];
};
static VSlot g_vslot[MAXV];
static std::atomic<int> g_nvslot{0};

static WorkPool* g_pool = nullptr;
static std::atomic<int> g_round_open{0}, g_round_closed{0}, g_done_submitting{0}, g_dtor_entered{0};
static std::atomic<uint64_t> g_accepted{0}, g_finished{0}, g_next_id{0};
static std::atomic<void*> g_sub_vcpus[8];
static int g_np = 0, g_tpv = 0, g_no = 0, g_nv = 1, g_mode = -1, g_ring = 64, g_rounds = 1;
static uint64_t g_ev = 0, g_cap = 2, g_tasks_per_sub = 0;
static std::atomic<int> g_pvcpus_ready{0};
static vh::VCpus g_vc;

static const char* kind_name(const Rec* r) {
    return r->kind == T_ASYNC ? "async_call" : r->kind == T_SYNC_ARG ? "call(f,args)" : "call(f)";
}
static std::string ctx_name(const Rec* r) {
    if (r->kind == T_ASYNC) return "async";
    return r->auto_ctx ? "AutoContext" : g_subs[r->sub].is_photon ? "PhotonContext" : "StdContext";
}
static std::string mode_name() { return g_mode < 0 ? "mode-1" : g_mode == 0 ? "mode0" : "pooled"; }
static std::string rec_json(const Rec* r) {
    return vh::JObj().kv("task", (uint64_t)r->id).kv("kind", kind_name(r)).kv("context", ctx_name(r)).kv("submitter", (int)r->sub)
        .kv("submitter_is_photon", g_subs[r->sub].is_photon).kv("body", r->body == B_NOP ? "nop" : r->body == B_YIELD ? "yield" : "sleep")
        .kv("sleep_us", (int)r->sleep_us).kv("exec", r->exec.load(vh::MO)).kv("finished", r->finished.load(vh::MO))
        .kv("deleted", r->deleted.load(vh::MO)).kv("mode", g_mode).kv("vcpu_num", g_nv).kv("ring_size", g_ring).str();
}

static void pause_us(bool is_photon, uint64_t us) {
    if (is_photon) thread_usleep(us);
    else { struct timespec ts = {(time_t)(us / 1000000), (long)(us % 1000000) * 1000}; nanosleep(&ts, nullptr); }
}
template <typename F> static void wait_until(bool is_photon, F cond, uint64_t poll_us = 100) {
    while (!cond()) pause_us(is_photon, poll_us);
}

// ------------------------------------------------------------------ thread stacks
// In thread modes 0 / pooled every task (or pool thread) gets an 8 MB stack. Through photon's default allocator that is a
// posix_memalign + madvise + free per task, which costs tens of milliseconds per task under ASan/TSan (shadow poisoning,
// quarantine, page faults) and is not the subject of this property. Stack source per execution: 0 photon's default allocator
// (fewer tasks), 1 a per-OS-thread cache of mmap-ed regions kept by the harness (no synchronisation between vCPUs, so it adds
// no happens-before edge), 2 photon's own pooled allocator (per OS thread as well: every new pool starts with empty caches and
// mallocs one stack per concurrently sleeping task again). The sanitizer flavors use 1 whenever tasks get threads.
static int g_stack_mode = 0;
struct StackCache {
    std::vector<void*> v;
    ~StackCache() { for (auto p : v) munmap(p, DEFAULT_STACK_SIZE); }
};
static thread_local StackCache tl_stacks;
struct CachingAllocator {
    void* alloc(size_t size) {
        if (size != DEFAULT_STACK_SIZE) return default_photon_thread_stack_alloc(nullptr, size);
        auto& c = tl_stacks.v;
        if (!c.empty()) { void* p = c.back(); c.pop_back(); return p; }
        void* p = mmap(nullptr, size, PROT_READ | PROT_WRITE, MAP_PRIVATE | MAP_ANONYMOUS | MAP_NORESERVE, -1, 0);
        if (p == MAP_FAILED) return nullptr;
        mprotect(p, 4096, PROT_NONE);
        return p;
    }
    void dealloc(void* ptr, size_t size) {
        if (size != DEFAULT_STACK_SIZE) return default_photon_thread_stack_dealloc(nullptr, ptr, size);
        auto& c = tl_stacks.v;
        if (c.size() < 128) c.push_back(ptr); else munmap(ptr, size);
        vh::progress();         // a pool that is tearing its threads down is not stuck
    }
    size_t trim(size_t) { return 0; }
    StackPoolStats stats() { return {}; }
};
static CachingAllocator g_ca;

// the executing vCPU must not be a submitter's one; at most vcpu_num distinct vCPUs execute the tasks of one pool
// vCPUs that join the pool from outside (join_current_vcpu_into_workpool): OS threads of the harness with their own
// photon environment; they serve the pool until its destructor sends them away, and the destructor has to wait for them
static int g_nj = 0;
static std::vector<std::thread> g_joined;
static std::atomic<int> g_joined_in{0}, g_joined_out{0};
static vh::NamedCounter c_joined("joined_vcpus_served"), c_on_joined("tasks_on_joined_vcpus");
static std::atomic<void*> g_joined_vcpu[4];
static VSlot* note_vcpu(Rec* r, void* v) {
    for (int i = 0; i < g_np; ++i)
        if (v == g_sub_vcpus[i].load(vh::MO))
            vh::violation("vcpu/ran-on-submitter-vcpu:" + std::string(kind_name(r)), "a task was executed on a submitter's vCPU instead of a vCPU of the pool", rec_json(r));
    for (int i = 0; i < MAXV; ++i) {
        void* cur = g_vslot[i].vcpu.load(vh::MO);
        if (cur == nullptr) {
            void* exp = nullptr;
            if (g_vslot[i].vcpu.compare_exchange_strong(exp, v, vh::MO)) {
                int n = g_nvslot.fetch_add(1, vh::MO) + 1;
                if (n > g_nv + g_nj)
                    vh::violation("vcpu/more-executing-vcpus-than-pool-size", "tasks of one pool ran on more distinct vCPUs than the pool has",
                                  vh::JObj().kv("distinct", n).kv("vcpu_num", g_nv).kv("joined_vcpus", g_nj).str());
                return &g_vslot[i];
            }
            cur = exp;
        }
        if (cur == v) return &g_vslot[i];
    }
    return nullptr;
}

// ------------------------------------------------------------------ the task body
static void run_body(Rec* r, const uint64_t* functor_magic) {
    if (r->exec.fetch_add(1, vh::MO) != 0)
        vh::violation("exec/ran-twice:" + std::string(kind_name(r)) + ":" + mode_name(), "one accepted task was executed more than once", rec_json(r));
    if (g_dtor_entered.load(vh::MO)) c_queued_at_dtor.add();
    if (*functor_magic != r->magic)
        vh::violation("functor/by-value-state-corrupted:" + std::string(kind_name(r)), "the state captured by value in the task object differs at body entry", rec_json(r));
    if (!CURRENT)
        vh::violation("vcpu/body-outside-photon", "a task body runs on an OS thread without a photon environment", rec_json(r));
    void* v = get_vcpu();
    r->vcpu.store(v, vh::MO);
    for (int j = 0; j < g_nj; ++j) if (g_joined_vcpu[j].load(vh::MO) == v) { c_on_joined.add(); break; }
    VSlot* slot = note_vcpu(r, v);
    if (slot) {
        if (slot->inflight.fetch_add(1, vh::MO) > 0) c_overlap.add();      // the dispatcher looped while an earlier task slept/yielded
        if (g_mode > 0) {
            void* me = (void*)CURRENT;
            for (auto& t : slot->ths) {
                void* cur = t.load(vh::MO);
                if (cur == me) { c_reuse.add(); break; }
                if (cur == nullptr) { t.store(me, vh::MO); break; }     // only this vCPU writes its slot
            }
        }
    }
    r->payload = r->magic ^ 0x5a5a;
    switch (r->body) {
    case B_NOP: break;
    case B_YIELD: c_bodies_yield.add(); for (int i = 0; i < r->yields; ++i) thread_yield(); break;
    case B_SLEEP: c_bodies_sleep.add(); thread_usleep(r->sleep_us); break;
    }
    if (*functor_magic != r->magic)     // the task object must still be alive and intact while its body runs
        vh::violation("functor/by-value-state-corrupted:" + std::string(kind_name(r)), "the state captured by value in the task object changed while its body was running", rec_json(r));
    if (get_vcpu() != v) note_vcpu(r, get_vcpu());      // resumed elsewhere: that one must be a vCPU of the pool as well
    if (slot) slot->inflight.fetch_sub(1, vh::MO);
    if (g_dtor_entered.load(vh::MO)) c_running_at_dtor.add();
    if (r->kind == T_ASYNC) g_subs[r->sub].async_finished.fetch_add(1, vh::MO);
    g_finished.fetch_add(1, vh::MO);
    vh::event();
    vh::progress();
    r->finished.store(1, vh::MO);
}

// task objects: heap-allocated at exact size; the synchronous ones are freed right after call() returned
struct SyncFn {
    Rec* r;
    uint64_t magic;
    void operator()() { run_body(r, &magic); }
};
struct SyncFnArg {
    Rec* r;
    uint64_t magic;
    void operator()(uint64_t a, Rec* rr) {
        if (a != magic || rr != r)
            vh::violation("functor/call-arguments-corrupted", "the arguments forwarded by call(f, args...) differ inside the task", rec_json(r));
        run_body(r, &magic);
    }
};
struct AsyncFn {
    Rec* r;
    uint64_t magic;
    void operator()() { run_body(r, &magic); }
    ~AsyncFn() {
        Rec* rr = r;
        int fin = rr->finished.load(vh::MO);
        if (rr->deleted.fetch_add(1, vh::MO) != 0)
            vh::violation("async/task-object-deleted-twice:" + mode_name(), "an async task object was deleted more than once", rec_json(rr));
        if (!fin)
            vh::violation("async/task-object-deleted-before-it-ran:" + mode_name(), "an async task object was deleted although its body had not finished", rec_json(rr));
        magic = 0;
    }
};

// ------------------------------------------------------------------ submitting
static Rec* new_rec(Sub& s, vh::Rng& rng, TaskKind kind, int sleepy /* 0 mix, 1 mostly sleeping */) {
    auto r = new Rec;
    r->id = (uint32_t)g_next_id.fetch_add(1, vh::MO);
    r->sub = (uint16_t)s.id;
    r->kind = kind;
    r->magic = vh::mix(vh::args().xseed(), r->id) | 1;
    int b = rng.below(10);
    if (sleepy ? b < 8 : b < 3) { r->body = B_SLEEP; r->sleep_us = (uint16_t)(sleepy ? rng.range(100, 500) : rng.range(10, 500)); }
    else if (b < (sleepy ? 9 : 6)) { r->body = B_YIELD; r->yields = (uint8_t)rng.range(1, 4); }
    else r->body = B_NOP;
    r->auto_ctx = kind != T_ASYNC && rng.chance(1, 3);
    s.recs.push_back(r);
    return r;
}

static void after_call(Sub& s, Rec* r) {
    // right after call() returned: the task must have finished, and its plain payload must be visible
    if (r->finished.load(vh::MO) != 1)
        vh::violation("call/returned-before-task-finished:" + ctx_name(r) + ":" + mode_name(), "call() returned although its task had not finished", rec_json(r));
    else if (r->payload != (r->magic ^ 0x5a5a))
        vh::violation("call/payload-not-visible-after-return:" + ctx_name(r), "the data written by the task is not visible after call() returned", rec_json(r));
}

template <typename Ctx> static void do_sync(Sub& s, Rec* r) {
    if (r->kind == T_SYNC) {
        auto f = new SyncFn{r, r->magic};
        g_pool->call<Ctx>(*f);
        s.state.store(S_IDLE, vh::MO);
        after_call(s, r);
        delete f;
    } else {
        auto f = new SyncFnArg{r, r->magic};
        uint64_t a = r->magic;
        g_pool->call<Ctx>(*f, a, r);
        s.state.store(S_IDLE, vh::MO);
        after_call(s, r);
        delete f;
    }
}

static void submit(Sub& s, Rec* r) {
    c_tasks.add();
    (s.is_photon ? c_photon_tasks : c_os_tasks).add();
    s.cur.store(r, std::memory_order_release);   // (the supervisor prints the record)
    if (r->kind == T_ASYNC) {
        c_async.add();
        auto f = new AsyncFn{r, r->magic};
        s.async_submitted.fetch_add(1, vh::MO);
        g_accepted.fetch_add(1, vh::MO);
        s.state.store(S_IN_ASYNC_CALL, vh::MO);
        g_pool->async_call(f);
        s.state.store(S_IDLE, vh::MO);
        return;
    }
    c_sync.add();
    if (r->kind == T_SYNC_ARG) c_sync_arg.add();
    g_accepted.fetch_add(1, vh::MO);
    s.state.store(S_IN_CALL, vh::MO);
    if (r->auto_ctx) { c_auto.add(); do_sync<AutoContext>(s, r); }
    else if (s.is_photon) do_sync<PhotonContext>(s, r);
    else do_sync<StdContext>(s, r);
}

static void drain(Sub& s) {
    c_drains.add();
    s.state.store(S_DRAIN, vh::MO);
    wait_until(s.is_photon, [&] { return s.async_finished.load(vh::MO) >= s.async_submitted.load(vh::MO); });
    s.state.store(S_IDLE, vh::MO);
}

static void program(Sub& s, vh::Rng& rng, uint64_t ntasks) {
    uint64_t left = ntasks;
    while (left) {
        int what = rng.below(10);
        if (what < 5) {                         // a burst of async calls, often larger than the ring
            uint64_t b = rng.chance(1, 2) ? rng.range(1, 3 * g_cap + 2) : rng.range(1, 6);
            b = std::min<uint64_t>(std::min<uint64_t>(b, left), 96);
            if (b > g_cap) c_bursts_gt_ring.add();
            for (uint64_t i = 0; i < b; ++i) submit(s, new_rec(s, rng, T_ASYNC, 0));
            left -= b;
            if (rng.chance(1, 3)) drain(s);
        } else if (what < 9) {                  // some synchronous calls
            uint64_t n = std::min<uint64_t>(rng.range(1, 4), left);
            for (uint64_t i = 0; i < n; ++i) submit(s, new_rec(s, rng, rng.chance(1, 3) ? T_SYNC_ARG : T_SYNC, 0));
            left -= n;
        } else {                                // let the workers run dry (idle workers must be woken by the next send)
            if (rng.chance(1, 2)) drain(s);
            pause_us(s.is_photon, rng.pick<uint64_t>({50, 300, 1500, 3000}));
        }
        if (s.is_photon && rng.chance(1, 4)) thread_yield();
    }
}

// ------------------------------------------------------------------ roles per round (a pure function of the seed)
static int role(int round, int which) {        // index into g_subs; 0 = the main OS thread
    vh::Rng r(vh::mix(vh::args().xseed(), 7777 + round * 2 + which));
    if (r.chance(1, 3)) return 0;
    return 1 + (int)r.below(g_nsub);
}

static void create_pool(Sub& s, int round) {
    s.state.store(S_CREATE, vh::MO);
    for (auto& v : g_vslot) {
        v.vcpu.store(nullptr, vh::MO); v.inflight.store(0, vh::MO);
        for (auto& t : v.ths) t.store(nullptr, vh::MO);
    }
    g_nvslot.store(0, vh::MO);
    g_dtor_entered.store(0, vh::MO);
    g_pool = new WorkPool(g_nv, g_ev, INIT_IO_NONE, g_mode, g_ring);
    if (g_pool->get_vcpu_num() != g_nv) vh::machinery_failure("pool has not the requested number of vCPUs");
    g_joined_in.store(0, vh::MO); g_joined_out.store(0, vh::MO);
    for (int j = 0; j < g_nj; ++j) {
        auto pool = g_pool;
        g_joined.emplace_back([pool, j] {
            if (photon::init(g_ev, INIT_IO_NONE) != 0) vh::machinery_failure("photon::init failed in a joining vCPU");
            g_joined_vcpu[j].store(get_vcpu(), vh::MO);
            // runs at the first suspension of this vCPU's main thread, i.e. when it is inside the pool's main loop
            // (registered): the pool must not be destroyed before that
            thread_create([](void*) -> void* { g_joined_in.fetch_add(1, std::memory_order_release); return nullptr; }, nullptr, 64 * 1024);
            vh::progress();
            pool->join_current_vcpu_into_workpool();        // returns when the pool is being destroyed
            g_joined_out.fetch_add(1, vh::MO);
            c_joined.add();
            photon::fini();
        });
    }
    vh::progress();
    s.state.store(S_IDLE, vh::MO);
    g_round_open.store(round + 1, std::memory_order_release);
}

static void check_rec(Rec* r, const char* when) {
    int e = r->exec.load(vh::MO), f = r->finished.load(vh::MO), d = r->deleted.load(vh::MO);
    std::string k = std::string(kind_name(r)) + ":" + mode_name();
    if (e == 0)
        vh::violation(std::string("destroy/accepted-task-never-ran:") + k, std::string("~WorkPool returned but an accepted task was never executed (") + when + ")", rec_json(r));
    else if (e > 1)
        vh::violation(std::string("exec/ran-twice:") + k, "one accepted task was executed more than once", rec_json(r));
    else if (!f)
        vh::violation(std::string("destroy/returned-before-task-finished:") + k, std::string("~WorkPool returned although an accepted task was still running (") + when + ")", rec_json(r));
    else if (r->payload != (r->magic ^ 0x5a5a))
        vh::violation("destroy/payload-not-visible", "the data written by a task is not visible after ~WorkPool returned", rec_json(r));
    if (r->kind == T_ASYNC && f && d != 1)
        vh::violation(std::string(d ? "async/task-object-deleted-twice:" : "async/task-object-never-deleted:") + mode_name(),
                      d ? "an async task object was deleted more than once" : "an async task object had not been deleted when ~WorkPool returned", rec_json(r));
    if (r->kind != T_ASYNC && d != 0)
        vh::machinery_failure("deleted counter of a synchronous task moved");
}

static void destroy_pool(Sub& s, vh::Rng& rng, int round) {
    s.state.store(S_WAIT_SUBMITTERS, vh::MO);
    wait_until(s.is_photon, [&] { return g_done_submitting.load(std::memory_order_acquire) >= (round + 1) * g_nsub; }, 200);
    s.state.store(S_IDLE, vh::MO);
    // nobody else submits any more; the last accepted tasks: a final burst of (mostly sleeping) async tasks
    uint64_t fb = rng.chance(1, 8) ? 0 : rng.range(1, 2 * g_cap + 2 * g_nv + 2);
    fb = std::min<uint64_t>(fb, 80);
    for (uint64_t i = 0; i < fb; ++i) submit(s, new_rec(s, rng, T_ASYNC, 1));
    c_final_burst.add(fb);
    if (rng.chance(1, 4)) pause_us(s.is_photon, rng.range(20, 400));
    wait_until(s.is_photon, [&] { return g_joined_in.load(std::memory_order_acquire) >= g_nj; }, 200);
    s.state.store(S_DESTROY, vh::MO);
    g_dtor_entered.store(1, vh::MO);
    delete g_pool;
    g_pool = nullptr;
    s.state.store(S_IDLE, vh::MO);
    // (tasks are checked below, before the joined OS threads are joined: the destructor alone has to have waited)
    c_pools.add();
    (s.is_photon ? c_dtor_photon : c_dtor_os).add();
    for (int i = 0; i <= g_nsub; ++i) {
        auto& o = g_subs[i];
        for (; o.checked < o.recs.size(); ++o.checked) check_rec(o.recs[o.checked], "right after the destructor");
    }
    for (auto& t : g_joined) t.join();
    g_joined.clear();
    vh::progress();
    g_round_closed.store(round + 1, std::memory_order_release);
}

static void submitter_main(Sub& s) {
    if (s.is_photon) s.th.store(photon::CURRENT, std::memory_order_release);
    vh::Rng rng(vh::mix(vh::args().xseed(), 100 + s.id));
    vh::progress();     // start-up (OS threads, vCPUs, photon threads) counts as progress for the stuck detector
    for (int round = 0; round < g_rounds; ++round) {
        s.state.store(S_WAIT_ROUND, vh::MO);
        if (role(round, 0) == s.id) {
            wait_until(s.is_photon, [&] { return g_round_closed.load(std::memory_order_acquire) >= round; }, 500);
            create_pool(s, round);
        } else wait_until(s.is_photon, [&] { return g_round_open.load(std::memory_order_acquire) > round; }, 500);
        s.state.store(S_IDLE, vh::MO);
        if (s.id != 0) {
            program(s, rng, g_tasks_per_sub);
            if (rng.chance(1, 2)) drain(s);
            g_done_submitting.fetch_add(1, std::memory_order_acq_rel);
        }
        if (role(round, 1) == s.id) destroy_pool(s, rng, round);
    }
    s.state.store(S_WAIT_ROUND, vh::MO);
    wait_until(s.is_photon, [&] { return g_round_closed.load(std::memory_order_acquire) >= g_rounds; }, 1000);
    s.state.store(S_FINISHED, vh::MO);
}

// ------------------------------------------------------------------ stuck detector
static bool on_stuck(std::string& key, std::string& what, std::string& wit) {
    vh::JArr a;
    bool proved = false;
    for (int i = 0; i <= g_nsub; ++i) {
        auto& s = g_subs[i];
        int st = s.state.load();
        Rec* r = s.cur.load(std::memory_order_acquire);
        vh::JObj o;
        o.kv("submitter", i).kv("photon", s.is_photon).kv("state", state_name[st]);
        if ((st == S_IN_CALL || st == S_IN_ASYNC_CALL) && r) o.raw("task", rec_json(r));
        if (st == S_DRAIN) o.kv("async_submitted", s.async_submitted.load()).kv("async_finished", s.async_finished.load());
        a.raw(o.str());
        if (st == S_IN_CALL && r && r->finished.load() == 1 && !proved) {
            // every finished task ticks the progress counter, so this flag has been set for the whole silence window
            proved = true;
            key = "call/never-returns-after-task-finished:" + ctx_name(r) + ":" + mode_name();
            what = "call() has not returned although its task's finished flag has been set for the whole silence window (lost completion signal)";
        }
    }
    wit = vh::JObj().raw("submitters", a.str()).kv("accepted", g_accepted.load()).kv("finished", g_finished.load())
              .kv("round_open", g_round_open.load()).kv("round_closed", g_round_closed.load()).kv("mode", g_mode).kv("vcpu_num", g_nv)
              .kv("ring_size", g_ring).str();
    if (!proved) {
        // an accepted task that never ran, or a destructor that does not return, cannot be told from a slow pool by the
        // ledger alone (idleness of the pool's vCPUs is not observable): unexplained hang
        bool in_dtor = false, in_call = false, in_async = false;
        for (int i = 0; i <= g_nsub; ++i) {
            int st = g_subs[i].state.load();
            in_dtor |= st == S_DESTROY; in_call |= st == S_IN_CALL; in_async |= st == S_IN_ASYNC_CALL;
        }
        key = std::string(in_dtor ? "destructor-does-not-return" : in_call ? "call-task-not-finished" : in_async ? "async_call-does-not-return" : "workpool-workload") + ":" + mode_name();
        what = "no task finished; " + wit;
    }
    return proved;
}

int main(int argc, char** argv) {
    vh::init(argc, argv);
    vh::Rng r(vh::args().xseed());
    g_nv = vh::args().geti("vcpus", r.pick({1, 2, 4}));
    { vh::Rng rj(vh::mix(vh::args().xseed(), 4242)); g_nj = vh::args().geti("joined", rj.pick({0, 0, 1, 1, 2}));
      // a pool without workers of its own: only the vCPUs that joined serve it, and only the deregistration wait of
      // the destructor stands between it and their unfinished tasks
      if (g_nj > 0 && !vh::args().has("vcpus") && rj.chance(1, 3)) g_nv = 0; }
    int m = r.below(6);
    g_mode = vh::args().geti("mode", m < 2 ? -1 : m < 4 ? 0 : r.pick({1, 2, 3, 8, 32}));
    g_ring = vh::args().geti("ring", r.pick({1, 2, 4, 64}));
    g_cap = 2; while ((int)g_cap < g_ring) g_cap *= 2;
    g_ev = vh::args().geti("ev", r.pick<uint64_t>({INIT_EVENT_NONE, INIT_EVENT_EPOLL, INIT_EVENT_EPOLL, INIT_EVENT_EPOLL_NG}));
    int subs = r.below(6);          // 0: photon only, 1: OS only, else both
    g_np = subs == 1 ? 0 : r.pick({1, 1, 2});
    g_tpv = g_np ? r.range(1, 4) : 0;
    g_no = subs == 0 ? 0 : r.range(1, 3);
    g_np = vh::args().geti("psub", g_np); g_tpv = vh::args().geti("tpv", g_tpv); g_no = vh::args().geti("osub", g_no);
    if (g_np == 0) g_tpv = 0;
    if (g_np * g_tpv + g_no == 0) g_no = 1;
    g_nsub = g_np * g_tpv + g_no;
    if (g_nsub >= MAXSUB || g_np > 8) vh::machinery_failure("too many submitters");
    g_rounds = vh::args().geti("rounds", vh::args().thorough() ? 8 : 5);
    uint64_t total = vh::args().geti("tasks", vh::args().thorough() ? 6000 : 3000);
    if (vh::is_tsan()) total /= 4;
    total /= vh::args().shape_div();
    g_stack_mode = r.pick({0, 1, 1, 2, 2});
    if (g_stack_mode != 1 && g_mode >= 0 && (vh::is_asan() || vh::is_tsan())) g_stack_mode = 1;     // see "thread stacks" above
    g_stack_mode = vh::args().geti("stacks", g_stack_mode);
    if (g_stack_mode == 0 && g_mode >= 0) total /= 4;
    else if (vh::is_tsan() && g_mode >= 0) total /= 3;      // creating a TSan fiber per photon thread costs tens of milliseconds
    if (g_stack_mode == 1 && set_photon_thread_stack_allocator(g_ca) != 0) vh::machinery_failure("cannot install the stack allocator");
    if (g_stack_mode == 2) {
        use_pooled_stack_allocator();
        pooled_stack_trim_threshold(-1ULL);     // as perf_workpool does: keep every stack (a burst has > 128 tasks asleep at once)
    }
    // photon::init() sets a process-wide plain bool (`reset_handle_registed`, photon.cpp) without synchronisation; the workers
    // of a pool call photon::init() concurrently. Unless --cfg warm=0, one init/fini on the main thread sets the flag before
    // any pool exists, so that TSan does not stop every multi-vCPU execution at that report (it is outside this property).
    if (vh::args().geti("warm", 1)) {
        if (photon::init(INIT_EVENT_NONE, INIT_IO_NONE) != 0) vh::machinery_failure("photon::init failed");
        photon::fini();
        if (CURRENT) vh::machinery_failure("CURRENT is still set after photon::fini()");
    }
    g_tasks_per_sub = std::max<uint64_t>(4, total / g_rounds / g_nsub);

    vh::config("joined_vcpus", g_nj); vh::config("vcpu_num", g_nv); vh::config("mode", g_mode); vh::config("ring_size", g_ring); vh::config("event_engine", (int64_t)g_ev);
    vh::config("photon_submitters", std::to_string(g_np) + "x" + std::to_string(g_tpv)); vh::config("os_submitters", g_no);
    vh::config("stacks", g_stack_mode == 0 ? "default" : g_stack_mode == 1 ? "harness-cache" : "photon-pooled");
    vh::config("rounds", g_rounds); vh::config("tasks_per_submitter_per_round", (int64_t)g_tasks_per_sub);
    using namespace photon::verif;
    vh::arm_stalls(r, {P_WORKPOOL_AFTER_CREATE, P_SEM_SIGNAL_AFTER_RESUME, P_SEM_WAIT_AFTER_DEFER, P_WAITQ_RESUME, P_PRELOCKED_INTERRUPT,
                       P_RESUME_BEFORE_LOCK, P_INTERRUPT_BEFORE_LOCK, P_RING_PUSH_CLAIMED, P_RING_POP_CLAIMED,
                       P_RINGCHAN_SEND_AFTER_PUSH, P_RINGCHAN_RECV_BEFORE_IDLE});

    // submitter table: [0] main OS thread, [1 .. np*tpv] photon threads, then OS threads
    for (int i = 0; i <= g_nsub; ++i) g_subs[i].id = i;
    for (int i = 0; i < g_np * g_tpv; ++i) { g_subs[1 + i].is_photon = true; g_subs[1 + i].vcpu = i % g_np; }
    for (auto& v : g_sub_vcpus) v.store(nullptr);

    vh::start_supervisor(on_stuck, vh::is_tsan() ? 15000 : 5000);   // creating a pool (OS threads + photon::init each) alone can take seconds under TSan on a loaded machine

    std::thread vth;
    if (g_np) {
        vth = std::thread([&] {
            g_vc.run(g_np, nullptr, [&](int v) {
                g_sub_vcpus[v].store((void*)get_vcpu(), std::memory_order_release);
                g_pvcpus_ready.fetch_add(1, std::memory_order_acq_rel);
                vh::progress();
                // no submitter starts before every submitter vCPU is known to the bodies
                while (g_pvcpus_ready.load(std::memory_order_acquire) < g_np) thread_usleep(100);
                std::vector<join_handle*> jh;
                for (int i = 0; i < g_np * g_tpv; ++i)
                    if (g_subs[1 + i].vcpu == v)
                        jh.push_back(thread_enable_join(thread_create11(256 * 1024, [i] { submitter_main(g_subs[1 + i]); })));
                // an interrupter per submitter vCPU: thread_interrupt() of a photon thread that is suspended inside
                // call() must not make call() return before its task finished
                std::atomic<bool> stop_intr{false};
                auto ih = thread_enable_join(thread_create11(128 * 1024, [&, v] {
                    vh::Rng ir(vh::mix(vh::args().xseed(), 7700 + v));
                    while (!stop_intr.load(std::memory_order_acquire)) {
                        for (int i = 0; i < g_np * g_tpv; ++i) {
                            auto& sb = g_subs[1 + i];
                            if (sb.vcpu != v || sb.state.load(vh::MO) != S_IN_CALL || !ir.chance(1, 3)) continue;
                            if (auto t = sb.th.load(std::memory_order_acquire)) { thread_interrupt(t, EINTR); c_call_interrupted.add(); }
                        }
                        thread_usleep(ir.range(30, 400));
                    }
                }));
                for (auto h : jh) thread_join(h);
                for (int i = 0; i < g_np * g_tpv; ++i) if (g_subs[1 + i].vcpu == v) g_subs[1 + i].th.store(nullptr);
                stop_intr.store(true, std::memory_order_release);
                thread_join(ih);
            });
        });
    }
    wait_until(false, [&] { return g_pvcpus_ready.load(std::memory_order_acquire) >= g_np; });
    std::vector<std::thread> os;
    for (int i = 0; i < g_no; ++i) os.emplace_back([i] { submitter_main(g_subs[1 + g_np * g_tpv + i]); });
    submitter_main(g_subs[0]);
    vh::progress();
    for (auto& t : os) t.join();
    if (vth.joinable()) vth.join();
    vh::progress();

    // end of the execution: nothing may have run a second time after its pool was destroyed
    uint64_t n = 0;
    for (int i = 0; i <= g_nsub; ++i)
        for (auto rc : g_subs[i].recs) { check_rec(rc, "end of the execution"); ++n; }
    if (n != g_accepted.load()) vh::machinery_failure("ledger lost a record");
    if (g_finished.load() != n)
        vh::violation("exec/finished-count-differs-from-accepted", "the number of finished task bodies differs from the number of accepted tasks",
                      vh::JObj().kv("accepted", n).kv("finished", g_finished.load()).str());

    uint64_t ring_full = vh::cov(C_WORKPOOL_RING_FULL), new_thread = vh::cov(C_WORKPOOL_NEW_THREAD);
    bool nontrivial = n >= 40 && c_pools.get() == g_rounds &&
                      (ring_full + c_running_at_dtor.get() + c_queued_at_dtor.get() + c_overlap.get() + c_reuse.get()) > 0;
    auto b = [](int64_t v) { return std::to_string(vh::log2bucket(v)); };
    vh::set_sig("v" + std::to_string(g_nv) + "|m" + std::to_string(g_mode) + "|r" + std::to_string(g_ring) + "|e" + std::to_string(g_ev) +
                    "|p" + std::to_string(g_np) + "x" + std::to_string(g_tpv) + "|o" + std::to_string(g_no) + "|s" + std::to_string(g_stack_mode) + "|" +
                    vh::cov_signature({C_WORKPOOL_RING_FULL, C_WORKPOOL_NEW_THREAD}) + "dtor:" + b(c_running_at_dtor.get()) + "/" + b(c_queued_at_dtor.get()) +
                    ",ovl:" + b(c_overlap.get()) + ",reuse:" + b(c_reuse.get()),
                nontrivial);
    vh::sample(vh::JObj().kv("vcpu_num", g_nv).kv("mode", g_mode).kv("ring_size", g_ring).kv("photon_submitters", g_np * g_tpv)
                   .kv("os_submitters", g_no).kv("pools", c_pools.get()).kv("tasks", n).kv("sync", c_sync.get()).kv("async", c_async.get())
                   .kv("ring_full", ring_full).kv("new_threads", new_thread).kv("running_at_dtor", c_running_at_dtor.get())
                   .kv("queued_at_dtor", c_queued_at_dtor.get()).kv("overlap", c_overlap.get()).kv("pooled_reuse", c_reuse.get()).str());
    return vh::finish();
}
