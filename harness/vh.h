// vh.h - runtime shared by all verification harnesses (DESIGN.md 2.3, 2.4).
// Header-only; each harness is one translation unit.
#pragma once
#include <photon/photon.h>
#include <photon/thread/thread.h>
#include <photon/thread/thread11.h>
#include <photon/io/fd-events.h>
#include <photon/common/alog.h>
#include <photon/common/verif-hooks.h>

#include <atomic>
#include <cstdint>
#include <cstdio>
#include <cstdlib>
#include <cstring>
#include <cinttypes>
#include <string>
#include <vector>
#include <map>
#include <unordered_set>
#include <functional>
#include <thread>
#include <mutex>
#include <algorithm>
#include <sstream>
#include <time.h>
#include <unistd.h>
#include <sched.h>
#include <sys/syscall.h>
#include <dirent.h>

#ifndef VH_FLAVOR
#define VH_FLAVOR "plain"
#endif

namespace vh {

// In the tsan flavor every monitor atomic is relaxed, so that the monitor adds
// no happens-before edge that could hide a missing one in the code under test.
constexpr std::memory_order MO = std::memory_order_relaxed;

inline bool is_tsan() { return !strcmp(VH_FLAVOR, "tsan"); }
inline bool is_asan() { return !strcmp(VH_FLAVOR, "asan"); }

inline uint64_t clock_us(clockid_t c) {
    struct timespec tv;
    clock_gettime(c, &tv);
    return tv.tv_sec * 1000000ull + tv.tv_nsec / 1000;
}
// the clock photon::now is derived from
inline uint64_t boottime_us() { return clock_us(CLOCK_BOOTTIME); }
inline uint64_t mono_ns() {
    struct timespec tv;
    clock_gettime(CLOCK_MONOTONIC, &tv);
    return tv.tv_sec * 1000000000ull + tv.tv_nsec;
}

// ------------------------------------------------------------------ PRNG
struct Rng {
    uint64_t s;
    explicit Rng(uint64_t seed = 1) : s(seed * 0x9E3779B97F4A7C15ull + 0x1234567) { next(); next(); }
    uint64_t next() {   // splitmix64
        uint64_t z = (s += 0x9E3779B97F4A7C15ull);
        z = (z ^ (z >> 30)) * 0xBF58476D1CE4E5B9ull;
        z = (z ^ (z >> 27)) * 0x94D049BB133111EBull;
        return z ^ (z >> 31);
    }
    uint64_t below(uint64_t n) { return n ? next() % n : 0; }
    uint64_t range(uint64_t lo, uint64_t hi) { return lo + below(hi - lo + 1); }   // inclusive
    bool chance(uint64_t num, uint64_t den) { return below(den) < num; }
    template <typename T> const T& pick(const std::vector<T>& v) { return v[below(v.size())]; }
    template <typename T> T pick(std::initializer_list<T> l) { return *(l.begin() + below(l.size())); }
};
inline uint64_t mix(uint64_t a, uint64_t b) {
    Rng r(a ^ (b * 0xD6E8FEB86659FD93ull));
    return r.next();
}
inline uint64_t hash_bytes(const void* p, size_t n, uint64_t h = 1469598103934665603ull) {
    auto c = (const unsigned char*)p;
    for (size_t i = 0; i < n; ++i) { h ^= c[i]; h *= 1099511628211ull; }
    return h;
}

// ------------------------------------------------------------------ JSON (write only)
inline std::string jstr(const std::string& s) {
    std::string o = "\"";
    for (unsigned char c : s) {
        if (c == '"') o += "\\\"";
        else if (c == '\\') o += "\\\\";
        else if (c == '\n') o += "\\n";
        else if (c < 0x20 || c >= 0x7f) { char b[8]; snprintf(b, sizeof(b), "\\u%04x", c); o += b; }
        else o += (char)c;
    }
    return o + "\"";
}
struct JObj {
    std::string s = "{";
    bool first = true;
    JObj& raw(const std::string& k, const std::string& v) {
        if (!first) s += ",";
        first = false;
        s += jstr(k) + ":" + v;
        return *this;
    }
    JObj& kv(const std::string& k, const std::string& v) { return raw(k, jstr(v)); }
    JObj& kv(const std::string& k, const char* v) { return raw(k, jstr(v)); }
    JObj& kv(const std::string& k, int64_t v) { return raw(k, std::to_string(v)); }
    JObj& kv(const std::string& k, uint64_t v) { return raw(k, std::to_string(v)); }
    JObj& kv(const std::string& k, int v) { return raw(k, std::to_string(v)); }
    JObj& kv(const std::string& k, unsigned v) { return raw(k, std::to_string(v)); }
    JObj& kv(const std::string& k, bool v) { return raw(k, v ? "true" : "false"); }
    std::string str() const { return s + "}"; }
};
struct JArr {
    std::string s = "[";
    bool first = true;
    JArr& raw(const std::string& v) {
        if (!first) s += ",";
        first = false;
        s += v;
        return *this;
    }
    JArr& add(int64_t v) { return raw(std::to_string(v)); }
    JArr& add(const std::string& v) { return raw(jstr(v)); }
    std::string str() const { return s + "]"; }
};
inline std::string hex(const void* p, size_t n, size_t max = 64) {
    static const char* d = "0123456789abcdef";
    std::string o;
    auto c = (const unsigned char*)p;
    for (size_t i = 0; i < n && i < max; ++i) { o += d[c[i] >> 4]; o += d[c[i] & 15]; }
    if (n > max) o += "...";
    return o;
}

// ------------------------------------------------------------------ arguments
struct Args {
    uint64_t seed = 1;
    uint64_t exec = 0;
    std::string tier = "quick", out, hashes, scratch;
    std::map<std::string, std::string> cfg;
    bool thorough() const { return tier == "thorough"; }
    int64_t geti(const std::string& k, int64_t def) const {
        auto it = cfg.find(k);
        return it == cfg.end() ? def : strtoll(it->second.c_str(), nullptr, 0);
    }
    std::string gets(const std::string& k, const std::string& def) const {
        auto it = cfg.find(k);
        return it == cfg.end() ? def : it->second;
    }
    bool has(const std::string& k) const { return cfg.count(k); }
    // executions confined to one or two cores progress much more slowly: scale the work down
    uint64_t shape_div() const {
        auto s = gets("shape", "");
        return s == "one" ? 10 : s == "two" ? 4 : 1;
    }
    // the seed of this execution
    uint64_t xseed() const { return mix(seed, exec + 0x51ed27); }
};

// ------------------------------------------------------------------ global state
struct Violation { std::string key, what, witness; };

struct NamedCounter;
struct State {
    Args args;
    std::mutex mu;
    std::vector<Violation> violations;
    std::vector<std::string> samples;
    std::map<std::string, std::string> config;      // derived configuration, for the summary
    std::vector<NamedCounter*> counters;
    std::string sig;
    bool nontrivial = false;
    int exhaustive = -1;
    std::atomic<uint64_t> events{0};
    std::atomic<uint64_t> progress{0};
    std::atomic<uint64_t> inputs{0};
    std::unordered_set<uint64_t> nt_hashes;
    std::atomic<bool> written{false};
    std::atomic<uint64_t> stall_fired[photon::verif::P_MAX];
    uint32_t stall_den[photon::verif::P_MAX] = {0};
    uint32_t stall_max_ns[photon::verif::P_MAX] = {0};
    uint32_t stall_sleep_den = 0;
    // stuck detector
    std::function<bool(std::string&, std::string&, std::string&)> on_stuck;
    uint64_t silence_ms = 5000;
    std::atomic<bool> supervisor_stop{false};
    std::thread supervisor;
    std::string status = "ok", note, hang_key, hang_witness;
    uint64_t t_start_ns = 0;
};
inline State& st() { static State s; return s; }
inline Args& args() { return st().args; }

struct NamedCounter {
    const char* name;
    std::atomic<int64_t> v{0};
    explicit NamedCounter(const char* n) : name(n) {
        std::lock_guard<std::mutex> g(st().mu);
        st().counters.push_back(this);
    }
    void add(int64_t n = 1) { v.fetch_add(n, MO); }
    int64_t get() const { return v.load(MO); }
};

inline void event(uint64_t n = 1) { st().events.fetch_add(n, MO); }
inline void progress(uint64_t n = 1) { st().progress.fetch_add(n, MO); }

inline void violation(const std::string& key, const std::string& what, const std::string& witness_json = "null") {
    std::lock_guard<std::mutex> g(st().mu);
    for (auto& v : st().violations) if (v.key == key) return;     // one witness per key is enough
    if (st().violations.size() < 32) st().violations.push_back({key, what, witness_json});
    fprintf(stderr, "[vh] VIOLATION key=%s what=%s\n", key.c_str(), what.c_str());
}
inline size_t n_violations() {
    std::lock_guard<std::mutex> g(st().mu);
    return st().violations.size();
}
inline void sample(const std::string& json) {
    std::lock_guard<std::mutex> g(st().mu);
    if (st().samples.size() < 4) st().samples.push_back(json);
}
inline void config(const std::string& k, const std::string& v) {
    std::lock_guard<std::mutex> g(st().mu);
    st().config[k] = v;
}
inline void config(const std::string& k, int64_t v) { config(k, std::to_string(v)); }
inline void set_sig(const std::string& s, bool nontrivial) {
    std::lock_guard<std::mutex> g(st().mu);
    st().sig = s;
    st().nontrivial = nontrivial;
}
inline void set_exhaustive(bool e) { st().exhaustive = e; }
// input-quantified properties: count an evaluated input; remember the hash of non-trivial ones
inline void note_input(uint64_t hash, bool nontrivial) {
    st().inputs.fetch_add(1, MO);
    if (nontrivial) {
        std::lock_guard<std::mutex> g(st().mu);
        st().nt_hashes.insert(hash);
    }
}

inline const char* cov_name(uint32_t id);
inline const char* point_name(uint32_t id);

inline int log2bucket(uint64_t v) { int b = 0; while (v) { ++b; v >>= 1; } return b; }

// signature of an execution: the configuration plus which rare paths were hit (log2 buckets)
inline std::string cov_signature(std::initializer_list<uint32_t> ids) {
    std::string s;
    for (auto id : ids) {
        auto v = photon::verif::g_hooks.cov[id].load(MO);
        s += std::string(cov_name(id)) + ":" + std::to_string(log2bucket(v)) + ",";
    }
    return s;
}
inline uint64_t cov(uint32_t id) { return photon::verif::g_hooks.cov[id].load(MO); }

inline void write_summary() {
    auto& S = st();
    bool exp = false;
    if (!S.written.compare_exchange_strong(exp, true)) return;
    std::lock_guard<std::mutex> g(S.mu);
    JObj o;
    o.kv("status", S.status).kv("note", S.note).kv("flavor", VH_FLAVOR);
    o.kv("seed", S.args.seed).kv("exec", S.args.exec).kv("tier", S.args.tier);
    o.kv("events", S.events.load()).kv("progress", S.progress.load()).kv("inputs", S.inputs.load());
    o.kv("nontrivial", S.nontrivial).kv("sig", S.sig);
    if (S.exhaustive >= 0) o.kv("exhaustive", (bool)S.exhaustive);
    o.kv("distinct_nontrivial_inputs", (uint64_t)S.nt_hashes.size());
    o.kv("wall_ms", (uint64_t)((mono_ns() - S.t_start_ns) / 1000000));
    if (!S.hang_key.empty()) { o.kv("hang_key", S.hang_key); o.raw("hang_witness", S.hang_witness.empty() ? "null" : S.hang_witness); }
    JObj cfg;
    for (auto& kv : S.config) cfg.kv(kv.first, kv.second);
    o.raw("config", cfg.str());
    JObj cv;
    for (uint32_t i = 1; i < photon::verif::C_MAX; ++i) {
        auto v = photon::verif::g_hooks.cov[i].load(MO);
        if (v) cv.kv(cov_name(i), v);
    }
    o.raw("cov", cv.str());
    JObj cn;
    for (auto c : S.counters) cn.kv(c->name, c->get());
    for (uint32_t i = 1; i < photon::verif::P_MAX; ++i) {
        auto v = S.stall_fired[i].load(MO);
        if (v) cn.kv(std::string("stall_") + point_name(i), v);
    }
    o.raw("counters", cn.str());
    JArr va;
    for (auto& v : S.violations) va.raw(JObj().kv("key", v.key).kv("what", v.what).raw("witness", v.witness).str());
    o.raw("violations", va.str());
    JArr sa;
    for (auto& s : S.samples) sa.raw(s);
    o.raw("samples", sa.str());
    if (!S.args.out.empty()) {
        std::string tmp = S.args.out + ".tmp";
        FILE* f = fopen(tmp.c_str(), "w");
        if (f) { fputs(o.str().c_str(), f); fclose(f); rename(tmp.c_str(), S.args.out.c_str()); }
    } else {
        puts(o.str().c_str());
    }
    if (!S.args.hashes.empty() && !S.nt_hashes.empty()) {
        std::vector<uint64_t> v(S.nt_hashes.begin(), S.nt_hashes.end());
        std::sort(v.begin(), v.end());
        FILE* f = fopen(S.args.hashes.c_str(), "wb");
        if (f) { fwrite(v.data(), 8, v.size(), f); fclose(f); }
    }
}

// ------------------------------------------------------------------ stall points
inline void stall_handler(uint32_t id) {
    auto& S = st();
    auto den = S.stall_den[id];
    if (!den) return;
    static thread_local Rng r(S.args.xseed() ^ (uint64_t)syscall(SYS_gettid) * 0x9E3779B9ull);
    if (r.below(den)) return;
    S.stall_fired[id].fetch_add(1, MO);
    if (S.stall_sleep_den && r.below(S.stall_sleep_den) == 0) {
        struct timespec ts = {0, (long)r.range(50000, 500000)};
        nanosleep(&ts, nullptr);
        return;
    }
    if (S.stall_sleep_den && r.below(8) == 0) { sched_yield(); return; }
    uint64_t ns = r.range(50, S.stall_max_ns[id] ? S.stall_max_ns[id] : 20000);
    auto t0 = mono_ns();
    while (mono_ns() - t0 < ns) _mm_pause();
}
// arm a seeded subset of the given stall points
inline void arm_stalls(Rng& r, std::initializer_list<uint32_t> ids, bool allow_sleep = true) {
    auto& S = st();
    std::string desc;
    static const uint32_t dens[] = {8, 32, 128, 512, 2048, 4096};
    for (auto id : ids) {
        if (r.chance(1, 4)) continue;        // leave some unarmed
        S.stall_den[id] = dens[r.below(6)];
        S.stall_max_ns[id] = r.pick({2000u, 20000u, 20000u, 100000u});
        desc += std::string(point_name(id)) + "/" + std::to_string(S.stall_den[id]) + " ";
    }
    S.stall_sleep_den = allow_sleep ? r.pick({0u, 16u, 64u}) : 0;
    config("stalls", desc);
    photon::verif::g_hooks.point = &stall_handler;
}

// per-OS-thread scheduler state and CPU ticks used over a 300 ms window: tells a sleeping deadlock
// (all S, no CPU) from a spinning one or from plain starvation on a loaded machine
inline std::string os_threads_snapshot(uint64_t* total_ticks = nullptr) {
    auto read_all = [](std::map<int, std::pair<char, uint64_t>>& m) {
        char path[64];
        std::vector<int> tids;
        if (DIR* d = opendir("/proc/self/task")) {
            while (auto e = readdir(d)) if (e->d_name[0] >= '0' && e->d_name[0] <= '9') tids.push_back(atoi(e->d_name));
            closedir(d);
        }
        for (int t : tids) {
            snprintf(path, sizeof(path), "/proc/self/task/%d/stat", t);
            FILE* f = fopen(path, "r");
            if (!f) continue;
            char buf[1024];
            size_t n = fread(buf, 1, sizeof(buf) - 1, f);
            fclose(f);
            buf[n] = 0;
            char* rp = strrchr(buf, ')');
            if (!rp) continue;
            char state = 0;
            unsigned long ut = 0, stt = 0;
            // after ") ": state ppid pgrp session tty tpgid flags minflt cminflt majflt cmajflt utime stime
            sscanf(rp + 2, "%c %*d %*d %*d %*d %*d %*u %*u %*u %*u %*u %lu %lu", &state, &ut, &stt);
            m[t] = {state, ut + stt};
        }
    };
    std::map<int, std::pair<char, uint64_t>> a, b;
    read_all(a);
    struct timespec ts = {0, 300 * 1000 * 1000};
    nanosleep(&ts, nullptr);
    read_all(b);
    JArr arr;
    uint64_t total = 0;
    for (auto& kv : b) {
        uint64_t d = a.count(kv.first) ? kv.second.second - a[kv.first].second : 0;
        total += d;
        arr.raw(JObj().kv("tid", kv.first).kv("state", std::string(1, kv.second.first)).kv("cpu_ticks_in_300ms", d).str());
    }
    if (total_ticks) *total_ticks = total;
    return arr.str();
}

// ------------------------------------------------------------------ supervisor (stuck detector)
// on_stuck(key, what, witness) is called from the supervisor OS thread when the
// progress counter has not moved for silence_ms. It evaluates the property's
// wake condition over the harness ledger (atomics). Return true if the ledger
// proves a lost wake-up (violation); false otherwise (unexplained hang).
inline void supervisor_main() {
    auto& S = st();
    uint64_t last = S.progress.load(MO), last_change = mono_ns();
    while (!S.supervisor_stop.load()) {
        auto t0 = mono_ns();
        struct timespec ts = {0, 100 * 1000 * 1000};
        nanosleep(&ts, nullptr);
        auto t1 = mono_ns();
        if (t1 - t0 > 1000000000ull) { last_change = t1; continue; }      // we were frozen ourselves
        auto p = S.progress.load(MO);
        if (p != last) { last = p; last_change = t1; continue; }
        if ((t1 - last_change) / 1000000 < S.silence_ms) continue;
        if (S.supervisor_stop.load()) break;
        // Threads that burn CPU without completing an operation are either spinning on something that never
        // comes or merely starved on a loaded machine: give that case six times the silence window. A process
        // whose threads all sleep cannot be starved, so the plain window is enough there.
        uint64_t ticks = 0;
        std::string osth = os_threads_snapshot(&ticks);
        if (ticks > 3 && (mono_ns() - last_change) / 1000000 < 6 * S.silence_ms) continue;
        if (S.progress.load(MO) != p) continue;
        std::string key, what, wit = "null";
        bool proved = S.on_stuck ? S.on_stuck(key, what, wit) : false;
        if (S.supervisor_stop.load() || S.progress.load(MO) != p) { last_change = mono_ns(); continue; }
        wit = JObj().raw("ledger", wit).raw("os_threads", osth).str();
        if (getenv("VH_STUCK_PAUSE")) {     // debugging aid: keep the stuck process around for gdb
            fprintf(stderr, "[vh] STUCK pid=%d key=%s %s\n", getpid(), key.c_str(), wit.c_str());
            for (;;) pause();
        }
        if (proved) {
            violation(key, what, wit);
            S.status = "ok";
        } else {
            S.status = "hang";
            S.note = "no progress for " + std::to_string(S.silence_ms) + " ms: " + what;
            S.hang_key = key.empty() ? "unexplained" : key;
            S.hang_witness = wit;
        }
        write_summary();
        fflush(stderr);
        _exit(proved ? 10 : 11);
    }
}
inline void start_supervisor(std::function<bool(std::string&, std::string&, std::string&)> on_stuck,
                             uint64_t silence_ms = 5000) {
    auto& S = st();
    S.on_stuck = std::move(on_stuck);
    S.silence_ms = silence_ms;
    S.supervisor = std::thread(supervisor_main);
}

// ------------------------------------------------------------------ init / finish
inline void init(int argc, char** argv) {
    auto& S = st();
    S.t_start_ns = mono_ns();
    for (int i = 1; i < argc; ++i) {
        std::string a = argv[i];
        auto nextarg = [&]() -> std::string { return i + 1 < argc ? argv[++i] : ""; };
        if (a == "--seed") S.args.seed = strtoull(nextarg().c_str(), nullptr, 0);
        else if (a == "--exec") S.args.exec = strtoull(nextarg().c_str(), nullptr, 0);
        else if (a == "--tier") S.args.tier = nextarg();
        else if (a == "--out") S.args.out = nextarg();
        else if (a == "--hashes") S.args.hashes = nextarg();
        else if (a == "--scratch") S.args.scratch = nextarg();
        else if (a == "--cfg") {
            auto kv = nextarg();
            auto p = kv.find('=');
            if (p != std::string::npos) S.args.cfg[kv.substr(0, p)] = kv.substr(p + 1);
        }
    }
    for (auto& a : S.stall_fired) a.store(0);
    set_log_output_level(ALOG_FATAL + 1);       // the library logs every expected failure
    setvbuf(stderr, nullptr, _IOLBF, 0);
}
// to be called before objects that the stuck handler reads are destroyed
inline void stop_supervisor() {
    auto& S = st();
    S.supervisor_stop.store(true);
    if (S.supervisor.joinable()) S.supervisor.join();
}
inline int finish() {
    auto& S = st();
    S.supervisor_stop.store(true);
    if (S.supervisor.joinable()) S.supervisor.join();
    write_summary();
    return S.violations.empty() ? 0 : 10;
}
// the harness machinery itself is broken (not a verdict on the property)
[[noreturn]] inline void machinery_failure(const std::string& why) {
    auto& S = st();
    S.status = "error";
    S.note = why;
    fprintf(stderr, "[vh] machinery failure: %s\n", why.c_str());
    write_summary();
    _exit(12);
}
inline void inconclusive(const std::string& why) {
    auto& S = st();
    std::lock_guard<std::mutex> g(S.mu);
    S.status = "inconclusive";
    S.note = why;
}

// ------------------------------------------------------------------ vCPU set
// Runs body(i) as the main photon thread of n vCPUs (n OS threads). All vCPUs
// are online before any body starts; a vCPU that finished its body keeps
// scheduling (photon sleep, not an OS block) until all bodies finished, so that
// cross-vCPU wake-ups aimed at it are still served.
struct VCpus {
    int n = 0;
    std::vector<photon::vcpu_base*> vcpu;
    std::atomic<int> online{0}, finished{0};
    void wait_photon(std::atomic<int>& a, int target) {
        while (a.load(std::memory_order_acquire) < target) photon::thread_usleep(200);
    }
    void run(int n_, std::function<uint64_t(int)> flags, std::function<void(int)> body,
             std::function<void(int)> vinit = nullptr, std::function<void(int)> vfini = nullptr) {
        n = n_;
        vcpu.assign(n, nullptr);
        online = 0; finished = 0;
        std::vector<std::thread> ths;
        for (int i = 0; i < n; ++i) {
            ths.emplace_back([&, i] {
                if (photon::vcpu_init(flags ? flags(i) : 0) < 0) machinery_failure("vcpu_init failed");
                if (vinit) vinit(i);
                vcpu[i] = photon::get_vcpu();
                online.fetch_add(1, std::memory_order_acq_rel);
                wait_photon(online, n);
                body(i);
                finished.fetch_add(1, std::memory_order_acq_rel);
                wait_photon(finished, n);
                if (vfini) vfini(i);
                photon::vcpu_fini();
            });
        }
        for (auto& t : ths) t.join();
    }
};

// a barrier for photon threads spread over vCPUs (keeps the vCPUs scheduling)
struct PBarrier {
    std::atomic<int> arrived{0};
    int n;
    explicit PBarrier(int n_) : n(n_) {}
    void wait() {
        arrived.fetch_add(1, std::memory_order_acq_rel);
        while (arrived.load(std::memory_order_acquire) < n) photon::thread_usleep(100);
    }
};

// ------------------------------------------------------------------ names
inline const char* cov_name(uint32_t id) {
    using namespace photon::verif;
    switch (id) {
#define N(x) case x: return #x;
        N(C_INDIRECT_LOCK_RETRY) N(C_RESUME_FOUND_STANDBY) N(C_INTERRUPT_POSTLOCK_OUT) N(C_MUTEX_CONTEND_AGAIN)
        N(C_DEFER_TO_NEW_THREAD) N(C_CROSS_VCPU_WAKE) N(C_STEAL_RUNQ) N(C_STEAL_STANDBYQ) N(C_MUTEX_HANDOFF)
        N(C_MUTEX_TIMEOUT_RET) N(C_SEM_INTERRUPTED_RESUME) N(C_SEM_OOO_NONHEAD) N(C_SLEEPQ_POP_MIDDLE)
        N(C_SLEEPQ_WALK) N(C_MIGRATE) N(C_THREAD_DIE_JOINABLE) N(C_JOIN_WAITED) N(C_RWLOCK_WAIT) N(C_QRW_SLOWPATH)
        N(C_WAITQ_RESUME_ONE) N(C_RING_PUSH_FULL) N(C_RING_POP_EMPTY) N(C_RINGCHAN_CONSUMER_SLEPT)
        N(C_RINGCHAN_CONSUMER_SIGNALLED) N(C_RINGCHAN_SENDER_BACKOFF) N(C_RINGCHAN_RESCUE) N(C_RING_BATCH_WRAP)
        N(C_CHAN_SEND_WAIT) N(C_CHAN_RECV_WAIT) N(C_CHAN_SLOT_OVERWRITE) N(C_WORKPOOL_RING_FULL)
        N(C_WORKPOOL_NEW_THREAD) N(C_OOO_LEADER_COLLECT_OTHER) N(C_OOO_FOLLOWER_TIMEOUT) N(C_OOO_UNKNOWN_TAG)
        N(C_RPC_BODY) N(C_OBJCACHE_EXPIRE) N(C_OBJCACHE_RECYCLE_WAIT) N(C_OBJCACHE_CTOR_FAIL) N(C_RANGELOCK_WAITED)
        N(C_CACHE_EVICT_OPEN) N(C_CACHE_REFILL) N(C_CACHE_FIEMAP_USED) N(C_CACHE_RANGEMAP_USED)
        N(C_EPOLL_STALE_EVENT) N(C_EPOLL_BATCH_FULL) N(C_EPOLL_BOTH_DIR) N(C_EPOLL_WAIT_FD)
#undef N
    }
    return "C_?";
}
inline const char* point_name(uint32_t id) {
    using namespace photon::verif;
    switch (id) {
#define N(x) case x: return #x;
        N(P_INTERRUPT_BEFORE_LOCK) N(P_RESUME_BEFORE_LOCK) N(P_PRELOCKED_INTERRUPT) N(P_MUTEX_LOCK_AFTER_WAKE)
        N(P_MUTEX_UNLOCK) N(P_SEM_WAIT_AFTER_DEFER) N(P_SEM_SIGNAL_AFTER_RESUME) N(P_DIE_AFTER_NOTIFY) N(P_JOIN)
        N(P_WS_SCAN) N(P_MIGRATE) N(P_QRW_UNLOCK_SHARED) N(P_RWLOCK_UNLOCK) N(P_WAITQ_RESUME)
        N(P_RING_PUSH_CLAIMED) N(P_RING_POP_CLAIMED) N(P_RING_BATCH_PUSH_CLAIMED) N(P_RING_BATCH_POP_CLAIMED)
        N(P_RINGCHAN_SEND_AFTER_PUSH) N(P_RINGCHAN_RECV_BEFORE_IDLE) N(P_SPSC_PUSH) N(P_SPSC_POP)
        N(P_CHAN_SEND_BEFORE_WAIT) N(P_CHAN_RECV_BEFORE_WAIT) N(P_WORKPOOL_AFTER_CREATE) N(P_OOO_COLLECT)
        N(P_OBJCACHE_RELEASE) N(P_OBJCACHEV2_RELEASE) N(P_RANGELOCK_WAIT) N(P_CACHE_EVICT) N(P_CACHE_REFILL)
        N(P_EPOLL_EVENT) N(P_SWITCH_BEFORE_SAVE)
#undef N
    }
    return "P_?";
}

}  // namespace vh
