// vh_intr.h - ledger of thread_interrupt() calls with a unique errno code per interrupt.
// A blocking call that fails with an errno other than ETIMEDOUT must carry the code of an
// interrupt that was sent (call started) to this very thread. Lock-free, relaxed atomics.
#pragma once
#include "vh.h"

namespace vh {

struct IntrTarget {
    static constexpr int MAXCODES = 1 << 14;
    int id = 0;
    std::atomic<photon::thread*> th{nullptr};
    std::atomic<uint8_t>* codes = nullptr;   // 0 none, 1 sent, 2 reported once, 3 reported more than once
    std::atomic<int> next_code{0};
    std::atomic<uint64_t> reported{0}, rereported{0};
    void init(int id_) {
        id = id_;
        codes = new std::atomic<uint8_t>[MAXCODES];
        for (int k = 0; k < MAXCODES; ++k) codes[k].store(0);
    }
    static constexpr int CODE_BASE = 100000;
    int code_of(int k) const { return CODE_BASE + id * MAXCODES + k; }
    bool is_code(int e) const { return e >= code_of(0) && e < code_of(MAXCODES); }
    // interrupter side: returns false when the code space is exhausted
    bool send(int* code_out = nullptr) {
        auto t = th.load(std::memory_order_acquire);
        if (!t) return false;
        int k = next_code.fetch_add(1, MO);
        if (k >= MAXCODES) return false;
        codes[k].store(1, MO);               // recorded as sent before the call
        if (code_out) *code_out = code_of(k);
        photon::thread_interrupt(t, code_of(k));
        return true;
    }
    // target side. returns: 1 first report of a sent code, 2 the same code reported again,
    // 0 errno is not one of this thread's codes or was never sent (caller decides what that means)
    int reported_errno(int e) {
        if (!is_code(e)) return 0;
        int k = e - code_of(0);
        uint8_t s = codes[k].load(MO);
        if (s == 0) return 0;
        if (s == 1) { codes[k].store(2, MO); reported.fetch_add(1, MO); return 1; }
        codes[k].store(3, MO);
        rereported.fetch_add(1, MO);
        return 2;
    }
};

}  // namespace vh
