#include <photon/thread/thread.h>
#include <photon/thread/thread11.h>
#include <photon/common/alog.h>
#include <cstdio>
#include <unistd.h>
#include <signal.h>
using namespace photon;
int main() {
    alarm(5);
    signal(SIGALRM, [](int){ printf("HUNG: signal(1) never returned (5 s)\n"); _exit(3); });
    vcpu_init();
    semaphore sem(0, /*in_order_resume=*/false);
    int got = 0;
    auto a = thread_enable_join(thread_create11([&]{ sem.wait(3); got |= 1; }));
    auto b = thread_enable_join(thread_create11([&]{ sem.wait(1); got |= 2; }));
    thread_usleep(10000);              // both are queued: A (demand 3) at the head, B (demand 1) behind
    printf("signal(1)...\n"); fflush(stdout);
    sem.signal(1);                     // out-of-order mode: B should be resumed
    printf("signal returned\n");
    thread_usleep(10000);
    int after1 = got; printf("got=%d (expect 2)\n", got);
    sem.signal(3);
    thread_join(a); thread_join(b);
    vcpu_fini();
    return after1 == 2 ? 0 : 1;
}
