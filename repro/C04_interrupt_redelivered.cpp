// C04: one thread_interrupt() is reported twice / by a later, unrelated sleep.
// (a) thread_yield() returns the interrupt's code but leaves it pending: the next thread_usleep() sleeps its
//     full duration and then fails with the same code.
// (b) an interrupt sent to a READY thread that is not inside thread_yield() (e.g. created but not yet run)
//     stays pending and makes that thread's next sleep fail after its full duration.
// build: g++ -std=c++17 -O2 -I/repo/include repro.cpp -L<libdir> -lphoton -Wl,-rpath,<libdir> -lpthread
#include <photon/thread/thread.h>
#include <photon/thread/thread11.h>
#include <cstdio>
#include <cerrno>
#include <time.h>
using namespace photon;
static uint64_t us() { timespec t; clock_gettime(CLOCK_MONOTONIC, &t); return t.tv_sec * 1000000ull + t.tv_nsec / 1000; }
int main() {
    vcpu_init();
    int bad = 0;
    {   // (a)
        thread* A = nullptr;
        int y = -2, s = -2, e = 0; uint64_t dt = 0;
        auto jh = thread_enable_join(thread_create11([&] {
            A = CURRENT;
            y = thread_yield();                 // main interrupts us while we are READY inside the yield
            auto t0 = us();
            errno = 0;
            s = thread_usleep(20 * 1000);       // nobody interrupts this sleep
            e = errno; dt = us() - t0;
        }));
        thread_yield();                         // let A run up to its yield
        thread_interrupt(A, 4242);              // A is READY (inside thread_yield)
        thread_join(jh);
        printf("(a) yield returned %d; following sleep(20ms) returned %d errno=%d after %lu us  -> %s\n", y, s, e, (unsigned long)dt,
               (s == 0) ? "ok" : "BAD: the interrupt already reported by yield was delivered again");
        bad |= (s != 0);
    }
    {   // (b)
        int s = -2, e = 0; uint64_t dt = 0;
        auto th = thread_create11([&] {
            auto t0 = us();
            errno = 0;
            s = thread_usleep(30 * 1000);
            e = errno; dt = us() - t0;
        });
        auto jh = thread_enable_join(th);
        thread_interrupt(th, 777);              // th has not run yet; thread_interrupt returns before its sleep is even called
        thread_join(jh);
        printf("(b) first sleep(30ms) of a thread interrupted before it started: ret=%d errno=%d after %lu us -> %s\n", s, e, (unsigned long)dt,
               (s == 0) ? "ok" : "BAD: delivered to a later, unrelated sleep (and not even cut short)");
        bad |= (s != 0) << 1;
    }
    vcpu_fini();
    return bad;
}
