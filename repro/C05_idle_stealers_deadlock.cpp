// C05: two idle vCPUs that both have active and passive work stealing enabled dead-lock each other.
// idler(): `while (resume_threads() > 0 || !AtomicRunQ(rq).single() || try_work_stealing(vcpu))` - the AtomicRunQ temporary
// (which holds this vCPU's run-queue lock) lives until the end of the whole condition, i.e. during try_work_stealing().
// vCPU A: holds its run-queue lock, spins for vcpu_list_lock. vCPU B: holds vcpu_list_lock, waits for A's run-queue lock.
#include <photon/thread/thread.h>
#include <thread>
#include <atomic>
#include <cstdio>
#include <unistd.h>
#include <cstdlib>
using namespace photon;
static std::atomic<long> ticks{0};
int main() {
    std::thread th[2];
    for (int i = 0; i < 2; ++i)
        th[i] = std::thread([] {
            vcpu_init(VCPU_ENABLE_ACTIVE_WORK_STEALING | VCPU_ENABLE_PASSIVE_WORK_STEALING);
            for (int k = 0; k < 200000; ++k) { thread_usleep(20); ticks++; }
            vcpu_fini();
        });
    long last = -1; int same = 0;
    for (int s = 0; s < 60; ++s) {
        sleep(1);
        long t = ticks.load();
        if (t >= 400000) break;
        if (t == last && ++same >= 5) { printf("DEADLOCK: no vCPU woke up for 1 s after %ld sleeps (both spin in try_work_stealing)\n", t); fflush(stdout); if (getenv("REPRO_PAUSE")) for (;;) pause(); _exit(1); }
        last = t;
    }
    for (auto& t : th) t.join();
    printf("ok: %ld sleeps completed\n", ticks.load());
    return 0;
}
