// C05: ThreadPoolBase::join() returns before the task finished when the joining thread is interrupted,
// and then puts the still-running worker back into the pool.
#include <photon/thread/thread.h>
#include <photon/thread/thread11.h>
#include <photon/thread/thread-pool.h>
#include <cstdio>
using namespace photon;
static volatile bool finished = false;
static void* task(void*) { thread_usleep(100 * 1000); finished = true; return nullptr; }
int main() {
    vcpu_init();
    auto pool = new_thread_pool(4);
    bool done_at_join_return = true;
    auto ctl = pool->thread_create_ex(task, nullptr, /*joinable*/ true);
    thread* J = nullptr;
    auto jh = thread_enable_join(thread_create11([&] { J = CURRENT; pool->join(ctl); done_at_join_return = finished; }));
    thread_usleep(10 * 1000);           // J is blocked inside pool->join(), the task sleeps
    thread_interrupt(J, EINTR);
    thread_join(jh);
    printf("pool->join() returned; task finished at that moment: %s\n", done_at_join_return ? "yes (ok)" : "NO (BAD)");
    thread_usleep(200 * 1000);
    delete_thread_pool(pool);
    vcpu_fini();
    return done_at_join_return ? 0 : 1;
}
