// C08 (TSan note, not a violation of the property): the worker OS threads of one WorkPool call photon::init() concurrently;
// __photon_init() tests and sets the plain process-wide bool `reset_handle_registed` (photon.cpp) without synchronisation.
// Build against the tsan flavor:  g++ -std=c++17 -fsanitize=thread -DPHOTON_VERIF=1 -I/repo/include this.cpp \
//     -L/verif/build/tsan/lib/output -lphoton -Wl,-rpath,/verif/build/tsan/lib/output -lpthread
// Run with TSAN_OPTIONS=suppressions=/verif/tsan.supp : "data race ... in photon::__photon_init" on the first pool with >= 2 vCPUs.
// Worst case: pthread_atfork(reset_all_handle) is registered twice. h_workpool avoids the report by one photon::init()/fini()
// on the main thread before the first pool (--cfg warm=0 switches that off).
#include <photon/photon.h>
#include <photon/thread/workerpool.h>
#include <cstdio>
int main() {
    for (int i = 0; i < 20; ++i) {
        photon::WorkPool pool(4, photon::INIT_EVENT_NONE, photon::INIT_IO_NONE, -1);
        pool.call<photon::StdContext>([] {});
    }
    puts("done");
    return 0;
}
