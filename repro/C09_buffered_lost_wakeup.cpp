// C09: buffered photon::channel shared by two vCPUs - check-then-register without a re-check.
// buffered_recv():  pop fails -> [closed?] -> [expired?] -> m_receivers_waiting++ -> m_recv_sem.wait()
// buffered_send():  push -> if (m_receivers_waiting > 0) m_recv_sem.signal(1)
// close():          if (m_receivers_waiting > 0) m_recv_sem.signal(n)
// A push (or close) that runs between the receiver's failed pop and its m_receivers_waiting++ sees no waiter and does
// not signal; the receiver then sleeps although an item is buffered (or the channel is closed). The same holds for
// buffered_send() against a pop (m_senders_waiting). On one vCPU the window cannot be entered (no yield inside it);
// with two vCPUs it takes a preemption of the receiver's OS thread inside the window. This program holds the
// receiver's OS thread there with the verification stall hook (VERIF_POINT(P_CHAN_RECV_BEFORE_WAIT), which stalls the
// OS thread and never yields the photon thread) - exactly what a preemption does - so the outcome is deterministic.
// The receiver uses a 1 s timeout only so that the program ends: with recv() untimed it never returns.
// build: g++ -std=c++17 -O1 -g -DPHOTON_VERIF=1 -I/repo/include C09_buffered_lost_wakeup.cpp -L<libdir of a PHOTON_VERIF build> -lphoton -Wl,-rpath,<libdir> -lpthread
#include <photon/thread/thread.h>
#include <photon/thread/thread11.h>
#include <photon/thread/go.h>
#include <photon/common/verif-hooks.h>
#include <atomic>
#include <thread>
#include <cstdio>
#include <time.h>
using namespace photon;

static std::atomic<int> in_window{0}, go_on{0};
static thread_local bool is_receiver_thread = false, is_sender_thread = false;
static thread_local int calls = 0;
static void stall(uint32_t id) {
    // receiver: second hook of the loop iteration = right before m_receivers_waiting.fetch_add()
    // sender: the only hook = right before m_senders_waiting.fetch_add()
    if (id == verif::P_CHAN_SEND_BEFORE_WAIT && is_sender_thread && ++calls == 1) goto hold;
    if (id != verif::P_CHAN_RECV_BEFORE_WAIT || !is_receiver_thread || ++calls != 2) return;
hold:
    in_window.store(1);
    while (!go_on.load()) { struct timespec ts = {0, 100000}; nanosleep(&ts, nullptr); }
}
static uint64_t ms_now() { struct timespec t; clock_gettime(CLOCK_MONOTONIC, &t); return t.tv_sec * 1000ull + t.tv_nsec / 1000000; }

static int scenario(bool do_close) {
    channel<int> ch(2);
    in_window = 0; go_on = 0;
    bool r = true; int v = 0, err = 0; uint64_t took = 0;
    std::thread A([&] {
        vcpu_init();
        is_receiver_thread = true; calls = 0;
        auto t0 = ms_now();
        r = ch.recv(v, 1000 * 1000);               // empty: pop fails, then held inside the window
        err = errno; took = ms_now() - t0;
        is_receiver_thread = false;
        vcpu_fini();
    });
    std::thread B([&] {
        vcpu_init();
        while (!in_window.load()) thread_usleep(100);
        if (do_close) ch.close(); else printf("  send(7) -> %d\n", (int)ch.send(7));
        go_on.store(1);                             // the receiver's OS thread runs again
        thread_usleep(1200 * 1000);
        vcpu_fini();
    });
    A.join(); B.join();
    if (!do_close) {
        printf("  recv(timeout 1 s) -> %d after %lu ms (errno %d%s), size() = %zu  %s\n", r, (unsigned long)took, err, err == ETIMEDOUT ? " ETIMEDOUT" : "", ch.size(),
               (!r && ch.size() == 1) ? "=> the receiver slept for its whole timeout although an item was buffered (untimed: forever)" : "");
        return !r && ch.size() == 1;
    }
    printf("  recv(timeout 1 s) -> %d after %lu ms (errno %d%s)  %s\n", r, (unsigned long)took, err, err == ETIMEDOUT ? " ETIMEDOUT" : "",
           (!r && took >= 900) ? "=> close() did not wake the receiver (untimed: blocked forever on a closed channel)" : "");
    return !r && took >= 900;
}
static int sender_scenario(bool do_close) {
    channel<int> ch(1);
    in_window = 0; go_on = 0;
    ch.send(1);                                     // full (no photon environment needed: the push succeeds at once)
    bool r = true; int err = 0; uint64_t took = 0;
    std::thread A([&] {
        vcpu_init();
        is_sender_thread = true; calls = 0;
        auto t0 = ms_now();
        r = ch.send(2, 1000 * 1000);                // full: push fails, then held inside the window
        err = errno; took = ms_now() - t0;
        is_sender_thread = false;
        vcpu_fini();
    });
    std::thread B([&] {
        vcpu_init();
        while (!in_window.load()) thread_usleep(100);
        int v = 0;
        if (do_close) ch.close(); else { bool ok = ch.try_recv(v); printf("  try_recv -> %d (value %d)\n", (int)ok, v); }
        go_on.store(1);
        thread_usleep(1200 * 1000);
        vcpu_fini();
    });
    A.join(); B.join();
    if (!do_close) {
        printf("  send(timeout 1 s) -> %d after %lu ms (errno %d%s), size() = %zu of 1  %s\n", r, (unsigned long)took, err, err == ETIMEDOUT ? " ETIMEDOUT" : "", ch.size(),
               (!r && ch.size() == 0) ? "=> the sender slept for its whole timeout although the buffer had a free slot (untimed: forever)" : "");
        return !r && ch.size() == 0;
    }
    printf("  send(timeout 1 s) -> %d after %lu ms (errno %d%s)  %s\n", r, (unsigned long)took, err, err == ETIMEDOUT ? " ETIMEDOUT" : "",
           (!r && took >= 900) ? "=> close() did not wake the sender (untimed: blocked forever on a closed channel)" : "");
    return !r && took >= 900;
}
int main() {
    setvbuf(stdout, nullptr, _IOLBF, 0);
    verif::g_hooks.point = &stall;
    printf("A: send() runs between the receiver's failed pop and its waiter registration\n");
    int bad = scenario(false);
    printf("B: close() runs between the receiver's closed-check and its waiter registration\n");
    bad += scenario(true);
    printf("C: a pop runs between the sender's failed push and its waiter registration\n");
    bad += sender_scenario(false);
    printf("D: close() runs between the sender's failed push and its waiter registration\n");
    bad += sender_scenario(true);
    return bad ? 1 : 0;
}
