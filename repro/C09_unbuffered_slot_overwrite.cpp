// C09: unbuffered photon::channel with more than one value "in flight".
// unbuffered_send() waits only until "a receiver is announced OR the slot is full"; it never waits for the single
// rendezvous slot (m_handoff_ptr / m_handoff_ready) to become EMPTY, and both phases of every sender ("wait for a
// receiver" and "wait until my value was taken") sleep on the same condition variable that is woken with notify_one().
//   A: sender, receiver, second sender before the receiver is rescheduled: the slot is overwritten, both send()
//      return true, one value is never received (its heap cell leaks)
//   B: ONE sender thread: try_send(1) succeeded (receiver announced, not yet rescheduled), then send(2): overwritten
//   C: two queued senders, then a receiver: nothing is lost, but the notify_one() issued when a value is taken wakes
//      the sender that still waits for a receiver instead of the one whose value was taken: that sender stays
//      blocked in send() although its value was received (and, with a receiver announced, sender and receiver
//      can both stay blocked)
//   D: no overwrite at all: timed sender T placed 1, receiver R1 took it and made T runnable; before T runs, sender U
//      places 2 for the second announced receiver. T re-checks "slot still full?", takes U's value for its own,
//      finds its deadline passed, DELETES U's cell and returns false (although 1 was delivered); U's send(2) later
//      returns true although nobody received 2
// build: g++ -std=c++17 -O1 -g -I/repo/include C09_unbuffered_slot_overwrite.cpp -L<libdir> -lphoton -Wl,-rpath,<libdir> -lpthread
#include <photon/thread/thread.h>
#include <photon/thread/thread11.h>
#include <photon/thread/go.h>
#include <cstdio>
#include <time.h>
using namespace photon;

struct Snd { int ret = -1; bool done = false; };
static join_handle* sender(channel<int>& ch, int v, Snd& s, bool use_try_then_send = false) {
    return thread_enable_join(thread_create11([&ch, v, &s] { s.ret = ch.send(v); s.done = true; }));
}

static int scenario_A() {
    channel<int> ch;
    Snd s1, s2;
    bool r1 = false, r2 = false;
    int v1 = 0, v2 = 0;
    auto a = sender(ch, 1, s1);
    thread_usleep(1000);                       // sender 1 is queued, no receiver yet
    auto r = thread_enable_join(thread_create11([&] { r1 = ch.recv(v1, 100 * 1000); r2 = ch.recv(v2, 100 * 1000); }));
    auto b = sender(ch, 2, s2);                // arrives right behind the receiver
    thread_join(r);
    thread_usleep(1000);
    printf("A sender,receiver,sender : send(1)=%d send(2)=%d | recv#1=%d (value %d) recv#2=%d (value %d)  %s\n", s1.ret, s2.ret, r1, v1, r2, v2,
           (s1.ret == 1 && s2.ret == 1 && !(r1 && r2)) ? "=> a value reported sent was LOST" : "");
    int bad = (s1.ret == 1 && s2.ret == 1 && !(r1 && r2));
    ch.close();
    thread_join(a); thread_join(b);
    return bad;
}
static int scenario_B() {
    channel<int> ch;
    bool t1 = false, s2 = false, r1 = false, r2 = false;
    int v1 = 0, v2 = 0;
    auto r = thread_enable_join(thread_create11([&] { r1 = ch.recv(v1, 100 * 1000); r2 = ch.recv(v2, 100 * 1000); }));
    thread_usleep(1000);                       // the receiver is announced and waits
    t1 = ch.try_send(1);                       // true: placed in the slot, receiver made runnable
    s2 = ch.send(2, 50 * 1000);                // same thread, no yield in between: overwrites the slot
    thread_join(r);
    printf("B try_send then send     : try_send(1)=%d send(2)=%d | recv#1=%d (value %d) recv#2=%d (value %d)  %s\n", t1, s2, r1, v1, r2, v2,
           (t1 && s2 && !(r1 && r2)) ? "=> a value reported sent was LOST" : "");
    return t1 && s2 && !(r1 && r2);
}
static int scenario_C() {
    channel<int> ch;
    Snd s1, s2;
    bool r1 = false, r2 = false;
    int v1 = 0, v2 = 0;
    auto a = sender(ch, 1, s1);
    auto b = sender(ch, 2, s2);
    thread_usleep(1000);                       // both senders are queued, no receiver yet
    r1 = ch.recv(v1, 100 * 1000);
    r2 = ch.recv(v2, 100 * 1000);
    thread_usleep(200 * 1000);
    bool stuck1 = !s1.done, stuck2 = !s2.done;
    printf("C sender,sender,receiver : recv#1=%d (value %d) recv#2=%d (value %d) | 200 ms later: send(1) %s, send(2) %s  %s\n", r1, v1, r2, v2,
           stuck1 ? "STILL BLOCKED" : "returned", stuck2 ? "STILL BLOCKED" : "returned",
           (r1 && r2 && (stuck1 || stuck2)) ? "=> a sender whose value was received is not released" : "");
    ch.close();
    thread_join(a); thread_join(b);
    return r1 && r2 && (stuck1 || stuck2);
}
static void spin_ms(int ms) {
    struct timespec a, b;
    clock_gettime(CLOCK_MONOTONIC, &a);
    do clock_gettime(CLOCK_MONOTONIC, &b); while ((b.tv_sec - a.tv_sec) * 1000 + (b.tv_nsec - a.tv_nsec) / 1000000 < ms);
}
static int scenario_D() {
    channel<int> ch;
    bool r1 = false, r2 = false; int v1 = 0, v2 = 0;
    int tret = -1, uret = -1;
    auto R1 = thread_enable_join(thread_create11([&] { r1 = ch.recv(v1, 300 * 1000); }));
    auto R2 = thread_enable_join(thread_create11([&] { r2 = ch.recv(v2, 300 * 1000); }));
    thread_usleep(1000);                       // two receivers are announced and wait
    auto T = thread_enable_join(thread_create11([&] { tret = ch.send(1, 2000); }));            // 2 ms
    auto U = thread_enable_join(thread_create11([&] { thread_yield(); spin_ms(3); uret = ch.send(2, 100 * 1000); }));
    thread_join(T); thread_join(U); thread_join(R1); thread_join(R2);
    printf("D timed-out sender       : send(1, 2 ms)=%d send(2)=%d | receiver#1=%d (value %d) receiver#2=%d (value %d)  %s\n", tret, uret, r1, v1, r2, v2,
           (uret == 1 && !(r1 && v1 == 2) && !(r2 && v2 == 2)) ? "=> value 2 reported sent was LOST (deleted by the other sender)" : "");
    return uret == 1 && !(r1 && v1 == 2) && !(r2 && v2 == 2);
}
int main() {
    setvbuf(stdout, nullptr, _IOLBF, 0);
    vcpu_init();
    int bad = scenario_A() + scenario_B() + scenario_C() + scenario_D();
    vcpu_fini();
    return bad ? 1 : 0;
}
