// C09: unbuffered photon::channel - the single rendezvous slot is overwritten by a second send().
// unbuffered_send() waits only for "a receiver is announced OR the slot is full"; it never waits for the slot to
// become empty, so a send() that arrives while a value sits in the slot replaces it. Both send() return true and
// the first value is never received (its heap cell leaks).
//   A: two queued senders, one receiver (sender, sender, receiver)
//   B: ONE sender: try_send(1) succeeded (receiver announced, not yet rescheduled), then send(2)
// build: g++ -std=c++17 -O1 -g -I/repo/include C09_unbuffered_slot_overwrite.cpp -L<libdir> -lphoton -Wl,-rpath,<libdir>
#include <photon/thread/thread.h>
#include <photon/thread/thread11.h>
#include <photon/thread/go.h>
#include <cstdio>
using namespace photon;

static int scenario_A() {
    channel<int> ch;
    bool s1 = false, s2 = false, r1 = false, r2 = false;
    int v1 = 0, v2 = 0;
    auto a = thread_enable_join(thread_create11([&] { s1 = ch.send(1); }));
    auto b = thread_enable_join(thread_create11([&] { s2 = ch.send(2); }));
    thread_usleep(1000);                       // both senders are queued, no receiver yet
    r1 = ch.recv(v1, 100 * 1000);
    r2 = ch.recv(v2, 100 * 1000);              // second value: never arrives
    thread_join(a); thread_join(b);
    printf("A two queued senders : send(1)=%d send(2)=%d | recv#1=%d (value %d) recv#2=%d (value %d)  %s\n", s1, s2, r1, v1, r2, v2,
           (s1 && s2 && !(r1 && r2)) ? "=> a value reported sent was LOST" : "ok");
    return s1 && s2 && !(r1 && r2);
}
static int scenario_B() {
    channel<int> ch;
    bool t1 = false, s2 = false, r1 = false, r2 = false;
    int v1 = 0, v2 = 0;
    auto r = thread_enable_join(thread_create11([&] { r1 = ch.recv(v1, 100 * 1000); r2 = ch.recv(v2, 100 * 1000); }));
    thread_usleep(1000);                       // the receiver is announced and waits
    t1 = ch.try_send(1);                       // true: placed in the slot, receiver made runnable
    s2 = ch.send(2);                           // same thread, no yield in between: overwrites the slot
    thread_join(r);
    printf("B try_send then send : try_send(1)=%d send(2)=%d | recv#1=%d (value %d) recv#2=%d (value %d)  %s\n", t1, s2, r1, v1, r2, v2,
           (t1 && s2 && !(r1 && r2)) ? "=> a value reported sent was LOST" : "ok");
    return t1 && s2 && !(r1 && r2);
}
int main() {
    vcpu_init();
    int bad = scenario_A() + scenario_B();
    vcpu_fini();
    return bad ? 1 : 0;
}
