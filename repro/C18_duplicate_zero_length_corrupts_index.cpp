// build: g++ -std=c++17 -O2 -g -DPHOTON_VERIF=1 -I/repo/include -I/repo X.cpp -L/verif/build/plain/lib/output -lphoton -Wl,-rpath,/verif/build/plain/lib/output -lpthread
//        (C19_v2_borrow_dtor_use_after_free: use the asan flavor: -fsanitize=address and /verif/build/asan/lib/output)
// minimal reproducer: two zero-length locks at one offset corrupt the index; an overlapping non-empty lock then succeeds
#include <photon/photon.h>
#include <photon/thread/thread11.h>
#include <photon/common/range-lock.h>
#include <cstdio>
#include <unistd.h>
int main() {
    photon::init(photon::INIT_EVENT_DEFAULT, photon::INIT_IO_NONE);
    RangeLock L;
    auto z1 = L.lock(5, 0);
    auto a  = L.lock(3, 2);        // [3,5) is held from here on
    auto z2 = L.lock(5, 0);        // same zero-length range again (legal: empty ranges overlap nothing)
    auto b  = L.try_lock_wait2(3, 2);   // must wait (returns nullptr after being woken); nobody unlocks here, so a correct
                                        // implementation would block - guard with a helper thread in real use
    printf("second lock of [3,5) while the first is still held -> %p (%s)\n", (void*)b, b ? "ACQUIRED TWICE" : "refused");
    fflush(stdout);
    _exit(0);
}
