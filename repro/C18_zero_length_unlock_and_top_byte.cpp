// build: g++ -std=c++17 -O2 -g -DPHOTON_VERIF=1 -I/repo/include -I/repo X.cpp -L/verif/build/plain/lib/output -lphoton -Wl,-rpath,/verif/build/plain/lib/output -lpthread
//        (C19_v2_borrow_dtor_use_after_free: use the asan flavor: -fsanitize=address and /verif/build/asan/lib/output)
// minimal reproducer: zero-length range taken by try_lock_wait is not released by unlock(offset,0)
#include <photon/photon.h>
#include <photon/thread/thread11.h>
#include <photon/common/range-lock.h>
#include <cstdio>
#include <unistd.h>
int main() {
    photon::init(photon::INIT_EVENT_DEFAULT, photon::INIT_IO_NONE);
    RangeLock L;
    uint64_t o = 5, l = 0;
    int r = L.try_lock_wait(o, l);
    printf("try_lock_wait(5,0) = %d\n", r);
    L.unlock(5, 0);
    printf("unlock(5,0) done; nothing is held now\n");
    bool got = false;
    auto th = photon::thread_create11([&] { auto h = L.lock(0, 10); got = true; L.unlock(h); });
    photon::thread_usleep(300 * 1000);
    printf("lock(0,10) acquired after 300ms: %s\n", got ? "yes" : "NO (still blocked)");
    // top byte: two holders of byte 2^64-1
    RangeLock T;
    uint64_t o1 = UINT64_MAX, l1 = 1, o2 = UINT64_MAX, l2 = 1;
    int a = T.try_lock_wait(o1, l1), b = T.try_lock_wait(o2, l2);
    printf("try_lock_wait(2^64-1,1) twice = %d %d (both 0 => byte 2^64-1 held twice)\n", a, b);
    RangeLock U;
    auto h1 = U.lock(UINT64_MAX - 1, 2);
    auto h2 = U.try_lock_wait2(UINT64_MAX, 1);
    printf("lock(2^64-2,2) then try_lock_wait2(2^64-1,1) -> %p (non-null => overlap on the top byte)\n", (void*)h2);
    fflush(stdout);
    _exit(0);
}
