// build: g++ -std=c++17 -O2 -g -DPHOTON_VERIF=1 -I/repo/include -I/repo X.cpp -L/verif/build/plain/lib/output -lphoton -Wl,-rpath,/verif/build/plain/lib/output -lpthread
//        (C19_v2_borrow_dtor_use_after_free: use the asan flavor: -fsanitize=address and /verif/build/asan/lib/output)
// minimal reproducer: second of two concurrent recycling releases returns while a third holder still has the object
#include <photon/photon.h>
#include <photon/thread/thread11.h>
#include <photon/common/alog.h>
#include <photon/common/expirecontainer.h>
#include <cstdio>
#include <unistd.h>
struct V { int x = 7; ~V() { printf("  ~V\n"); } };
int main() {
    photon::init(photon::INIT_EVENT_DEFAULT, photon::INIT_IO_NONE);
    set_log_output_level(ALOG_ERROR);
    auto ctor = [] { return new V; };
    ObjectCache<int, V*> oc(10 * 1000 * 1000);
    V* a = oc.acquire(0, ctor); V* b = oc.acquire(0, ctor); V* c = oc.acquire(0, ctor);   // three references A, B, C
    bool ra = false, rb = false;
    auto ta = photon::thread_enable_join(photon::thread_create11([&] { oc.release(0, true); ra = true; }));   // A recycles: waits for B and C
    photon::thread_yield();
    auto tb = photon::thread_enable_join(photon::thread_create11([&] { oc.release(0, true); rb = true; }));   // B recycles too
    photon::thread_yield();
    printf("A's recycling release returned: %d, B's recycling release returned: %d, while C still holds and reads x=%d\n", ra, rb, c->x);
    oc.release(0);                    // C releases
    photon::thread_join(ta); photon::thread_join(tb);
    printf("after C released: A returned %d\n", ra);
    fflush(stdout);
    _exit(0);
}
