// build: g++ -std=c++17 -O2 -g -DPHOTON_VERIF=1 -I/repo/include -I/repo X.cpp -L/verif/build/plain/lib/output -lphoton -Wl,-rpath,/verif/build/plain/lib/output -lpthread
//        (C19_v2_borrow_dtor_use_after_free: use the asan flavor: -fsanitize=address and /verif/build/asan/lib/output)
// minimal reproducer: ObjectCacheV2::Borrow::~Borrow touches the Box after its own release(); the reclaimer may have freed it
#include <photon/photon.h>
#include <photon/thread/thread11.h>
#include <photon/common/alog.h>
#include <photon/common/objectcachev2.h>
#include <photon/common/verif-hooks.h>
#include <thread>
#include <atomic>
#include <cstdio>
#include <unistd.h>
struct V { int x = 7; };
static std::atomic<pthread_t> victim{0};
static std::atomic<int> stalled{0};
static void point(uint32_t id) {       // OS-level stall of the victim's OS thread between release() and the rc==0 re-check
    if (id == photon::verif::P_OBJCACHEV2_RELEASE && pthread_self() == victim.load()) { stalled = 1; sleep(3); stalled = 2; }
}
int main() {
    photon::init(photon::INIT_EVENT_DEFAULT, photon::INIT_IO_NONE);
    set_log_output_level(ALOG_ERROR);
    photon::verif::g_hooks.point = &point;
    auto oc = new ObjectCacheV2<int, V*>(0);            // reclaimer timer lives on this vCPU, fires once per second
    std::thread other([&] {
        photon::init(photon::INIT_EVENT_DEFAULT, photon::INIT_IO_NONE);
        victim = pthread_self();
        { auto b = oc->borrow(0, [] { return new V; }); }      // ~Borrow: release(), <preempted here>, if (_box->rc == 0) ...
        printf("victim done\n");
        photon::fini();
    });
    while (stalled.load() != 1) photon::thread_usleep(1000);
    { auto b = oc->borrow(0, [] { return new V; }); }          // another user of the key: puts the box on the LRU list
    photon::thread_usleep(2200 * 1000);                          // the reclaimer runs and erases the idle box
    other.join();
    printf("no sanitizer: finished (the victim read and relinked freed memory)\n");
    _exit(0);
}
