// C07 reproducer: the fixed-size ring queues declared with template capacity N = 1.
// The constructor rounds capacity up to 2 (N > 1 ? ... : 2), but the slot array is sized by
//   SLOTS_NUM = 1 << (64 - __builtin_clzll(N - 1)) = 1 << (64 - clzll(0)),  and gcc folds clzll(0) to 64,
// so the array has ONE slot while the index arithmetic uses two: the second element is stored behind the array.
//  - In a class derived from the queue (this is how photon::common::RingChannel<Queue> is built) the derived
//    members start right behind the array (tail padding of a non-POD base is reused), so they are overwritten:
//    for RingChannel that is its photon::semaphore queue_sem.
//  - For LockfreeMPMCRingQueue the missing slot is a whole cache line behind the object; its "mark" is whatever
//    the neighbouring memory holds, so push() either spins for ever or scribbles over the neighbour.
// build: g++ -std=c++17 -O2 -g -I/repo/include c07_ring_n1.cpp -L<libdir> -lphoton -lpthread   (add -fsanitize=address
// and allocate the queue alone on the heap to get the heap-buffer-overflow report the check sees)
#include <photon/common/lockfree_queue.h>
#include <cstdio>
#include <unistd.h>

template <typename Q, uint64_t FILL>
struct Derived : Q {                    // same shape as RingChannel<Q>: members follow the base sub-object
    uint64_t member[4] = {FILL, FILL, FILL, FILL};
};

template <typename Q, uint64_t FILL = 0x2222222222222222ull>
static void run(const char* name, bool zero_neighbour = false) {
    struct Guarded { Derived<Q, FILL> q; uint64_t neighbour[16]; };
    auto g = new Guarded();
    for (auto& x : g->neighbour) x = zero_neighbour ? 0 : 0x1111111111111111ull;
    printf("%s: capacity=%zu SLOTS_NUM=%zu sizeof(queue)=%zu\n", name, (size_t)g->q.capacity, (size_t)Q::SLOTS_NUM, sizeof(Q));
    bool a = g->q.push(0xAAAAAAAAAAAAAAAAull);
    bool b = g->q.push(0xBBBBBBBBBBBBBBBBull);     // slot index 1: outside slots[SLOTS_NUM]
    printf("  push#1=%d push#2=%d\n  members of the derived class (were all %llx):", a, b, (unsigned long long)FILL);
    for (auto x : g->q.member) printf(" %llx", (unsigned long long)x);
    printf("\n  memory behind the object (was %s):", zero_neighbour ? "0" : "1111...");
    for (auto x : g->neighbour) printf(" %llx", (unsigned long long)x);
    printf("\n");
    delete g;
}

int main() {
    setvbuf(stdout, nullptr, _IONBF, 0);
    alarm(5);
    run<LockfreeSPSCRingQueue<uint64_t, 1>>("LockfreeSPSCRingQueue<uint64_t,1>", false);
    run<LockfreeBatchMPMCRingQueue<uint64_t, 1>>("LockfreeBatchMPMCRingQueue<uint64_t,1>", false);
    run<LockfreeMPMCRingQueue<uint64_t, 1>, 0>("LockfreeMPMCRingQueue<uint64_t,1> (memory behind it happens to be zero)", true);
    printf("now with non-zero memory behind it: push #2 never returns (killed by alarm after 5 s)\n");
    run<LockfreeMPMCRingQueue<uint64_t, 1>>("LockfreeMPMCRingQueue<uint64_t,1>", false);
    return 0;
}
